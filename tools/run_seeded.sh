#!/usr/bin/env bash
# tools/run_seeded.sh [-j N] [dir ...]   - re-confirm the seeded changes under /verif/seeded against the CURRENT checks.
# For each: scratch copy of /repo (outside /repo and /verif, removed afterwards), demo.py clean / patched, ./check <property>
# against the patched copy.  Prints one line per change: caught | NOT CAUGHT | patch does not apply | expected miss.
cd "$(dirname "$0")/.."
J=4
if [ "${1:-}" = "-j" ]; then J=$2; shift 2; fi
DIRS=("$@")
[ ${#DIRS[@]} -eq 0 ] && DIRS=(seeded/*/)
printf '%s\n' "${DIRS[@]}" | xargs -P "$J" -I{} sh -c '
  d={}; n=$(basename $d)
  out=$(python3 tools/eval_seeded.py $d 2>/dev/null)
  python3 - "$n" "$d" <<PY
import json,sys
n,d=sys.argv[1],sys.argv[2]
try:
    r=json.loads("""$out""")
except Exception:
    print(n,"evaluation failed"); sys.exit()
m=json.load(open(d.rstrip("/")+"/meta.json"))
if not r.get("patch_applies",True):
    print(n,"patch does not apply to the current /repo"); sys.exit()
ok=all(c["exit"]==1 for c in r["checks"].values())
tag="caught" if ok else ("expected miss (see meta.json not_detected)" if m.get("not_detected") else "NOT CAUGHT")
print(n, "demo clean/patched", r.get("demo_clean_exit"), r.get("demo_patched_exit"), "|", tag, "|", "; ".join(v for c in r["checks"].values() for v in c["violations"][:2]))
PY
'
