#!/usr/bin/env python3
"""tools/eval_seeded.py <dir-with-patch.diff+demo.py+meta.json> [--suite] [--tier quick|thorough] [--pids C08,C15]

Confirms a seeded change independently and runs our checks against it, all on a scratch copy of /repo outside
/repo and /verif (removed afterwards):
  1. demo.py on the clean copy            -> must exit 0
  2. apply patch.diff; demo.py            -> must exit 1
  3. (--suite) the repository's test suite on the patched copy -> 306 passed, only the 2 always-failing tests fail
  4. ./check <pid> (VERIF_REPO -> the patched copy) for the property of meta.json (or --pids) -> exit 1 expected
Prints one JSON line with the verdicts.
"""
import argparse
import json
import os
import re
import shutil
import subprocess
import sys
import tempfile

VERIF = os.path.dirname(os.path.dirname(os.path.abspath(__file__)))
PY = "/venv/bin/python"


def run(cmd, cwd, env=None, timeout=1800):
    e = dict(os.environ)
    e.update(env or {})
    p = subprocess.run(cmd, cwd=cwd, env=e, capture_output=True, text=True, timeout=timeout)
    return p.returncode, p.stdout + p.stderr


def main():
    ap = argparse.ArgumentParser()
    ap.add_argument("dir")
    ap.add_argument("--suite", action="store_true")
    ap.add_argument("--tier", default="quick")
    ap.add_argument("--pids", default=None)
    ap.add_argument("--no-check", action="store_true")
    a = ap.parse_args()
    d = os.path.abspath(a.dir)
    meta = json.load(open(os.path.join(d, "meta.json")))
    pids = a.pids.split(",") if a.pids else [meta["property"]]
    scratch = tempfile.mkdtemp(prefix="vseed.", dir="/tmp")
    out = dict(dir=d, property=meta["property"])
    try:
        for sub in ("reamber", "tests", "rsc"):
            shutil.copytree(os.path.join("/repo", sub), os.path.join(scratch, sub))
        for f in ("setup.py", "setup.cfg", "pyproject.toml", "pytest.ini", "conftest.py"):
            if os.path.exists(os.path.join("/repo", f)):
                shutil.copy(os.path.join("/repo", f), scratch)
        shutil.copy(os.path.join(d, "demo.py"), os.path.join(scratch, "demo_seeded.py"))
        env = {"PYTHONPATH": scratch, "PYTHONDONTWRITEBYTECODE": "1"}
        rc, txt = run([PY, "demo_seeded.py"], scratch, env)
        out["demo_clean_exit"] = rc
        rc, txt = run(["patch", "-p1", "-s", "-i", os.path.join(d, "patch.diff")], scratch)
        out["patch_applies"] = rc == 0
        if rc != 0:
            out["patch_error"] = txt[-400:]
            print(json.dumps(out))
            return 2
        rc, txt = run([PY, "demo_seeded.py"], scratch, env)
        out["demo_patched_exit"] = rc
        out["demo_patched_tail"] = txt.strip().splitlines()[-2:]
        if a.suite:
            rc, txt = run([PY, "-m", "pytest", "-q", "-p", "no:cacheprovider", "--timeout=900", "-x", "--deselect",
                           "tests/algorithm_tests/osu/replay/test_parse_replay.py::test_parse_replays_error_osr"], scratch, env)
            m = re.search(r"(\d+) passed", txt)
            out["suite_passed"] = int(m.group(1)) if m else None
            out["suite_failed"] = re.findall(r"^FAILED (\S+)", txt, re.M)[:5]
            out["suite_ok"] = bool(m) and int(m.group(1)) == 306 and " failed" not in txt.splitlines()[-1]
        if not a.no_check:
            out["checks"] = {}
            for pid in pids:
                rc, txt = run([os.path.join(VERIF, "check"), pid, "--tier", a.tier], VERIF,
                              {"VERIF_REPO": scratch, "PYTHONPATH": scratch, "VERIF_REPLAY_DIR": os.path.join(scratch, "replays"), "VERIF_EVIDENCE_DIR": os.path.join(scratch, "evidence")}, timeout=3600)
                viol = sorted(set(re.findall(r"^VIOLATION property=\S+ replay=\S+ (?:obligation|clause)=(\S+)", txt, re.M)))
                out["checks"][pid] = dict(exit=rc, violations=viol[:12], n=len(viol),
                                          errors=re.findall(r"^CHECKER-ERROR: (.*)", txt, re.M)[:3])
        print(json.dumps(out))
        return 0
    finally:
        shutil.rmtree(scratch, ignore_errors=True)


if __name__ == "__main__":
    sys.exit(main())
