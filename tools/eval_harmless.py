#!/usr/bin/env python3
"""tools/eval_harmless.py <dir-with-patch.diff+meta.json> [--tier quick] [--all]
False-alarm test: applies a change that keeps the property (refactoring / irrelevant behaviour) to a scratch copy of
/repo (outside /repo and /verif, removed afterwards) and runs ./check for the named property and for every other
property whose anchor files or contract targets touch a changed file (--all: all 20).  Expected: exit 0 everywhere.
Prints one JSON line."""
import argparse, json, os, re, shutil, subprocess, sys, tempfile

VERIF = os.path.dirname(os.path.dirname(os.path.abspath(__file__)))


def run(cmd, cwd, env=None, timeout=3600):
    e = dict(os.environ); e.update(env or {})
    p = subprocess.run(cmd, cwd=cwd, env=e, capture_output=True, text=True, timeout=timeout)
    return p.returncode, p.stdout + p.stderr


def main():
    ap = argparse.ArgumentParser()
    ap.add_argument("dir"); ap.add_argument("--tier", default="quick"); ap.add_argument("--all", action="store_true")
    a = ap.parse_args()
    d = os.path.abspath(a.dir)
    meta = json.load(open(os.path.join(d, "meta.json")))
    patch = open(os.path.join(d, "patch.diff")).read()
    changed = sorted(set(re.findall(r"^\+\+\+ b/(\S+)", patch, re.M)))
    props = [json.loads(l) for l in open(os.path.join(VERIF, "properties.jsonl"))]
    pids = [meta["property"]]
    for p in props:
        if a.all or set(p["anchors"]["files"]) & set(changed):
            if p["id"] not in pids:
                pids.append(p["id"])
    # contract targets living in a changed file
    for f in sorted(os.listdir(os.path.join(VERIF, "contracts"))):
        m = re.match(r"(C\d\d)_", f)
        if not m or m.group(1) in pids:
            continue
        txt = open(os.path.join(VERIF, "contracts", f)).read()
        for c in changed:
            mod = c[:-3].replace("/", ".")
            if mod in txt:
                pids.append(m.group(1)); break
    scratch = tempfile.mkdtemp(prefix="vharm.", dir="/tmp")
    out = dict(dir=d, property=meta["property"], changed=changed, kind=meta.get("kind"))
    try:
        for sub in ("reamber", "tests", "rsc"):
            shutil.copytree(os.path.join("/repo", sub), os.path.join(scratch, sub))
        rc, txt = run(["patch", "-p1", "-s", "-i", os.path.join(d, "patch.diff")], scratch)
        out["patch_applies"] = rc == 0
        if rc:
            print(json.dumps(out)); return 2
        out["checks"] = {}
        for pid in pids:
            rc, txt = run([os.path.join(VERIF, "check"), pid, "--tier", a.tier], VERIF,
                          {"VERIF_REPO": scratch, "PYTHONPATH": scratch, "VERIF_REPLAY_DIR": os.path.join(scratch, "replays"), "VERIF_EVIDENCE_DIR": os.path.join(scratch, "evidence")})
            viol = sorted(set(re.findall(r"^VIOLATION property=\S+ replay=\S+ (?:obligation|clause)=(\S+)", txt, re.M)))
            und = len(re.findall(r"^UNDECIDED", txt, re.M))
            s = re.search(r"summary .*", txt)
            out["checks"][pid] = dict(exit=rc, violations=viol[:10], undecided=und, errors=re.findall(r"^CHECKER-ERROR: (.*)", txt, re.M)[:3], summary=s.group(0) if s else txt[-300:])
        print(json.dumps(out)); return 0
    finally:
        shutil.rmtree(scratch, ignore_errors=True)


if __name__ == "__main__":
    sys.exit(main())
