#!/usr/bin/env bash
# tools/with_patch.sh <patch.diff | -e 'sed-expr' file> -- <command...>
# Runs <command> against a scratch copy of /repo with a change applied (VERIF_REPO points the checks at it).
# The copy lives outside /repo and /verif and is removed afterwards.  Never used by MANIFEST commands.
set -uo pipefail
S=$(mktemp -d /tmp/vrepo.XXXXXX)
trap 'rm -rf "$S"' EXIT
cp -r /repo/reamber /repo/rsc "$S"/ 2>/dev/null
cp -r /repo/tests "$S"/ 2>/dev/null
if [ "$1" = "-e" ]; then
  sed -i -e "$2" "$S/$3" || exit 9
  diff -u "/repo/$3" "$S/$3" | head -30
  shift 3
else
  (cd "$S" && patch -p1 -s < "$1") || exit 9
  shift 1
fi
[ "$1" = "--" ] && shift
VERIF_REPO="$S" PYTHONPATH="$S" "$@"
