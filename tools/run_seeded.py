#!/usr/bin/env python3
"""tools/run_seeded.py [-j N] [--update] [--suite] [dir ...]
Re-confirms the seeded changes under /verif/seeded against the CURRENT checks (each on its own scratch copy of /repo,
outside /repo and /verif, removed afterwards; see tools/eval_seeded.py).  One line per change:
  caught (by clauses other than the listed known findings) | NOT CAUGHT | expected miss | patch does not apply.
--update rewrites `our_checks` in each meta.json from this run (and marks first_run_missed changes as now caught)."""
import argparse, glob, json, os, subprocess, sys
from concurrent.futures import ThreadPoolExecutor

VERIF = os.path.dirname(os.path.dirname(os.path.abspath(__file__)))


def one(d, suite):
    cmd = [sys.executable, os.path.join(VERIF, "tools", "eval_seeded.py"), d] + (["--suite"] if suite else [])
    p = subprocess.run(cmd, capture_output=True, text=True)
    try:
        return d, json.loads(p.stdout.strip().splitlines()[-1])
    except Exception:
        return d, dict(error=(p.stdout + p.stderr)[-300:])


def main():
    ap = argparse.ArgumentParser()
    ap.add_argument("-j", type=int, default=3)
    ap.add_argument("--update", action="store_true")
    ap.add_argument("--suite", action="store_true")
    ap.add_argument("dirs", nargs="*")
    a = ap.parse_args()
    dirs = [d.rstrip("/") for d in (a.dirs or sorted(glob.glob(os.path.join(VERIF, "seeded", "*/"))))]
    bad = 0
    with ThreadPoolExecutor(a.j) as ex:
        for d, r in ex.map(lambda d: one(d, a.suite), dirs):
            n = os.path.basename(d)
            mp = os.path.join(d, "meta.json")
            m = json.load(open(mp))
            if "error" in r:
                print(n, "evaluation failed:", r["error"]); bad += 1; continue
            if not r.get("patch_applies", True):
                print(n, "patch does not apply to the current /repo"); bad += 1; continue
            if m.get("obsolete_since"):
                print(n, "| obsolete (no longer a fault on the repaired tree) | demo exits", (r.get("demo_clean_exit"), r.get("demo_patched_exit")), "check exits", [c["exit"] for c in r["checks"].values()]); continue
            ok = all(c["exit"] == 1 and c["n"] > 0 for c in r["checks"].values())
            demo = (r.get("demo_clean_exit"), r.get("demo_patched_exit"))
            if demo != (0, 1):
                print(n, "demo no longer discriminates:", demo); bad += 1
            tag = "caught" if ok else ("expected miss (meta.json not_detected)" if m.get("not_detected") else "NOT CAUGHT")
            if tag == "NOT CAUGHT":
                bad += 1
            print(n, "|", tag, "|", "; ".join(v for c in r["checks"].values() for v in c["violations"][:3]), flush=True)
            if a.update:
                m["our_checks"] = {k: {"exit": v["exit"], "violated": v["violations"]} for k, v in r["checks"].items()}
                if ok and m.get("not_detected"):
                    m["formerly_not_detected"] = m.pop("not_detected")
                json.dump(m, open(mp, "w"), indent=1)
    return 1 if bad else 0


if __name__ == "__main__":
    sys.exit(main())
