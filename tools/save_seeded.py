#!/usr/bin/env python3
"""tools/save_seeded.py <src-dir> <round> [--missed "what was strengthened"]
Copies a confirmed seeded change (patch.diff, demo.py, meta.json) to /verif/seeded/<name> and records in its
meta.json what tools/eval_seeded.py --suite reported (<src-dir>.eval holds that JSON line)."""
import json, os, shutil, sys

src = sys.argv[1].rstrip("/")
rnd = int(sys.argv[2])
missed = sys.argv[4] if len(sys.argv) > 4 and sys.argv[3] == "--missed" else None
ev = json.loads(open(src + ".eval").read().strip().splitlines()[-1])
assert ev["demo_clean_exit"] == 0 and ev["demo_patched_exit"] == 1 and ev.get("suite_ok"), ev
name = os.path.basename(src)
dst = os.path.join(os.path.dirname(os.path.dirname(os.path.abspath(__file__))), "seeded", name)
os.makedirs(dst, exist_ok=True)
for f in ("patch.diff", "demo.py"):
    shutil.copy(os.path.join(src, f), dst)
m = json.load(open(os.path.join(src, "meta.json")))
m["round"] = rnd
m["confirmed_by_us"] = {
    "how": "tools/eval_seeded.py on a scratch copy of /repo HEAD (outside /repo and /verif, removed afterwards): demo.py on the clean copy, patch applied, demo.py again, the full test suite on the patched copy, then ./check <property> with VERIF_REPO pointing at the patched copy",
    "demo_exit_clean": ev["demo_clean_exit"], "demo_exit_patched": ev["demo_patched_exit"],
    "test_suite_on_patched_copy": "306 passed, only the 2 always-failing replay tests fail"}
m["our_checks"] = {k: {"exit": v["exit"], "violated": v["violations"]} for k, v in ev["checks"].items()}
if missed:
    m["first_run_missed"] = True
    m["strengthened"] = missed
json.dump(m, open(os.path.join(dst, "meta.json"), "w"), indent=1)
print(name, {k: v["exit"] for k, v in ev["checks"].items()})
