#!/usr/bin/env bash
# Builds the overlay interpreter /verif/.venv (offline): python 3.12 of /venv + z3/cvc5/crosshair/deal/icontract
# from the local wheelhouse + a .pth that exposes /venv's site-packages (pandas, numpy, reamber editable -> /repo).
#
# Safe under concurrent ./check runs: the health test is independent of the caller's environment (PYTHONPATH /
# VERIF_REPO may point at a scratch copy of the repository that does not even import - that must never make this
# script delete a healthy interpreter), the build is serialised by a lock, happens in a private directory and is
# moved into place in one step.
set -euo pipefail
cd "$(dirname "$0")"
V=.venv
healthy() {
  [ -x "$1/bin/python" ] && env -u PYTHONPATH -u PYTHONHOME "$1/bin/python" -c "import z3, pandas, numpy, jsonschema" >/dev/null 2>&1
}
if healthy "$V"; then
  exit 0
fi
exec 9>".venv.lock"
flock 9
if healthy "$V"; then   # somebody else built it while we waited for the lock
  exit 0
fi
T=".venv.build.$$"
rm -rf "$T"
trap 'rm -rf "$T"' EXIT
/venv/bin/python -m venv "$T"
echo "import site; site.addsitedir('/venv/lib/python3.12/site-packages')" > "$T/lib/python3.12/site-packages/zz_repo.pth"
PIP_NO_INDEX=1 "$T/bin/pip" install -q --no-index --find-links /opt/veriftools/wheels z3-solver cvc5 jsonschema >/dev/null
# optional extras (bounded stand-ins only); failure to install them is not fatal
PIP_NO_INDEX=1 "$T/bin/pip" install -q --no-index --find-links /opt/veriftools/wheels crosshair-tool deal icontract hypothesis >/dev/null 2>&1 || true
# a venv is not relocatable through its scripts' shebangs, but `python -m ...` (all that ./check uses) is: fix the one
# path that matters and move the directory into place atomically
sed -i "s#$(pwd)/$T#$(pwd)/$V#g" "$T/pyvenv.cfg" "$T"/bin/activate* 2>/dev/null || true
rm -rf "$V.old"
[ -e "$V" ] && mv "$V" "$V.old"
mv "$T" "$V"
rm -rf "$V.old"
trap - EXIT
env -u PYTHONPATH "$V/bin/python" -c "import z3, pandas, reamber, jsonschema; print('overlay ok: z3', z3.get_version_string(), 'pandas', pandas.__version__)"
