#!/usr/bin/env bash
# Builds the overlay interpreter /verif/.venv (offline): python 3.12 of /venv + z3/cvc5/crosshair/deal/icontract
# from the local wheelhouse + a .pth that exposes /venv's site-packages (pandas, numpy, reamber editable -> /repo).
set -euo pipefail
cd "$(dirname "$0")"
V=.venv
if [ -x "$V/bin/python" ] && "$V/bin/python" -c "import z3, pandas, reamber, jsonschema" >/dev/null 2>&1; then
  exit 0
fi
rm -rf "$V"
/venv/bin/python -m venv "$V"
echo "import site; site.addsitedir('/venv/lib/python3.12/site-packages')" > "$V/lib/python3.12/site-packages/zz_repo.pth"
PIP_NO_INDEX=1 "$V/bin/pip" install -q --no-index --find-links /opt/veriftools/wheels z3-solver cvc5 jsonschema >/dev/null
# optional extras (bounded stand-ins only); failure to install them is not fatal
PIP_NO_INDEX=1 "$V/bin/pip" install -q --no-index --find-links /opt/veriftools/wheels crosshair-tool deal icontract hypothesis >/dev/null 2>&1 || true
"$V/bin/python" -c "import z3, pandas, reamber, jsonschema; print('overlay ok: z3', z3.get_version_string(), 'pandas', pandas.__version__)"
