"""C08 - converters preserve chart content from any source state.

Deductive part: ConvertBase.cast and the converters' list mappings executed from their REAL source over the
static-shape frame model: 0..3 rows, every cell symbolic and - the point of the property - every row LABEL
symbolic and pairwise distinct (the state a list is in after filters, sorts, stack writes or a rate change).
Histories, all 16 converters on whole charts and metadata are covered by contracts/C08_bounded.py.
"""
from pyvc.dsl import contract, lemma, bounded, Int, Real, Bool, Obj, Const, Choice, ListT, TimedListT, resolve
from pyvc.ghost import rows, labels, columns, declared, no_nan, unchanged

CAST = "reamber.algorithms.convert.ConvertBase:ConvertBase.cast"
SHAPE_NOTE = ["shape-bounded: frame model with 0..3 rows, every cell and every (pairwise distinct) row label symbolic; A2 pandas semantics as in pyvc/frames.py"]


def _src(paths, sizes=(0, 1, 2, 3)):
    return Choice([TimedListT(p, n, "symbolic") for p in paths for n in sizes])


def _cls(path):
    return resolve(path)


CASES = [
    # (source list class, target list class, mapping)
    ("reamber.osu.lists.notes.OsuHoldList:OsuHoldList", "reamber.quaver.lists.notes.QuaHoldList:QuaHoldList", dict(offset="offset", column="column", length="length")),
    ("reamber.osu.lists.OsuBpmList:OsuBpmList", "reamber.sm.lists.SMBpmList:SMBpmList", dict(offset="offset", bpm="bpm")),
    ("reamber.sm.lists.notes.SMHitList:SMHitList", "reamber.bms.lists.notes.BMSHitList:BMSHitList", dict(offset="offset", column="column")),
    ("reamber.osu.lists.OsuSvList:OsuSvList", "reamber.quaver.lists.QuaSvList:QuaSvList", dict(offset="offset", multiplier="multiplier")),
]


def _case_args():
    out = []
    for s, t, m in CASES:
        for n in (0, 1, 2, 3):
            out.append((TimedListT(s, n, "symbolic"), Const(_cls(t)), Const(m)))
    return out


def _mk_cast_contract(k, s, t, m):
    name = f"cast_{s.split(':')[1]}_to_{t.split(':')[1]}"

    class _C:
        __doc__ = f"cast({s.split(':')[1]} -> {t.split(':')[1]}): positional copy of the mapped fields, defaults elsewhere, source untouched."
        assumes = SHAPE_NOTE

        def ensures_target_class_and_fields(src, target, mapping, result, old):
            return type(result) is target and sorted(columns(result)) == sorted(declared(target)) and len(rows(result)) == len(rows(src))

        def ensures_mapped_fields_copied_by_position(src, target, mapping, result, old):
            return all(all(rows(result)[r][to] == rows(old.src)[r][frm] for to, frm in mapping.items()) for r in range(len(rows(old.src))))

        def ensures_other_fields_default_and_nothing_missing(src, target, mapping, result, old):
            props = target._item_class()._props
            return no_nan(result) and all(all(r[c] == props[c][1] for c in props if c not in mapping) for r in rows(result))

        def ensures_source_untouched(src, target, mapping, result, old):
            return unchanged(src, old.src)

        def ensures_fresh_labels(src, target, mapping, result, old):
            return labels(result) == list(range(len(rows(src))))

        def witnesses(rng):
            from contracts.C16_lists import _rand_list

            for _ in range(60):
                yield dict(src=_rand_list(rng, s), target=_cls(t), mapping=m)

    _C.__name__ = name
    _C.__qualname__ = name
    return contract("C08", CAST, args=dict(src=_src([s]), target=Const(_cls(t)), mapping=Const(m)))(_C)


for _k, (_s, _t, _m) in enumerate(CASES):
    _mk_cast_contract(_k, _s, _t, _m)


# ----------------------------------------------------------------------------- whole converters (single-chart sources)

from pyvc.dsl import MapT  # noqa: E402
from pyvc.ghost import eqr, implies  # noqa: E402

OSU = "reamber.osu.OsuMap:OsuMap"
QUA = "reamber.quaver.QuaMap:QuaMap"
BMS = "reamber.bms.BMSMap:BMSMap"

_META = dict(title="T i:tle", artist="Ar;tist", creator="Cre ator", version="Ver sion")


def _src_shapes(cls, with_svs):
    col = dict(column=Int(0, 6))
    ov = dict(hits=col, holds=col)
    a = dict(hits=2, holds=1, bpms=1)
    b = dict(hits=1, holds=2, bpms=2)
    if with_svs:
        a["svs"], b["svs"] = 2, 0
    fields = {}
    if cls == OSU:
        fields = dict(title="T i:tle", artist="Ar;tist", creator="Cre ator", version="Ver sion")
    elif cls == QUA:
        fields = dict(title="T i:tle", artist="Ar;tist", creator="Cre ator", difficulty_name="Ver sion")
    elif cls == BMS:
        fields = dict(title=b"T i:tle", artist=b"Ar;tist", version=b"Ver sion")
    return Choice([MapT(cls, a, fields=fields, overrides=ov), MapT(cls, b, fields=fields, overrides=ov)])


def _target_charts(res):
    """The chart objects of a converter result (a chart, a mapset or a list of either)."""
    out = []
    for x in (res if isinstance(res, list) else [res]):
        if hasattr(x, "maps"):
            out.extend(x.maps)
        else:
            out.append(x)
    return out


def _same_notes(tgt, src, shift):
    return (
        len(rows(tgt.hits)) == len(rows(src.hits)) and len(rows(tgt.holds)) == len(rows(src.holds)) and len(rows(tgt.bpms)) == len(rows(src.bpms))
        and all(a["offset"] == b["offset"] and a["column"] == b["column"] + shift for a, b in zip(rows(tgt.hits), rows(src.hits)))
        and all(a["offset"] == b["offset"] and a["column"] == b["column"] + shift and a["length"] == b["length"] for a, b in zip(rows(tgt.holds), rows(src.holds)))
        and all(a["offset"] == b["offset"] and a["bpm"] == b["bpm"] for a, b in zip(rows(tgt.bpms), rows(src.bpms)))
    )


def _only_declared_no_nan(chart):
    return all(sorted(columns(L)) == sorted(declared(type(L))) and no_nan(L) for L in chart.objs.values())


def _src_untouched(src, old_src):
    return all(unchanged(a, b) for a, b in zip(src.objs.values(), old_src.objs.values()))


def _mk_converter_lemma(conv_path, src_cls, tgt_cls_path, call, with_svs=False, shift=False, meta=None):
    conv_name = conv_path.split(":")[1]

    class _L:
        __doc__ = f"{conv_name}.convert on the REAL source: one target chart whose hits, holds and tempo points are the source's (positionally, whatever the row labels), only declared fields, nothing missing, source untouched."
        assumes = SHAPE_NOTE + ["metadata strings are fixed concrete texts in the symbolic run (unidecode / codecs are library calls); random texts in the native run"]

        def body(src, move):
            conv = resolve(conv_path)
            return call(conv, src, move)

        def ensures_one_target_chart_of_the_target_game(src, move, result, old):
            t = _target_charts(result)
            return len(t) == 1 and type(t[0]) is resolve(tgt_cls_path)

        def ensures_same_hits_holds_tempo_points(src, move, result, old):
            return _same_notes(_target_charts(result)[0], old.src, move if shift else 0)

        def ensures_only_target_fields_nothing_missing(src, move, result, old):
            return _only_declared_no_nan(_target_charts(result)[0])

        def ensures_source_untouched(src, move, result, old):
            return _src_untouched(src, old.src)

        def witnesses(rng):
            from contracts.C12_stack import _rand_map

            for _ in range(40):
                m = _rand_map(rng, src_cls)
                if len(m.hits) + len(m.holds) == 0:
                    continue
                for k in ("title", "artist", "creator", "version", "difficulty_name"):
                    if hasattr(m, k):
                        v = rng.choice(["a", "T i:tle", "Ar;tist #1", "x y z"])
                        setattr(m, k, v.encode() if isinstance(getattr(m, k), bytes) else v)
                yield dict(src=m, move=rng.randrange(0, 3) if shift else 0)

    if with_svs:
        def ensures_svs_carried(src, move, result, old):
            t = _target_charts(result)[0]
            return len(rows(t.svs)) == len(rows(old.src.svs)) and all(a["offset"] == b["offset"] and a["multiplier"] == b["multiplier"] for a, b in zip(rows(t.svs), rows(old.src.svs)))

        _L.ensures_svs_carried = ensures_svs_carried
    if meta:
        def ensures_metadata_from_source(src, move, result, old):
            return meta(result, old.src)

        _L.ensures_metadata_from_source = ensures_metadata_from_source
    _L.__name__ = _L.__qualname__ = f"convert_{conv_name}"
    return lemma("C08", args=dict(src=_src_shapes(src_cls, with_svs or src_cls in (OSU, QUA)), move=Int(0, 3) if shift else Const(0)))(_L)


_CONV = "reamber.algorithms.convert."
SMMAP = "reamber.sm.SMMap:SMMap"

_mk_converter_lemma(_CONV + "OsuToQua:OsuToQua", OSU, QUA, lambda c, s, mv: c.convert(s, False), with_svs=True,
                    meta=lambda r, s: r.title == s.title and r.artist == s.artist and r.creator == s.creator and r.difficulty_name == s.version)
_mk_converter_lemma(_CONV + "QuaToOsu:QuaToOsu", QUA, OSU, lambda c, s, mv: c.convert(s), with_svs=True,
                    meta=lambda r, s: r.title == s.title and r.artist == s.artist and r.creator == s.creator and r.version == s.difficulty_name)
_mk_converter_lemma(_CONV + "OsuToBMS:OsuToBMS", OSU, BMS, lambda c, s, mv: c.convert(s, mv), shift=True,
                    meta=lambda r, s: r.title == s.title.encode("shift_jis") and r.artist == s.artist.encode("shift_jis") and r.version == s.version.encode("shift_jis"))
_mk_converter_lemma(_CONV + "QuaToBMS:QuaToBMS", QUA, BMS, lambda c, s, mv: c.convert(s, mv), shift=True,
                    meta=lambda r, s: r.title == s.title.encode("shift_jis") and r.artist == s.artist.encode("shift_jis") and r.version == s.difficulty_name.encode("shift_jis"))
_mk_converter_lemma(_CONV + "OsuToSM:OsuToSM", OSU, SMMAP, lambda c, s, mv: c.convert(s, False),
                    meta=lambda r, s: r.title == s.title and r.artist == s.artist and r.credit == s.creator)
_mk_converter_lemma(_CONV + "QuaToSM:QuaToSM", QUA, SMMAP, lambda c, s, mv: c.convert(s),
                    meta=lambda r, s: r.title == s.title and r.artist == s.artist and r.credit == s.creator)
_mk_converter_lemma(_CONV + "BMSToQua:BMSToQua", BMS, QUA, lambda c, s, mv: c.convert(s, False))
_mk_converter_lemma(_CONV + "BMSToSM:BMSToSM", BMS, SMMAP, lambda c, s, mv: c.convert(s))
