"""C08 - converters preserve chart content from any source state.

Deductive part: ConvertBase.cast and the converters' list mappings executed from their REAL source over the
static-shape frame model: 0..3 rows, every cell symbolic and - the point of the property - every row LABEL
symbolic and pairwise distinct (the state a list is in after filters, sorts, stack writes or a rate change).
Histories, all 16 converters on whole charts and metadata are covered by contracts/C08_bounded.py.
"""
from pyvc.dsl import contract, lemma, bounded, Int, Real, Bool, Obj, Const, Choice, ListT, TimedListT, resolve
from pyvc.ghost import rows, labels, columns, declared, no_nan, unchanged

CAST = "reamber.algorithms.convert.ConvertBase:ConvertBase.cast"
SHAPE_NOTE = ["shape-bounded: frame model with 0..3 rows, every cell and every (pairwise distinct) row label symbolic; A2 pandas semantics as in pyvc/frames.py"]


def _src(paths, sizes=(0, 1, 2, 3)):
    return Choice([TimedListT(p, n, "symbolic") for p in paths for n in sizes])


def _cls(path):
    return resolve(path)


CASES = [
    # (source list class, target list class, mapping)
    ("reamber.osu.lists.notes.OsuHoldList:OsuHoldList", "reamber.quaver.lists.notes.QuaHoldList:QuaHoldList", dict(offset="offset", column="column", length="length")),
    ("reamber.osu.lists.OsuBpmList:OsuBpmList", "reamber.sm.lists.SMBpmList:SMBpmList", dict(offset="offset", bpm="bpm")),
    ("reamber.sm.lists.notes.SMHitList:SMHitList", "reamber.bms.lists.notes.BMSHitList:BMSHitList", dict(offset="offset", column="column")),
    ("reamber.osu.lists.OsuSvList:OsuSvList", "reamber.quaver.lists.QuaSvList:QuaSvList", dict(offset="offset", multiplier="multiplier")),
]


def _case_args():
    out = []
    for s, t, m in CASES:
        for n in (0, 1, 2, 3):
            out.append((TimedListT(s, n, "symbolic"), Const(_cls(t)), Const(m)))
    return out


def _mk_cast_contract(k, s, t, m):
    name = f"cast_{s.split(':')[1]}_to_{t.split(':')[1]}"

    class _C:
        __doc__ = f"cast({s.split(':')[1]} -> {t.split(':')[1]}): positional copy of the mapped fields, defaults elsewhere, source untouched."
        assumes = SHAPE_NOTE

        def ensures_target_class_and_fields(src, target, mapping, result, old):
            return type(result) is target and sorted(columns(result)) == sorted(declared(target)) and len(rows(result)) == len(rows(src))

        def ensures_mapped_fields_copied_by_position(src, target, mapping, result, old):
            return all(all(rows(result)[r][to] == rows(old.src)[r][frm] for to, frm in mapping.items()) for r in range(len(rows(old.src))))

        def ensures_other_fields_default_and_nothing_missing(src, target, mapping, result, old):
            props = target._item_class()._props
            return no_nan(result) and all(all(r[c] == props[c][1] for c in props if c not in mapping) for r in rows(result))

        def ensures_source_untouched(src, target, mapping, result, old):
            return unchanged(src, old.src)

        def ensures_fresh_labels(src, target, mapping, result, old):
            return labels(result) == list(range(len(rows(src))))

        def witnesses(rng):
            from contracts.C16_lists import _rand_list

            for _ in range(60):
                yield dict(src=_rand_list(rng, s), target=_cls(t), mapping=m)

    _C.__name__ = name
    _C.__qualname__ = name
    return contract("C08", CAST, args=dict(src=_src([s]), target=Const(_cls(t)), mapping=Const(m)))(_C)


for _k, (_s, _t, _m) in enumerate(CASES):
    _mk_cast_contract(_k, _s, _t, _m)
