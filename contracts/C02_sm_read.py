"""C02 - StepMania reading (deductive kernels; whole files: contracts/C02_bounded.py).

 * the cell step of SMMap._read_notes (body of the innermost loop over the columns of one row) as a loop-body
   unit from an arbitrary state: the symbol in the cell is dispatched exactly as the format says (1 tap, 2 hold
   head, 4 roll head, 3 tail of the open head of THAT column, M mine, L lift, F fake, K keysound, 0 nothing), the
   object is recorded at position (measure, beat + snap) in the cell's column and nowhere else;
 * the position -> ms step is TimingMap.offsets (C10: offsets_in_query_order / offsets_sweep_step), the tempo
   list is the reseated map (C11 step units).
"""
from fractions import Fraction

from pyvc.dsl import contract, lemma, bounded, loop_unit, Ty, Int, Real, Bool, Obj, Const, Choice, ListT
from pyvc.ghost import eqr, implies
from contracts.C10_timing import SnapT, _mk_snap

READ_NOTES = "reamber.sm.SMMap:SMMap._read_notes"
KEYS = 3  # columns held in the state (the step touches only column `col`)


class ColsT(Ty):
    """per-column lists (one list per column) holding `n_each` earlier snaps each; for holds/rolls the last entry
    of column `open_col` may be an OPEN head (a bare Snap) instead of a closed (head, tail) pair."""

    def __init__(self, n_each=0, pairs=False, open_col=None):
        self.n_each, self.pairs, self.open_col = n_each, pairs, open_col

    def make(self, name, ctx):
        out = []
        for c in range(KEYS):
            col = []
            for k in range(self.n_each):
                h = SnapT().make(f"{name}[{c}][{k}].h", ctx)
                col.append((h, SnapT().make(f"{name}[{c}][{k}].t", ctx)) if self.pairs else h)
            if self.open_col == c:
                col.append(SnapT().make(f"{name}[{c}].open", ctx))
            out.append(col)
        return out

    def concretize(self, name, model):
        out = []
        for c in range(KEYS):
            col = []
            for k in range(self.n_each):
                h = SnapT().concretize(f"{name}[{c}][{k}].h", model)
                col.append((h, SnapT().concretize(f"{name}[{c}][{k}].t", model)) if self.pairs else h)
            if self.open_col == c:
                col.append(SnapT().concretize(f"{name}[{c}].open", model))
            out.append(col)
        return out


class SetT(Ty):
    def make(self, name, ctx):
        return set()

    def concretize(self, name, model):
        return set()


SYMBOLS = ["0", "1", "2", "3", "4", "M", "L", "F", "K"]
TABLE = {"1": "hits", "M": "mines", "L": "lifts", "F": "fakes", "K": "key_sounds"}
ALL = ("hits", "lifts", "mines", "fakes", "key_sounds", "holds", "rolls")


def _lens(state):
    return {n: [len(c) for c in getattr(state, n) if True] for n in ALL}


def _is_at(s, measure, beat, snap):
    return s.measure * 4 + s.beat == measure * 4 + beat + snap and s.metronome == 4


@loop_unit("C02", READ_NOTES, anchor="for col, col_char in enumerate(snap_str)",
           args=dict(col=Choice([0, 1, 2]), col_char=Choice(SYMBOLS), measure=Int(0), beat=Choice([0, 1, 2, 3]), snap=Real("fraction", lo=0),
                     hits=ColsT(1), lifts=ColsT(0), mines=ColsT(0), fakes=ColsT(0), key_sounds=ColsT(1),
                     holds=Choice([ColsT(1, True), ColsT(0, True, 0), ColsT(1, True, 1), ColsT(0, True, 2)]),
                     rolls=Choice([ColsT(0, True), ColsT(0, True, 1)]), snap_set=SetT(), METRONOME=Const(4)))
class cell_step:
    assumes = ["the state holds 3 columns (the step only touches column `col`); at most one open head per column list"]
    max_paths = 4000

    def requires(col, col_char, measure, beat, snap, hits, lifts, mines, fakes, key_sounds, holds, rolls, snap_set, METRONOME):
        return snap < 1

    def ensures_plain_symbols_append_one_object_at_the_cell(col, col_char, measure, beat, snap, hits, lifts, mines, fakes, key_sounds, holds, rolls, snap_set, METRONOME, result, old):
        ok = True
        for sym, name in TABLE.items():
            now, was = getattr(result, name), getattr(old, name)
            for c in range(3):
                grew = (col_char == sym and c == col)
                ok = ok and len(now[c]) == len(was[c]) + (1 if grew else 0)
                if grew:
                    ok = ok and _is_at(now[c][-1], measure, beat, snap)
        return ok

    def ensures_heads_open_in_their_column(col, col_char, measure, beat, snap, hits, lifts, mines, fakes, key_sounds, holds, rolls, snap_set, METRONOME, result, old):
        ok = True
        for sym, name in (("2", "holds"), ("4", "rolls")):
            now, was = getattr(result, name), getattr(old, name)
            for c in range(3):
                if col_char == sym and c == col:
                    ok = ok and len(now[c]) == len(was[c]) + 1 and not isinstance(now[c][-1], tuple) and _is_at(now[c][-1], measure, beat, snap)
                elif col_char != "3" or c != col:
                    ok = ok and len(now[c]) == len(was[c])
        return ok

    def ensures_tail_closes_the_open_head_of_its_column(col, col_char, measure, beat, snap, hits, lifts, mines, fakes, key_sounds, holds, rolls, snap_set, METRONOME, result, old):
        if col_char != "3":
            return True
        h_open = len(old.holds[col]) > 0 and not isinstance(old.holds[col][-1], tuple)
        r_open = len(old.rolls[col]) > 0 and not isinstance(old.rolls[col][-1], tuple)
        if h_open:
            p = result.holds[col][-1]
            return (isinstance(p, tuple) and len(result.holds[col]) == len(old.holds[col]) and p[0].measure == old.holds[col][-1].measure and p[0].beat == old.holds[col][-1].beat
                    and _is_at(p[1], measure, beat, snap) and len(result.rolls[col]) == len(old.rolls[col]))
        if r_open:
            p = result.rolls[col][-1]
            return isinstance(p, tuple) and p[0].beat == old.rolls[col][-1].beat and _is_at(p[1], measure, beat, snap)
        return False  # no open head: only the exceptional exit is allowed (see raises)

    raises = {IndexError: lambda col, col_char, holds, rolls: col_char == "3" and not (len(holds[col]) > 0 and not isinstance(holds[col][-1], tuple)) and not (len(rolls[col]) > 0 and not isinstance(rolls[col][-1], tuple))}

    def ensures_empty_cell_changes_nothing(col, col_char, measure, beat, snap, hits, lifts, mines, fakes, key_sounds, holds, rolls, snap_set, METRONOME, result, old):
        return implies(col_char == "0", result.outcome == "continue" and all(len(getattr(result, n)[c]) == len(getattr(old, n)[c]) for n in ALL for c in range(3)))

    def witnesses(rng):
        def cols(n_each, pairs=False, open_col=None):
            out = []
            for c in range(KEYS):
                col = []
                for _ in range(n_each):
                    h = _mk_snap(rng.randrange(3), Fraction(rng.randrange(8), 2), Fraction(4))
                    col.append((h, _mk_snap(5, Fraction(1), Fraction(4))) if pairs else h)
                if open_col == c:
                    col.append(_mk_snap(rng.randrange(3), Fraction(rng.randrange(8), 2), Fraction(4)))
                out.append(col)
            return out

        for _ in range(200):
            yield dict(col=rng.randrange(3), col_char=rng.choice(SYMBOLS), measure=rng.randrange(6), beat=rng.randrange(4), snap=Fraction(rng.randrange(0, 12), 12),
                       hits=cols(1), lifts=cols(0), mines=cols(0), fakes=cols(0), key_sounds=cols(1), holds=cols(rng.randrange(2), True, rng.choice([None, 0, 1, 2])),
                       rolls=cols(0, True, rng.choice([None, 1])), snap_set=set(), METRONOME=4)
