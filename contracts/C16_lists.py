"""C16 - timed lists behave like ordered collections of their rows.

Oracle: rows(L) = the plain Python list of row dicts.  Every public list operation is specified as the
same operation on rows(L).  Deductive part: the REAL method bodies are executed over the static-shape
frame model (all cell values and all distinct row labels symbolic, 0..3 rows): obligations are discharged
by z3 for all values at those shapes -> reported as shape-bounded.  Native part: every list class of every
game, operation sequences, against the same oracle.
"""
from pyvc.dsl import contract, lemma, bounded, Int, Real, Bool, Obj, Const, Choice, ListT, TimedListT, DictT
from pyvc.ghost import eqr, implies, rows, labels, columns, same_multiset, nondecreasing, nonincreasing, unchanged

TL = "reamber.base.lists.TimedList:TimedList"
HL = "reamber.base.lists.notes.HoldList:HoldList"

SIZES = [0, 1, 2, 3]


def lists_of(classes, sizes=SIZES, labels=("symbolic",)):
    return Choice([TimedListT(c, n, l) for c in classes for n in sizes for l in labels])


BASIC = ["reamber.base.lists.TimedList:TimedList", "reamber.osu.lists.notes.OsuHitList:OsuHitList", "reamber.sm.lists.SMBpmList:SMBpmList"]
HOLDS = ["reamber.base.lists.notes.HoldList:HoldList", "reamber.quaver.lists.notes.QuaHoldList:QuaHoldList"]

SHAPE_NOTE = ["shape-bounded: frame model with 0..3 rows, every cell and every (pairwise distinct) row label symbolic; A2 pandas semantics as in pyvc/frames.py"]


def _rand_list(rng, cls_path, n=None, gappy=True):
    """A native list of the class with random content; labels left gappy by a filter when asked."""
    from pyvc.dsl import resolve
    import pandas as pd

    cls = resolve(cls_path) if isinstance(cls_path, str) else cls_path
    n = rng.randrange(0, 6) if n is None else n
    base = cls([])
    props = cls._item_class()._props
    recs = []
    for _ in range(n):
        r = {}
        for c in base.df.columns:
            dt, default = props[c]
            if c == "offset":
                r[c] = float(rng.choice([-100, 0, 0, 50, 100, 100, 250.5, 1000]))
            elif c == "length":
                r[c] = float(rng.choice([0, 50, 100, 500]))
            elif c == "column":
                r[c] = rng.randrange(0, 4)
            elif c == "bpm":
                r[c] = float(rng.choice([60, 120, 180]))
            elif c == "multiplier":
                r[c] = float(rng.choice([1, 0.5, 2.25, 4, 0.0, -1.5, 25.0, 0.001]))
            elif dt == "float":
                r[c] = float(rng.choice([1, 2, 4]))
            elif dt == "int":
                r[c] = rng.randrange(0, 3)
            elif dt == "bool":
                r[c] = rng.random() < 0.5
            else:
                r[c] = default
        recs.append(r)
    if not recs:
        return cls([])
    idx = list(range(n))
    if gappy:
        idx = sorted(rng.sample(range(0, 3 * n + 2), n))
        rng.shuffle(idx)
    return cls(pd.DataFrame(recs, index=idx, columns=list(base.df.columns)))


def _receiver_unchanged(self, old):
    """A query / filter / sort on a plain sequence leaves the sequence as it was: the receiver keeps its rows, row
    order, fields and labels (so any later operation on it sees the same collection)."""
    return unchanged(self, old.self)


def _both_unchanged(self, val, old):
    return unchanged(self, old.self) and unchanged(val, old.val)


def _all_list_classes():
    import reamber.osu.lists, reamber.quaver.lists, reamber.sm.lists, reamber.bms.lists, reamber.o2jam.lists  # noqa
    import reamber.osu.lists.notes, reamber.quaver.lists.notes, reamber.sm.lists.notes, reamber.bms.lists.notes, reamber.o2jam.lists.notes  # noqa
    from reamber.base.lists.TimedList import TimedList

    out, todo = [], [TimedList]
    while todo:
        c = todo.pop()
        if c not in out:
            out.append(c)
            todo.extend(c.__subclasses__())
    ok = []
    for c in out:
        try:
            c([])
            ok.append(c)
        except Exception:
            pass
    return sorted(ok, key=lambda c: c.__module__ + c.__qualname__)


# ----------------------------------------------------------------------------- filters


@contract("C16", TL + ".after", args=dict(self=lists_of(BASIC + HOLDS[:1]), offset=Real(), include_end=Choice([True, False])))
class after:
    assumes = SHAPE_NOTE

    def ensures_is_filter_of_rows(self, offset, include_end, result):
        return rows(result) == [r for r in rows(self) if (r["offset"] >= offset if include_end else r["offset"] > offset)]

    def ensures_same_class_and_fields(self, offset, include_end, result):
        return type(result) is type(self) and columns(result) == columns(self)

    ensures_receiver_unchanged = _receiver_unchanged

    def witnesses(rng):
        for _ in range(150):
            yield dict(self=_rand_list(rng, rng.choice(BASIC)), offset=float(rng.choice([-100, 0, 50, 100, 250.5, 99999])), include_end=rng.random() < 0.5)


@contract("C16", TL + ".before", args=dict(self=lists_of(BASIC + HOLDS[:1]), offset=Real(), include_end=Choice([True, False])))
class before:
    assumes = SHAPE_NOTE

    def ensures_is_filter_of_rows(self, offset, include_end, result):
        return rows(result) == [r for r in rows(self) if (r["offset"] <= offset if include_end else r["offset"] < offset)]

    def ensures_same_class_and_fields(self, offset, include_end, result):
        return type(result) is type(self) and columns(result) == columns(self)

    ensures_receiver_unchanged = _receiver_unchanged

    def witnesses(rng):
        for _ in range(150):
            yield dict(self=_rand_list(rng, rng.choice(BASIC)), offset=float(rng.choice([-100, 0, 50, 100, 250.5, 99999])), include_end=rng.random() < 0.5)


@contract("C16", TL + ".between", args=dict(self=lists_of(BASIC, sizes=[0, 1, 2]), lower_bound=Real(), upper_bound=Real(),
                                              include_ends=Choice([(True, False), (False, True), (True, True), (False, False), True, False])))
class between:
    assumes = SHAPE_NOTE

    def ensures_is_filter_of_rows(self, lower_bound, upper_bound, include_ends, result):
        lo_inc = include_ends if isinstance(include_ends, bool) else include_ends[0]
        hi_inc = include_ends if isinstance(include_ends, bool) else include_ends[1]
        return rows(result) == [
            r for r in rows(self)
            if (r["offset"] >= lower_bound if lo_inc else r["offset"] > lower_bound) and (r["offset"] <= upper_bound if hi_inc else r["offset"] < upper_bound)
        ]

    def ensures_same_class(self, lower_bound, upper_bound, include_ends, result):
        return type(result) is type(self)

    ensures_receiver_unchanged = _receiver_unchanged

    def witnesses(rng):
        for _ in range(150):
            lo = float(rng.choice([-100, 0, 50, 100]))
            yield dict(self=_rand_list(rng, rng.choice(BASIC)), lower_bound=lo, upper_bound=lo + rng.choice([0, 50, 150.5, 2000]),
                       include_ends=rng.choice([(True, False), (False, True), (True, True), (False, False), True, False]))


def _hold_key(r, with_length):
    return r["offset"] + (r["length"] if with_length else 0)


@contract("C16", HL + ".after", args=dict(self=lists_of(HOLDS), offset=Real(), include_end=Choice([True, False]), include_tail=Choice([True, False])))
class hold_after:
    assumes = SHAPE_NOTE

    def ensures_is_filter_of_rows(self, offset, include_end, include_tail, result):
        return rows(result) == [r for r in rows(self) if (_hold_key(r, include_tail) >= offset if include_end else _hold_key(r, include_tail) > offset)]

    def ensures_same_class(self, offset, include_end, include_tail, result):
        return type(result) is type(self) and columns(result) == columns(self)

    ensures_receiver_unchanged = _receiver_unchanged

    def witnesses(rng):
        for _ in range(150):
            yield dict(self=_rand_list(rng, rng.choice(HOLDS)), offset=float(rng.choice([-100, 0, 50, 100, 150, 600])), include_end=rng.random() < 0.5, include_tail=rng.random() < 0.5)


@contract("C16", HL + ".before", args=dict(self=lists_of(HOLDS), offset=Real(), include_end=Choice([True, False]), include_head=Choice([True, False])))
class hold_before:
    assumes = SHAPE_NOTE

    def ensures_is_filter_of_rows(self, offset, include_end, include_head, result):
        return rows(result) == [r for r in rows(self) if (_hold_key(r, not include_head) <= offset if include_end else _hold_key(r, not include_head) < offset)]

    def ensures_same_class(self, offset, include_end, include_head, result):
        return type(result) is type(self) and columns(result) == columns(self)

    ensures_receiver_unchanged = _receiver_unchanged

    def witnesses(rng):
        for _ in range(150):
            yield dict(self=_rand_list(rng, rng.choice(HOLDS)), offset=float(rng.choice([-100, 0, 50, 100, 150, 600])), include_end=rng.random() < 0.5, include_head=rng.random() < 0.5)


@contract("C16", HL + ".between", args=dict(self=lists_of(HOLDS, sizes=[0, 1, 2]), lower_bound=Real(), upper_bound=Real(),
                                              include_ends=Choice([(True, False), (False, True), (True, True), (False, False)]),
                                              include_head=Choice([True, False]), include_tail=Choice([True, False])))
class hold_between:
    assumes = SHAPE_NOTE

    def ensures_is_filter_of_rows(self, lower_bound, upper_bound, include_ends, include_head, include_tail, result):
        return rows(result) == [
            r for r in rows(self)
            if (_hold_key(r, include_tail) >= lower_bound if include_ends[0] else _hold_key(r, include_tail) > lower_bound)
            and (_hold_key(r, not include_head) <= upper_bound if include_ends[1] else _hold_key(r, not include_head) < upper_bound)
        ]

    ensures_receiver_unchanged = _receiver_unchanged

    def witnesses(rng):
        for _ in range(150):
            lo = float(rng.choice([-100, 0, 50, 100]))
            yield dict(self=_rand_list(rng, rng.choice(HOLDS)), lower_bound=lo, upper_bound=lo + rng.choice([0, 50, 150.5, 2000]),
                       include_ends=rng.choice([(True, False), (False, True), (True, True), (False, False)]), include_head=rng.random() < 0.5, include_tail=rng.random() < 0.5)


# ----------------------------------------------------------------------------- indexing, iteration, length


@contract("C16", TL + ".__getitem__", args=dict(self=lists_of(BASIC + HOLDS[:1], sizes=[1, 2, 3]), item=Int()))
class getitem_int:
    """L[i] is positional whatever the row labels are; IndexError outside -n..n-1."""

    assumes = SHAPE_NOTE
    raises = {IndexError: lambda self, item: item < -len(rows(self)) or item >= len(rows(self))}

    def ensures_in_range(self, item, result):
        return -len(rows(self)) <= item and item < len(rows(self))

    def ensures_item_carries_the_row(self, item, result):
        return result.data.to_dict() == rows(self)[item % len(rows(self))]

    def ensures_item_class(self, item, result):
        return type(result) is type(self)._item_class()

    ensures_receiver_unchanged = _receiver_unchanged

    def witnesses(rng):
        for _ in range(200):
            L = _rand_list(rng, rng.choice(BASIC + HOLDS), n=rng.randrange(1, 5))
            yield dict(self=L, item=rng.randrange(-len(L) - 1, len(L) + 1))


@contract("C16", TL + ".__getitem__", args=dict(self=lists_of(BASIC[:2], sizes=[0, 1, 2, 3]), item=Choice([slice(0, 2), slice(1, None), slice(None, -1), slice(None, None, 2), slice(2, 1)])))
class getitem_slice:
    assumes = SHAPE_NOTE

    def ensures_is_slice_of_rows(self, item, result):
        return rows(result) == rows(self)[item] and type(result) is type(self)

    ensures_receiver_unchanged = _receiver_unchanged

    def witnesses(rng):
        for _ in range(150):
            yield dict(self=_rand_list(rng, rng.choice(BASIC)), item=rng.choice([slice(0, 2), slice(1, None), slice(None, -1), slice(None, None, 2), slice(2, 1), slice(-2, None)]))


@lemma("C16", args=dict(L=lists_of(BASIC + HOLDS[:1])))
class iteration_and_len:
    """list(iter(L)) yields one item per row, in row order, carrying the row; len(L) is the row count."""

    assumes = SHAPE_NOTE

    def body(L):
        return ([x.data.to_dict() for x in L], len(L), [type(x) for x in L])

    def ensures_rows_in_order(L, result):
        return result[0] == rows(L) and result[1] == len(rows(L))

    def ensures_item_class(L, result):
        return all(t is type(L)._item_class() for t in result[2])

    def witnesses(rng):
        for _ in range(150):
            yield dict(L=_rand_list(rng, rng.choice(BASIC + HOLDS)))


# ----------------------------------------------------------------------------- first / last offset


@contract("C16", TL + ".first_offset", args=dict(self=lists_of(BASIC)))
class first_offset:
    assumes = SHAPE_NOTE

    def ensures_is_min(self, result):
        return (result is None and len(rows(self)) == 0) or (len(rows(self)) > 0 and result == min([r["offset"] for r in rows(self)]))

    ensures_receiver_unchanged = _receiver_unchanged

    def witnesses(rng):
        for _ in range(100):
            yield dict(self=_rand_list(rng, rng.choice(BASIC)))


@contract("C16", TL + ".last_offset", args=dict(self=lists_of(BASIC)))
class last_offset:
    assumes = SHAPE_NOTE

    def ensures_is_max(self, result):
        return (result is None and len(rows(self)) == 0) or (len(rows(self)) > 0 and result == max([r["offset"] for r in rows(self)]))

    ensures_receiver_unchanged = _receiver_unchanged

    def witnesses(rng):
        for _ in range(100):
            yield dict(self=_rand_list(rng, rng.choice(BASIC)))


@contract("C16", TL + ".first_last_offset", args=dict(self=lists_of(BASIC)))
class first_last_offset:
    assumes = SHAPE_NOTE

    def ensures_is_min_max(self, result):
        return (result == (None, None) and len(rows(self)) == 0) or (
            len(rows(self)) > 0 and result[0] == min([r["offset"] for r in rows(self)]) and result[1] == max([r["offset"] for r in rows(self)]))

    ensures_receiver_unchanged = _receiver_unchanged

    def witnesses(rng):
        for _ in range(100):
            yield dict(self=_rand_list(rng, rng.choice(BASIC)))


@contract("C16", HL + ".last_offset", args=dict(self=lists_of(HOLDS, sizes=[1, 2, 3])))
class hold_last_offset:
    """Holds: the last offset includes the tail.  (On an empty hold list the code raises like max([]) does:
    recorded behaviour, the plain-sequence oracle raises too.)"""

    assumes = SHAPE_NOTE

    def ensures_is_max_tail(self, result):
        return result == max([r["offset"] + r["length"] for r in rows(self)])

    ensures_receiver_unchanged = _receiver_unchanged

    def witnesses(rng):
        for _ in range(100):
            yield dict(self=_rand_list(rng, rng.choice(HOLDS), n=rng.randrange(1, 5)))


@contract("C16", HL + ".first_last_offset", args=dict(self=lists_of(HOLDS, sizes=[1, 2, 3])))
class hold_first_last_offset:
    assumes = SHAPE_NOTE

    def ensures_is_min_head_max_tail(self, result):
        return result[0] == min([r["offset"] for r in rows(self)]) and result[1] == max([r["offset"] + r["length"] for r in rows(self)])

    ensures_receiver_unchanged = _receiver_unchanged

    def witnesses(rng):
        for _ in range(100):
            yield dict(self=_rand_list(rng, rng.choice(HOLDS), n=rng.randrange(1, 5)))


# ----------------------------------------------------------------------------- sorting, appending, moving


@contract("C16", TL + ".sorted", args=dict(self=lists_of(BASIC + HOLDS[:1]), reverse=Choice([False, True])))
class sorted_:
    """A permutation of the rows, monotone in offset (stability is NOT demanded: pandas' default sort is unstable)."""

    assumes = SHAPE_NOTE

    def ensures_is_permutation(self, reverse, result):
        return same_multiset(rows(result), rows(self))

    def ensures_monotone(self, reverse, result):
        offs = [r["offset"] for r in rows(result)]
        return nonincreasing(offs) if reverse else nondecreasing(offs)

    def ensures_same_class(self, reverse, result):
        return type(result) is type(self) and columns(result) == columns(self)

    ensures_receiver_unchanged = _receiver_unchanged

    def witnesses(rng):
        for _ in range(150):
            yield dict(self=_rand_list(rng, rng.choice(BASIC + HOLDS)), reverse=rng.random() < 0.5)


@contract("C16", TL + ".append", args=dict(self=lists_of(BASIC[:2], sizes=[0, 1, 2]), val=lists_of(BASIC[:1], sizes=[0, 1, 2]), sort=Const(False)))
class append_list:
    assumes = SHAPE_NOTE + ["append: the appended list is of the receiver's class in the native run; the symbolic run appends a base TimedList (only `offset`), missing fields become NaN as in pandas"]

    def requires(self, val, sort):
        return columns(val) == columns(self) or True

    def ensures_is_concatenation(self, val, sort, result):
        return [r["offset"] for r in rows(result)] == [r["offset"] for r in rows(self)] + [r["offset"] for r in rows(val)]

    def ensures_labels_renumbered(self, val, sort, result):
        return labels(result) == list(range(len(rows(self)) + len(rows(val)))) and type(result) is type(self)

    ensures_both_inputs_unchanged = _both_unchanged

    def witnesses(rng):
        for _ in range(150):
            c = rng.choice(BASIC + HOLDS)
            yield dict(self=_rand_list(rng, c), val=_rand_list(rng, c), sort=False)


@contract("C16", TL + ".move_start_to", args=dict(self=lists_of(BASIC, sizes=[1, 2, 3]), to=Real()))
class move_start_to:
    assumes = SHAPE_NOTE

    def ensures_shifted_copy(self, to, result):
        d = to - min([r["offset"] for r in rows(self)])
        return [r["offset"] for r in rows(result)] == [r["offset"] + d for r in rows(self)] and len(rows(result)) == len(rows(self)) and type(result) is type(self)

    def ensures_other_fields_kept(self, to, result):
        return all([{k: v for k, v in a.items() if k != "offset"} == {k: v for k, v in b.items() if k != "offset"} for a, b in zip(rows(result), rows(self))])

    ensures_receiver_unchanged = _receiver_unchanged

    def witnesses(rng):
        for _ in range(100):
            yield dict(self=_rand_list(rng, rng.choice(BASIC), n=rng.randrange(1, 5)), to=float(rng.choice([0, -50, 1234.5])))


@contract("C16", TL + ".move_end_to", args=dict(self=lists_of(BASIC, sizes=[1, 2, 3]), to=Real()))
class move_end_to:
    assumes = SHAPE_NOTE

    def ensures_shifted_copy(self, to, result):
        d = to - max([r["offset"] for r in rows(self)])
        return [r["offset"] for r in rows(result)] == [r["offset"] + d for r in rows(self)] and len(rows(result)) == len(rows(self)) and type(result) is type(self)

    ensures_receiver_unchanged = _receiver_unchanged

    def witnesses(rng):
        for _ in range(100):
            yield dict(self=_rand_list(rng, rng.choice(BASIC), n=rng.randrange(1, 5)), to=float(rng.choice([0, -50, 1234.5])))


# ----------------------------------------------------------------------------- constructors: exactly the declared fields

from pyvc.ghost import declared, no_nan, unchanged  # noqa: E402

CTOR_CLASSES = BASIC + HOLDS + ["reamber.quaver.lists.notes.QuaHitList:QuaHitList", "reamber.osu.lists.OsuSvList:OsuSvList", "reamber.bms.lists.notes.BMSHitList:BMSHitList"]


def _classes(paths):
    from pyvc.dsl import resolve

    return [resolve(p) for p in paths]


@contract("C16", TL + ".empty", args=dict(cls=Choice(_classes(CTOR_CLASSES)), rows=Choice([0, 1, 2, 3])))
class empty_has_declared_fields:
    """empty(n): n rows, exactly the declared fields, every cell the declared default (no NaN)."""

    assumes = SHAPE_NOTE

    def ensures_exact_fields_and_rows(cls, rows, result):
        from pyvc.ghost import rows as rows_of

        return (type(result) is cls and sorted(columns(result)) == sorted(declared(cls)) and len(rows_of(result)) == rows
                and labels(result) == list(range(rows)))

    def ensures_defaults_no_nan(cls, rows, result):
        from pyvc.ghost import rows as rows_of

        props = cls._item_class()._props
        return no_nan(result) and all(all(r[c] == props[c][1] for c in props) for r in rows_of(result))

    def witnesses(rng):
        for c in _classes(CTOR_CLASSES):
            for n in (0, 1, 2, 5):
                yield dict(cls=c, rows=n)


@contract("C16", TL + ".append", args=dict(self=lists_of(BASIC[:1], sizes=[0, 1, 2]), val=lists_of(BASIC[:1], sizes=[0, 1, 2]), sort=Const(True)))
class append_sorted:
    """append(x, sort=True): the rows of both lists, in non-decreasing offset order - also when the receiver is empty."""

    assumes = SHAPE_NOTE

    def ensures_all_rows_in_time_order(self, val, sort, result):
        offs = [r["offset"] for r in rows(result)]
        return nondecreasing(offs) and same_multiset(rows(result), rows(self) + rows(val)) and type(result) is type(self)

    ensures_both_inputs_unchanged = _both_unchanged

    def witnesses(rng):
        for _ in range(100):
            c = rng.choice(BASIC + HOLDS)
            yield dict(self=_rand_list(rng, c), val=_rand_list(rng, c), sort=True)


@contract("C16", TL + ".from_dict", args=dict(cls=Choice(_classes(CTOR_CLASSES[:4])), d=Choice([ListT(DictT(offset=Real()), n) for n in (0, 1, 2)])))
class from_dict_fills_declared_fields:
    """from_dict(records with only `offset`): one row per record in order, exactly the declared fields, the given
    offsets, every other field its declared default."""

    assumes = SHAPE_NOTE

    def ensures_rows_and_fields(cls, d, result):
        from pyvc.ghost import rows as rows_of

        props = cls._item_class()._props
        rs = rows_of(result)
        return (type(result) is cls and len(rs) == len(d) and sorted(columns(result)) == sorted(declared(cls))
                and all(r["offset"] == x["offset"] and all(r[c] == props[c][1] for c in props if c != "offset") for r, x in zip(rs, d)))

    def witnesses(rng):
        for c in _classes(CTOR_CLASSES):
            for n in (0, 1, 3):
                yield dict(cls=c, d=[dict(offset=float(rng.choice([0, -5, 10.5]))) for _ in range(n)])
