"""C12 - stacking writes through.

Deductive part: Map.stack / Map.Stacker.__init__ / __getitem__ / __setitem__ / _update / loc and the generated
stack properties executed from their REAL source over the static-shape frame model (every cell and every row
label symbolic): editing the stack equals editing each list, nothing else changes.  MapSet stacks, histories
and stale stackers: contracts/C12_bounded.py.
"""
from pyvc.dsl import contract, lemma, bounded, Int, Real, Bool, Obj, Const, Choice, ListT, TimedListT, MapT, resolve
from pyvc.ghost import rows, labels, columns, declared, no_nan, unchanged, implies, eqr

SHAPE_NOTE = ["shape-bounded: charts whose lists have the stated 0..2 rows; every cell and every (pairwise distinct) row label symbolic; A2 pandas semantics as in pyvc/frames.py"]

OSU = "reamber.osu.OsuMap:OsuMap"
BMS = "reamber.bms.BMSMap:BMSMap"
SMM = "reamber.sm.SMMap:SMMap"

SHAPES = [
    MapT(OSU, dict(hits=2, holds=1, bpms=1, svs=0)),
    MapT(OSU, dict(hits=0, holds=2, bpms=1, svs=1)),
    MapT(BMS, dict(hits=1, holds=1, bpms=2)),
    MapT(OSU, dict(hits=0, holds=0, bpms=0, svs=0)),
]


def _lists(m):
    return list(m.objs.values())


def _col(L, c):
    return [r[c] for r in rows(L)]


def _others_kept(now, before, changed):
    """every list: same length / order / class / fields, every column not in `changed` identical."""
    return all(
        type(a) is type(b) and columns(a) == columns(b) and len(rows(a)) == len(rows(b))
        and all(all(ra[c] == rb[c] for c in columns(b) if c not in changed) for ra, rb in zip(rows(a), rows(b)))
        for a, b in zip(_lists(now), _lists(before))
    )


def _rand_map(rng, cls_path=OSU):
    from contracts.C16_lists import _rand_list

    cls = resolve(cls_path)
    m = cls()
    for name in list(m.objs):
        L = _rand_list(rng, type(m.objs[name]), n=rng.randrange(0, 4))
        m.objs[name] = L
    return m


@lemma("C12", args=dict(m=Choice(SHAPES), d=Real()))
class stack_whole_column_add:
    """stack.offset += d  ==  every list's offset += d; nothing else changes."""

    assumes = SHAPE_NOTE

    def body(m, d):
        s = m.stack()
        s.offset += d
        return m

    def ensures_each_list_edited(m, d, result, old):
        return all(_col(a, "offset") == [x + d for x in _col(b, "offset")] for a, b in zip(_lists(result), _lists(old.m)))

    def ensures_nothing_else_changes(m, d, result, old):
        return _others_kept(result, old.m, ["offset"])

    def witnesses(rng):
        for _ in range(60):
            yield dict(m=_rand_map(rng, rng.choice([OSU, BMS])), d=float(rng.choice([-5, 0.5, 100])))


@lemma("C12", args=dict(m=Choice(SHAPES), k=Real()))
class stack_whole_column_scale_missing_property:
    """stack.length *= k touches only the lists that HAVE a length; lists lacking the property are untouched."""

    assumes = SHAPE_NOTE

    def body(m, k):
        s = m.stack()
        s.length *= k
        return m

    def ensures_lists_with_length_scaled_others_untouched(m, k, result, old):
        return all(
            (_col(a, "length") == [x * k for x in _col(b, "length")]) if "length" in columns(b) else (rows(a) == rows(b))
            for a, b in zip(_lists(result), _lists(old.m))
        )

    def ensures_nothing_else_changes(m, k, result, old):
        return _others_kept(result, old.m, ["length"])

    def witnesses(rng):
        for _ in range(60):
            yield dict(m=_rand_map(rng, rng.choice([OSU, BMS])), k=float(rng.choice([0.5, 2, 1])))


@lemma("C12", args=dict(m=Choice(SHAPES[:3]), t=Real(), v=Int()))
class stack_conditional_assignment:
    """stack.loc[stack.offset > t, 'column'] += v changes exactly the selected rows of the lists that have a
    column, as the same masked assignment on each list alone would."""

    assumes = SHAPE_NOTE

    def body(m, t, v):
        s = m.stack()
        s.loc[s.offset > t, "column"] += v
        return m

    def ensures_selected_rows_edited(m, t, v, result, old):
        return all(
            (_col(a, "column") == [(r["column"] + v if r["offset"] > t else r["column"]) for r in rows(b)]) if "column" in columns(b) else (rows(a) == rows(b))
            for a, b in zip(_lists(result), _lists(old.m))
        )

    def ensures_nothing_else_changes(m, t, v, result, old):
        return _others_kept(result, old.m, ["column"])

    def witnesses(rng):
        for _ in range(60):
            yield dict(m=_rand_map(rng, rng.choice([OSU, BMS])), t=float(rng.choice([-1000, 0, 50, 100, 99999])), v=rng.randrange(-2, 3))
