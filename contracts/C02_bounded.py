"""C02 - StepMania reading: bounded stand-in.

Whole .sm texts are generated inside the property's domain, read by the REAL `SMMapSet.read`, and compared
with `den_sm`, an independent interpreter of the .sm format in exact rationals written from the format
description (DESIGN appendix B, "StepMania .sm") - not from reamber's reader.

Clause ids (`what`):
  read_completes                 the reader returns for a file of the domain (file has a `#STOPS:;` tag)
  reads_file_without_stops_tag   the same for a file that has no `#STOPS` tag at all (no stops <=> no tag)
  chart_count                    one chart per `#NOTES` token, in file order
  chart_header_fields            each chart's own type / description / difficulty / meter / groove radar
  mapset_header_fields           the file's header tags arrive in the matching attribute (text, offset, sample, selectable)
  objects_kind_and_column        per kind (hits, holds, rolls, mines, lifts, fakes, keysounds) the same number per column
  object_time_ms                 each object's ms position = integral of its beat over #BPMS from -#OFFSET (1e-3 ms)
  hold_length_ms                 hold / roll length = time(tail) - time(head) (1e-3 ms)
  tempo_change_position          every #BPMS entry has a tempo point at its ms position in each chart's tempo list
  tempo_change_bpm               ... carrying the file's bpm (asserted only for files whose tempo changes all lie on measure
                                 lines; otherwise the library re-expresses the list on measure lines, which the statement
                                 allows as long as the positions are there and the objects' times are right)
  read_file_equals_read, read_lines_equals_read    the other two entry points give the same result (every 10th file)
  read_lines_keepends_equals_read, read_through_instance_equals_read, read_file_path_object_equals_read, read_file_crlf_equals_read
                                 further entry points on the same files: a readlines()-style list (every line keeps its line
                                 end), a call through an instance, a pathlib.Path, the file saved with CRLF line ends
  earlier_read_unchanged_by_later_read   a returned mapset still satisfies every clause after later reads (of the same text
                                 through the other entry points / of another file): results do not share state
  result_is_well_formed          the returned lists can be inspected at all (integer columns, float offsets)
  read_again_after_editing_the_first_result   the same text read again AFTER the first result was edited in place satisfies every clause
  read_file_of_a_path_that_held_another_file  read_file from a path whose earlier (longer / shorter / other) content was read before
Files of the rarer comment families report one clause named after the family, whatever base clause broke
(one root cause, one id):
  comment_after_note_row         a `//` comment after a note row (`1000  // here`) does not change the denotation
  comment_containing_colon / comment_containing_semicolon / comment_containing_hash
                                 the text of a `//` comment may contain `:` `;` `#` without changing the denotation
  reads_file_without_offset_tag  a file without #OFFSET is read with beat 0 at 0 ms (StepMania's default offset 0)
  stops_tag_before_offset_or_bpms   the (empty) #STOPS tag may stand in front of #OFFSET or #BPMS: tags carry no order
  blank_line_of_spaces_inside_measure   a blank line made of spaces / a tab inside the note data is a blank line

Dimensions of the random files besides charts / rows / tempo changes (see gen_spec, enrich_header, enrich_style): 0..5 charts, charts
without objects or with one kind only, 23 chart types (3-16 columns), tempo changes on a chart's last row and beyond the end,
unusual numerals, omitted / unknown / reordered header tags (also after the charts), white space and double-byte punctuation
inside values, trailing blanks, `;` on its own line, first / last lines of the file, #NOTES fields on one line.
"""
from __future__ import annotations

import logging
import os
import random
import tempfile
from pathlib import Path
from contextlib import contextmanager
from decimal import Decimal
from fractions import Fraction

from pyvc.bounded import replayer
from pyvc.dsl import bounded

# ============================================================================= the format oracle (A5)

NOTE_KINDS = ("hits", "holds", "rolls", "mines", "lifts", "fakes", "keysounds")
_POINT = {"1": "hits", "M": "mines", "L": "lifts", "F": "fakes", "K": "keysounds"}
_HEAD = {"2": "holds", "4": "rolls"}
_ALPHABET = set("01234MLFK")

# key counts by chart type as in StepMania (GameManager's StepsTypeInfo table)
SM_KEYS = {
    "dance-single": 4,
    "dance-solo": 6,
    "dance-double": 8,
    "dance-threepanel": 3,
    "kb7-single": 7,
    "dance-routine": 8,
    "dance-couple": 8,
}

# further chart types of StepMania's table, used by the random files (the grid keeps the seven above)
EXTRA_SM_KEYS = {
    "pump-single": 5,
    "pump-halfdouble": 6,
    "pump-double": 10,
    "pump-couple": 10,
    "bm-single5": 6,
    "bm-single7": 8,
    "bm-double7": 16,
    "pnm-five": 5,
    "pnm-nine": 9,
    "techno-single8": 8,
    "techno-double8": 16,
    "ez2-real": 7,
    "kickbox-human": 4,
    "maniax-double": 8,
    "ds3ddx-single": 8,
    "para-single": 5,
    # the remaining rows of StepMania 5's table (so that the set of chart types comes from the game's documentation of the
    # format, not from the list of names the library happens to carry)
    "pump-routine": 10,
    "bm-versus5": 6,
    "bm-double5": 12,
    "bm-versus7": 8,
    "ez2-single": 5,
    "ez2-double": 10,
    "techno-single4": 4,
    "techno-single5": 5,
    "techno-double4": 8,
    "techno-double5": 10,
    "maniax-single": 4,
    "kickbox-quadarm": 4,
    "kickbox-insect": 6,
    "kickbox-arachnid": 8,
}
SM_KEYS_ALL = {**SM_KEYS, **EXTRA_SM_KEYS}

TEXT_TAGS = {
    "TITLE": "title",
    "SUBTITLE": "subtitle",
    "ARTIST": "artist",
    "TITLETRANSLIT": "title_translit",
    "SUBTITLETRANSLIT": "subtitle_translit",
    "ARTISTTRANSLIT": "artist_translit",
    "GENRE": "genre",
    "CREDIT": "credit",
    "BANNER": "banner",
    "BACKGROUND": "background",
    "LYRICSPATH": "lyrics_path",
    "CDTITLE": "cd_title",
    "MUSIC": "music",
    "DISPLAYBPM": "display_bpm",
    "BGCHANGES": "bg_changes",
    "FGCHANGES": "fg_changes",
}


class SMFormatError(ValueError):
    """The text is not an .sm text of the property's domain (code = stable short reason)."""

    def __init__(self, code, msg):
        super().__init__(f"{code}: {msg}")
        self.code = code


def _frac(s, what):
    try:
        return Fraction(s.strip())
    except (ValueError, ZeroDivisionError):
        raise SMFormatError("number", f"{what}: {s!r} is not a decimal number")


def _strip_comments(text):
    out = []
    for line in text.replace("\r\n", "\n").replace("\r", "\n").split("\n"):
        i = line.find("//")
        out.append(line if i < 0 else line[:i])
    return "\n".join(out)


def _msd_tokens(text):
    """`#TAG:p1:p2...;` tokens of the comment-free text, plus every run of text that is outside any token."""
    body = _strip_comments(text)
    toks, stray = [], []
    i, n = 0, len(body)
    while i < n:
        c = body[i]
        if c == "#":
            j = body.find(";", i)
            if j < 0:
                raise SMFormatError("unterminated_value", body[i : i + 40])
            params = body[i + 1 : j].split(":")
            toks.append((params[0].strip().upper(), params[1:]))
            i = j + 1
        elif c.isspace():
            i += 1
        else:
            j = i
            while j < n and body[j] not in "#\n":
                j += 1
            stray.append(body[i:j].strip())
            i = j
    return toks, stray


def _pairs(value, what):
    out = []
    for item in value.split(","):
        item = item.strip()
        if not item:
            continue
        if item.count("=") != 1:
            raise SMFormatError("pair", f"{what}: {item!r}")
        a, b = item.split("=")
        out.append((_frac(a, what), _frac(b, what)))
    return out


def beat_to_ms(bpms, offset_s, beat):
    """Time of `beat`: beat 0 is at -OFFSET seconds, each beat of a segment lasts 60/bpm s (exact)."""
    t = -Fraction(offset_s) * 1000
    for i, (b0, v) in enumerate(bpms):
        b1 = bpms[i + 1][0] if i + 1 < len(bpms) else None
        if b1 is None or beat < b1:
            return t + (beat - b0) * 60000 / v
        t += (b1 - b0) * 60000 / v
    raise AssertionError


def den_sm(text):
    """Denotation of an .sm text.  Returns dict(header, offset_s, bpms, stops, has_stops_tag, selectable,
    sample_start_ms, sample_length_ms, problems, charts); each chart is dict(chart_type, description, difficulty,
    meter, groove_radar, widths, rows, objects=[(kind, column, time_ms, length_ms)], beats=[(kind, column, beat,
    length_beats)], tempo=[(time_ms, bpm)]), all numbers Fractions.  Recoverable irregularities (text outside any
    tag, a row whose width is not the chart type's key count, ...) are listed in `problems`; anything that makes
    the text uninterpretable raises SMFormatError."""
    toks, stray = _msd_tokens(text)
    problems = [("stray_text", s) for s in stray]
    header, notes = {}, []
    for tag, params in toks:
        if tag == "NOTES":
            notes.append(params)
        else:
            if tag in header:
                problems.append(("duplicate_tag", tag))
            header[tag] = ":".join(params).strip()
    if "BPMS" not in header:
        raise SMFormatError("bpms", "no #BPMS tag")
    offset_s = _frac(header.get("OFFSET") or "0", "#OFFSET")
    bpms = sorted(_pairs(header["BPMS"], "#BPMS"))
    if not bpms or bpms[0][0] != 0:
        raise SMFormatError("bpms", "the first tempo is not at beat 0")
    if any(v <= 0 for _, v in bpms) or len({b for b, _ in bpms}) != len(bpms):
        raise SMFormatError("bpms", "non-positive tempo or two tempos on one beat")
    stops = _pairs(header.get("STOPS", ""), "#STOPS")
    selectable = None
    if "SELECTABLE" in header:
        selectable = {"YES": True, "NO": False}.get(header["SELECTABLE"].upper())
        if selectable is None:
            problems.append(("selectable_value", header["SELECTABLE"]))

    def ms_of(tag):
        return _frac(header[tag], "#" + tag) * 1000 if header.get(tag) else None

    charts = []
    for k, params in enumerate(notes):
        if len(params) != 6:
            raise SMFormatError("notes_fields", f"chart {k}: {len(params)} ':'-separated fields, 6 expected")
        typ, desc, diff, meter, radar = (p.strip() for p in params[:5])
        try:
            meter_i = int(meter)
        except ValueError:
            raise SMFormatError("number", f"chart {k}: meter {meter!r}")
        radar_l = [_frac(x, "groove radar") for x in radar.split(",")] if radar else []
        objects, beats, rows_per_measure, widths = [], [], [], set()
        open_head = {}
        for m, mtxt in enumerate(params[5].split(",")):
            rows = [r.strip() for r in mtxt.split("\n")]
            rows = [r for r in rows if r]
            R = len(rows)
            if R == 0 or R % 4:
                raise SMFormatError("rows_multiple_of_4", f"chart {k} measure {m}: {R} rows")
            rows_per_measure.append(R)
            for r, row in enumerate(rows):
                widths.add(len(row))
                beat = 4 * m + Fraction(4 * r, R)
                for col, ch in enumerate(row):
                    if ch not in _ALPHABET:
                        raise SMFormatError("symbol", f"chart {k} measure {m} row {r}: {row!r}")
                    if ch == "0":
                        continue
                    if ch in _POINT:
                        if col in open_head:
                            problems.append(("object_inside_hold", f"chart {k} measure {m} row {r} column {col}"))
                        beats.append((_POINT[ch], col, beat, Fraction(0)))
                    elif ch in _HEAD:
                        if col in open_head:
                            raise SMFormatError("hold_pairing", f"chart {k} measure {m} row {r} column {col}: head inside an open hold")
                        open_head[col] = (_HEAD[ch], beat)
                    else:  # "3"
                        if col not in open_head:
                            raise SMFormatError("hold_pairing", f"chart {k} measure {m} row {r} column {col}: tail without a head")
                        kind, b0 = open_head.pop(col)
                        beats.append((kind, col, b0, beat - b0))
        if open_head:
            raise SMFormatError("hold_pairing", f"chart {k}: head never closed in columns {sorted(open_head)}")
        want_w = SM_KEYS_ALL.get(typ)
        if len(widths) != 1 or (want_w is not None and widths != {want_w}):
            problems.append(("row_width", f"chart {k} ({typ}, {want_w} keys): row widths {sorted(widths)}"))
        for kind, col, b, lb in beats:
            t = beat_to_ms(bpms, offset_s, b)
            objects.append((kind, col, t, beat_to_ms(bpms, offset_s, b + lb) - t))
        charts.append(
            dict(
                chart_type=typ,
                description=desc,
                difficulty=diff,
                meter=meter_i,
                groove_radar=radar_l,
                widths=sorted(widths),
                rows=rows_per_measure,
                objects=objects,
                beats=beats,
                tempo=[(beat_to_ms(bpms, offset_s, b), v) for b, v in bpms],
            )
        )
    return dict(
        header=header,
        offset_s=offset_s,
        bpms=bpms,
        stops=stops,
        has_stops_tag="STOPS" in header,
        selectable=selectable,
        sample_start_ms=ms_of("SAMPLESTART"),
        sample_length_ms=ms_of("SAMPLELENGTH"),
        problems=problems,
        charts=charts,
    )


# ============================================================================= observing reamber objects


@contextmanager
def quiet():
    """reamber logs a warning for every re-seated tempo list; keep the check's output readable."""
    logging.disable(logging.WARNING)
    try:
        yield
    finally:
        logging.disable(logging.NOTSET)


def map_objects(m):
    """{kind: sorted [(column, offset_ms, length_ms)]} of a reamber SMMap (length 0 for point objects)."""
    out = {}
    for kind in NOTE_KINDS:
        df = getattr(m, kind).df
        cols = [int(c) for c in df["column"].to_numpy()]
        offs = [float(x) for x in df["offset"].to_numpy()]
        lens = [float(x) for x in df["length"].to_numpy()] if "length" in df.columns else [0.0] * len(offs)
        out[kind] = sorted(zip(cols, offs, lens))
    return out


def map_tempo(m):
    df = m.bpms.df
    return sorted(zip((float(x) for x in df["offset"].to_numpy()), (float(x) for x in df["bpm"].to_numpy())))


def chart_header(m):
    return dict(
        chart_type=m.chart_type,
        description=m.description,
        difficulty=m.difficulty,
        meter=m.difficulty_val,
        groove_radar=[float(x) for x in m.groove_radar],
    )


def den_objects(chart):
    """{kind: sorted [(column, time_ms, length_ms)]} of one chart of the denotation (Fractions)."""
    out = {k: [] for k in NOTE_KINDS}
    for kind, col, t, ln in chart["objects"]:
        out[kind].append((col, t, ln))
    return {k: sorted(v) for k, v in out.items()}


def mapset_header_mismatches(ms, d):
    """Header tags of the denotation `d` against the attributes of the reamber mapset `ms`."""
    bad = []
    for tag, attr in TEXT_TAGS.items():
        if tag in d["header"] and getattr(ms, attr) != d["header"][tag]:
            bad.append((attr, f"#{tag}: file {d['header'][tag]!r}, mapset {getattr(ms, attr)!r}"))
    if "OFFSET" in d["header"]:
        if ms.offset is None or abs(float(ms.offset) - float(-d["offset_s"] * 1000)) > 1e-6:
            bad.append(("offset", f"#OFFSET {d['header']['OFFSET']} s: beat 0 at {float(-d['offset_s'] * 1000)} ms, mapset.offset {ms.offset!r}"))
    for tag, attr, val in (("SAMPLESTART", "sample_start", d["sample_start_ms"]), ("SAMPLELENGTH", "sample_length", d["sample_length_ms"])):
        if val is not None and abs(float(getattr(ms, attr)) - float(val)) > 1e-6:
            bad.append((attr, f"#{tag} {d['header'][tag]} s = {float(val)} ms, mapset.{attr} {getattr(ms, attr)!r}"))
    if d["selectable"] is not None and ms.selectable is not d["selectable"]:
        bad.append(("selectable", f"#SELECTABLE:{d['header']['SELECTABLE']}, mapset.selectable {ms.selectable!r}"))
    return bad


TOL_MS = 1e-3


def compare_read(ms, d):
    """Clauses of C02 for one read result `ms` against the denotation `d`: [(what, detail)]."""
    fails = []
    if len(ms.maps) != len(d["charts"]):
        return [("chart_count", f"{len(d['charts'])} #NOTES tokens, {len(ms.maps)} charts returned")]
    bad = mapset_header_mismatches(ms, d)
    if bad:
        fails.append(("mapset_header_fields", "; ".join(x for _, x in bad)))
    for k, (m, c) in enumerate(zip(ms.maps, d["charts"])):
        got_h = chart_header(m)
        want_h = dict(chart_type=c["chart_type"], description=c["description"], difficulty=c["difficulty"], meter=c["meter"], groove_radar=[float(x) for x in c["groove_radar"]])
        if got_h != want_h:
            fails.append(("chart_header_fields", f"chart {k}: file {want_h}, returned {got_h}"))
        got, want = map_objects(m), den_objects(c)
        for kind in NOTE_KINDS:
            g, w = got[kind], want[kind]
            if [x[0] for x in g] != [x[0] for x in w]:
                fails.append(("objects_kind_and_column", f"chart {k} {kind}: columns in the file {[x[0] for x in w]}, returned {[x[0] for x in g]}"))
                continue
            for (gc, gt, gl), (wc, wt, wl) in zip(g, w):
                if not abs(gt - float(wt)) <= TOL_MS:
                    fails.append(("object_time_ms", f"chart {k} {kind} column {wc}: file position {float(wt)} ms, returned {gt} ms"))
                    break
                if not abs(gl - float(wl)) <= TOL_MS:
                    fails.append(("hold_length_ms", f"chart {k} {kind} column {wc} at {float(wt)} ms: file length {float(wl)} ms, returned {gl} ms"))
                    break
        tempo = map_tempo(m)
        for i, (t, v) in enumerate(c["tempo"]):
            near = [(gt, gv) for gt, gv in tempo if abs(gt - float(t)) <= TOL_MS]
            if not near:
                fails.append(("tempo_change_position", f"chart {k}: #BPMS entry {i} (beat {float(d['bpms'][i][0])}, {float(v)} bpm) is at {float(t)} ms; the chart's tempo points are at {[round(x, 4) for x, _ in tempo]}"))
                continue
            whole = all(b % 4 == 0 for b, _ in d["bpms"])  # nothing to re-seat: the list is the file's
            if whole and not any(abs(gv - float(v)) <= 1e-9 * float(v) for _, gv in near):
                fails.append(("tempo_change_bpm", f"chart {k}: #BPMS entry {i} is {float(v)} bpm at {float(t)} ms; the chart has {near}"))
    return fails


def same_read(a, b, tol=TOL_MS, tempo=True):
    """None if two read results agree (header attributes, charts, objects, tempo lists), else a description."""
    for attr in list(TEXT_TAGS.values()) + ["selectable"]:
        if getattr(a, attr) != getattr(b, attr):
            return f"{attr}: {getattr(a, attr)!r} vs {getattr(b, attr)!r}"
    for attr in ("offset", "sample_start", "sample_length"):
        x, y = getattr(a, attr), getattr(b, attr)
        if (x is None) != (y is None) or (x is not None and abs(x - y) > tol):
            return f"{attr}: {x!r} vs {y!r}"
    if len(a.maps) != len(b.maps):
        return f"{len(a.maps)} vs {len(b.maps)} charts"
    for k, (m1, m2) in enumerate(zip(a.maps, b.maps)):
        if chart_header(m1) != chart_header(m2):
            return f"chart {k}: {chart_header(m1)} vs {chart_header(m2)}"
        o1, o2 = map_objects(m1), map_objects(m2)
        for kind in NOTE_KINDS:
            if len(o1[kind]) != len(o2[kind]):
                return f"chart {k}: {len(o1[kind])} vs {len(o2[kind])} {kind}"
            for x, y in zip(o1[kind], o2[kind]):
                if x[0] != y[0] or abs(x[1] - y[1]) > tol or abs(x[2] - y[2]) > tol:
                    return f"chart {k} {kind}: {x} vs {y}"
        t1, t2 = map_tempo(m1), map_tempo(m2)
        if tempo and (len(t1) != len(t2) or any(abs(x[0] - y[0]) > tol or abs(x[1] - y[1]) > 1e-6 * max(1.0, abs(x[1])) for x, y in zip(t1, t2))):
            return f"chart {k}: tempo lists {t1} vs {t2}"
    return None


# ============================================================================= generator of .sm texts

CHART_TYPES = list(SM_KEYS)
ROW_COUNTS = (4, 8, 12, 16, 24, 48, 192)
BPM_POOL = ("60", "90", "120", "150", "177.5", "200", "333", "139.86013986013984", "89.999", "125.569")
OFFSET_POOL = ("0", "0.0", "-0.5", "0.635", "1.118", "-2.25", "12.345", "0.009", "-0.000", "-0.123456", "0.0004", "1.2345678")
TEXT_POOL = (
    "",
    "Escapes",
    "I Can Fly In The Universe",
    "(M.O.T.F - Sensation in the Sky)",
    "Draw the Emotional x Foreground Eclipse",
    "Camellia",
    "bn.png",
    "Escapes - bg.jpg",
    "a b  c",
    "Évening 夜",
    "x-y_z.mp3",
    "50% [mix] {v2} 'q' \"dq\" (p) !?&+=@",
    "1,2,3",
)
DESC_POOL = ("", "Evening", "K. Ohta", "v1.2 (final)", "a b")
DIFFS = ("Beginner", "Easy", "Medium", "Hard", "Challenge", "Edit")
RADARS = ("0.0,0.0,0.0,0.0,0.0", "0.000,0.000,0.000,0.000,0.000", "0.733,0.5,0.125,0.05,0", "1,1,1,1,1")
SAMPLES = ("0", "1.5", "68.502", "297.853", "16.457", "0.01", "26.0")
PLAIN_COMMENTS = ("", " comment", "---------------", " made with an editor", " measure", " 1000 0001", " TITLE ARTIST", " (c) 2020 - all rights")
TRICKY_COMMENTS = {"comment_colon": (" song: remix v2", " 12:30"), "comment_semicolon": (" intro; verse", " end;"), "comment_hash": (" take #2", " #1 hit")}
HEADER_ORDER = ("TITLE", "SUBTITLE", "ARTIST", "TITLETRANSLIT", "SUBTITLETRANSLIT", "ARTISTTRANSLIT", "GENRE", "CREDIT", "BANNER", "BACKGROUND", "LYRICSPATH", "CDTITLE", "MUSIC", "OFFSET", "BPMS", "STOPS", "SAMPLESTART", "SAMPLELENGTH", "DISPLAYBPM", "SELECTABLE", "BGCHANGES", "FGCHANGES")
OPTIONAL_TAGS = ("SUBTITLE", "TITLETRANSLIT", "SUBTITLETRANSLIT", "ARTISTTRANSLIT", "GENRE", "LYRICSPATH", "CDTITLE", "DISPLAYBPM", "BGCHANGES", "FGCHANGES", "SAMPLELENGTH")
FAMILIES = ("plain", "no_stops_tag", "row_comment", "comment_colon", "comment_semicolon", "comment_hash", "no_offset_tag", "timing_tag_order", "space_line_in_measure")
# pools of the enrichment step of gen_spec (the grid files do not draw from them)
BPM_EXTRA = ("30", "59.94", "999.999", "1000", "0.5", "0120.000000", "90.", "+150", "240.000", "0.05", "9999.5", "65536")
OFFSET_EXTRA = ("+0.500", "-.5", ".25", "600.125", "-59.999999", "000.250", "0.", "-0.0000001", "3.000000", "-3600.5", "86400")
TEXT_EXTRA = ("a\tb", "nb\u00a0sp", "夜\u3000明け\u301c", "ｆｕｌｌ\u3000ｗｉｄｔｈ！", "take #2", "ﾊﾝｶｸ", "= not a pair =", "100%,200%", "C# minor")
DESC_EXTRA = ("K. Ohta, v2", "夜 #2", "ＥＸ", "a\tb", "x=y")
RADAR_EXTRA = ("0.1,0.2,0.3,0.4,0.5,0.6,0.7,0.8,0.9,1.0", "0", "1.000000,0.500000,0.250000,0.125000,0.062500")
METER_EXTRA = (0, 100, 9999, -1, 2147483647)
# tags that reamber does not know but StepMania 4/5 writes into .sm files: (tag, value)
UNKNOWN_TAGS = (("KEYSOUNDS", ""), ("ATTACKS", ""), ("VERSION", "0.83"), ("ORIGIN", ""), ("TIMESIGNATURES", "0.000=4=4"), ("LABELS", "0.000=Song Start"), ("PREVIEW", "x.ogg"), ("LASTBEATHINT", ""), ("INSTRUMENTTRACK", ""), ("JACKET", "jk.png"))
TIMING_TAGS = ("OFFSET", "BPMS", "STOPS")


# ----------------------------------------------------------------------------- dimensions 14 / 16 / 17 / 18 of the random files
# (14) every header tag and every #NOTES field present, non-empty, not a default, and different from every sibling of its type
D_TEXTS = ("Alpha Title", "Beta Sub", "Gamma Artist", "Delta tt", "Epsilon st", "Zeta at", "Eta Genre", "Theta Credit", "iota-bn.png", "kappa-bg.jpg", "lambda.lrc", "mu-cd.png", "nu.ogg")
D_TEXT_TAGS = ("TITLE", "SUBTITLE", "ARTIST", "TITLETRANSLIT", "SUBTITLETRANSLIT", "ARTISTTRANSLIT", "GENRE", "CREDIT", "BANNER", "BACKGROUND", "LYRICSPATH", "CDTITLE", "MUSIC")
D_CHANGES = ("0.000=bg one.avi=1.000=1=0=0", "4.000=fg two.png=1.000=0=0=1", "8.000=three.mpg=0.500=0=1=0,16.000=four.png=1.000=1=1=1")
D_DISPLAY = ("180", "95.5", "150:300", "*")
D_SECONDS = ("1.5", "68.502", "297.853", "16.457", "26.0", "3.25")
D_RADARS = ("0.1,0.2,0.3,0.4,0.5", "0.733,0.5,0.125,0.05,0.9", "0.9,0.8,0.7,0.6,0.55", "0.15,0.25,0.35,0.45,0.65", "0.11,0.22,0.33,0.44,0.66")
D_DESCS = ("first desc", "second", "K. Ohta 3", "v4 (final)", "fifth e")
# (16) texts that are markers elsewhere in the format (tag names, a beat=bpm pair, YES / NO, '*', a chart type, a difficulty) as ordinary values
SPECIAL_SM = ("NOTES", "BPMS", "STOPS", "OFFSET", "0=120", "0.000=120.000", "YES", "NO", "*", "dance-single", "Edit", "0", "-1", "0000", "1000")
# (18) measures whose rows are NOT on the 1/48-beat grid of the tempo changes (1/5, 1/7, 1/8, 1/9, 1/10, 1/16, 1/32 beat and finer)
ROW_EXTRA = (20, 28, 32, 36, 40, 64, 96, 128, 384)


def distinct_fields(rng, header, charts):
    """every known tag present once with a value of its own (in place; tags that are missing are inserted anywhere)"""
    want = dict(zip(D_TEXT_TAGS, rng.sample(D_TEXTS, len(D_TEXT_TAGS))))
    bg, fg = rng.sample(D_CHANGES, 2)
    off, ss, sl = rng.sample(D_SECONDS, 3)
    want.update(BGCHANGES=bg, FGCHANGES=fg, DISPLAYBPM=rng.choice(D_DISPLAY), SAMPLESTART=ss, SAMPLELENGTH=sl, SELECTABLE="NO")
    names = [x[0] for x in header]
    for x in header:
        if x[0] in want:
            x[1] = want[x[0]]
        elif x[0] == "OFFSET":
            x[1] = rng.choice(("", "-")) + off
    for tag, val in want.items():
        if tag not in names:
            header.insert(rng.randrange(len(header) + 1), [tag, val])
    diffs, radars, descs = rng.sample(DIFFS, min(len(charts), len(DIFFS))), rng.sample(D_RADARS, min(len(charts), len(D_RADARS))), rng.sample(D_DESCS, min(len(charts), len(D_DESCS)))
    meters = rng.sample(range(2, 30), len(charts))
    for i, ch in enumerate(charts):
        ch.update(desc=descs[i % len(descs)], diff=diffs[i % len(diffs)], meter=meters[i], radar=radars[i % len(radars)])


def dec_str(fr, places=9):
    """Decimal numeral of a Fraction: exact when it terminates, else rounded to `places` decimals."""
    fr = Fraction(fr)
    d = fr.denominator
    while d % 2 == 0:
        d //= 2
    while d % 5 == 0:
        d //= 5
    q = Decimal(fr.numerator) / Decimal(fr.denominator)
    return format(q, "f") if d == 1 else f"{q:.{places}f}"


def gen_measures(rng, keys, row_counts, density=None, need_all=False, symbols="111MLFK2244", empty=False):
    """Measures (lists of row strings) with every symbol of the alphabet; a head stays open until a `3` in its
    column, nothing else is put into a column while its hold is open; open heads are closed in a final measure.
    `symbols`: the pool the objects are drawn from (a chart of one or two kinds only); `empty`: no object at all."""
    if empty:
        return [["0" * keys] * R for R in row_counts]
    for _attempt in range(1000):
        open_ = [False] * keys
        measures, seen = [], set()
        for R in row_counts:
            p = density if density is not None else min(1.0, rng.choice((1.5, 3, 6, 12)) / R)
            rows = []
            for _r in range(R):
                row = ["0"] * keys
                if rng.random() < p:
                    n = 1 + (rng.random() < 0.3) + (rng.random() < 0.1)
                    for c in rng.sample(range(keys), min(keys, n)):
                        if open_[c]:
                            if rng.random() < 0.6:
                                row[c], open_[c] = "3", False
                        else:
                            s = rng.choice(symbols)
                            row[c], open_[c] = s, s in "24"
                            seen.add(s)
                rows.append("".join(row))
            measures.append(rows)
        if any(open_):
            rows = [["0"] * keys for _ in range(4)]
            for c in range(keys):
                if open_[c]:
                    rows[rng.randrange(4)][c] = "3"
            measures.append(["".join(r) for r in rows])
        if seen and (not need_all or seen >= set("1MLFK24")):
            return measures
    raise AssertionError("generator could not place every symbol")


def gen_tempo(rng, n_extra, total_beats, mode, also_units=(), pool=BPM_POOL):
    """[(beat numeral, bpm numeral)]: beat 0 plus `n_extra` changes on the 1/48-beat grid inside the chart
    (plus the changes at the 1/48-beat units `also_units`: on a chart's last row, beyond the end of every chart)."""
    units = set(u for u in also_units if u > 0)
    n_extra += len(units)
    while len(units) < n_extra:
        m = mode if mode != "mixed" else rng.choice(("measure", "beat", "sixteenth", "grid"))
        step = {"measure": 192, "beat": 48, "sixteenth": 3, "grid": 1}[m]
        units.add(step * rng.randrange(1, max(2, total_beats * 48 // step)))
    out = [(rng.choice(("0", "0.0", "0.000")), rng.choice(pool))]
    prev = out[0][1]
    for u in sorted(units):
        v = rng.choice([b for b in pool if Fraction(b) != Fraction(prev)])
        s = dec_str(Fraction(u, 48))
        if "." not in s:
            s += rng.choice(("", ".0", ".000"))
        out.append((s, v))
        prev = v
    return out


def gen_header(rng, stops_tag=True):
    keep = {t for t in OPTIONAL_TAGS if rng.random() < 0.7}
    h = []
    for tag in HEADER_ORDER:
        if tag in OPTIONAL_TAGS and tag not in keep:
            continue
        if tag == "STOPS":
            if stops_tag:
                h.append([tag, ""])
        elif tag == "BPMS":
            h.append([tag, None])
        elif tag == "OFFSET":
            h.append([tag, rng.choice(OFFSET_POOL)])
        elif tag in ("SAMPLESTART", "SAMPLELENGTH"):
            h.append([tag, rng.choice(SAMPLES)])
        elif tag == "SELECTABLE":
            h.append([tag, rng.choice(("YES", "YES", "NO"))])
        elif tag == "DISPLAYBPM":
            h.append([tag, rng.choice(("", "180", "*"))])
        elif tag in ("BGCHANGES", "FGCHANGES"):
            h.append([tag, ""])
        else:
            h.append([tag, rng.choice(TEXT_POOL)])
    return h


def gen_chart(rng, typ=None, row_counts=None, density=None, need_all=False, symbols="111MLFK2244", empty=False):
    typ = typ or rng.choice(CHART_TYPES)
    if row_counts is None:
        row_counts = [rng.choice(ROW_COUNTS) for _ in range(rng.randrange(1, 6))]
    return dict(
        type=typ,
        desc=rng.choice(DESC_POOL),
        diff=rng.choice(DIFFS),
        meter=rng.randrange(1, 36),
        radar=rng.choice(RADARS),
        measures=gen_measures(rng, SM_KEYS_ALL[typ], row_counts, density, need_all, symbols, empty),
    )


def gen_style(rng, family, charts):
    st = dict(seed=rng.randrange(1 << 30), comments=rng.choice(("none", "plain", "plain")), blank=rng.random() < 0.5, bpm_newlines=rng.random() < 0.5, measure_comments=rng.random() < 0.4)
    if family == "row_comment":
        cells = [(ci, mi, ri) for ci, ch in enumerate(charts) for mi, rows in enumerate(ch["measures"]) for ri in range(len(rows))]
        st["row_comments"] = [list(x) for x in rng.sample(cells, min(len(cells), rng.randrange(1, 4)))]
        st["comments"] = "plain"
    if family in TRICKY_COMMENTS:
        st["comments"] = family
    return st


def enrich_style(rng, st, family):
    """Layout choices that do not change the denotation (each drawn on its own; absent keys = the plain layout)."""
    if rng.random() < 0.25:
        st["row_trail"] = True  # spaces / a tab after some note rows and after some `;`
    if rng.random() < 0.15:
        st["bpms_spaces"] = True  # `0 = 120 , 4 = 150`
    if rng.random() < 0.2:
        st["semicolon_newline"] = True  # the `;` of some header tags on a line of its own
    x = rng.random()
    if x < 0.3:
        st["eof"] = "none" if x < 0.12 else "blank" if x < 0.24 else "comment"  # no final newline / blank lines / a last comment
    if rng.random() < 0.15:
        st["bof"] = rng.choice(("\n\n", "// made with an editor\n", "\n// v1.2 (final)\n\n"))
    if rng.random() < 0.2:
        st["notes_inline"] = True  # `#NOTES:type:description:difficulty:meter:radar:` on one line
    if rng.random() < 0.1:
        st["data_on_radar_line"] = True  # the first row directly after the `:` of the radar field
    if rng.random() < 0.15:
        st["space_lines"] = True  # blank lines BETWEEN tags / charts made of spaces or a tab
    if family == "space_line_in_measure":
        st["blank"] = True
        st["space_lines_in_measures"] = True  # the same inside the note data
    return st


def enrich_header(rng, header, family, n_charts):
    """-> (header, header_tail).  Every tag but #BPMS may be omitted (#OFFSET only in its own family), unknown tags are added,
    values get white space / double-byte punctuation / '#' inside, the order of the tags is free: text tags anywhere, also after the
    charts; #OFFSET and #BPMS in either order, also after the charts, #STOPS after both; in the family `timing_tag_order` #STOPS comes
    before #OFFSET or #BPMS."""
    h = [list(x) for x in header]
    if rng.random() < 0.06:
        h = [x for x in h if x[0] in TIMING_TAGS]  # the smallest header
    else:
        h = [x for x in h if x[0] in TIMING_TAGS or x[0] in OPTIONAL_TAGS or rng.random() >= 0.12]
    for x in h:
        if x[0] in TEXT_TAGS and x[0] not in ("DISPLAYBPM", "BGCHANGES", "FGCHANGES") and rng.random() < 0.25:
            x[1] = rng.choice(TEXT_EXTRA)
        elif x[0] == "OFFSET" and rng.random() < 0.25:
            x[1] = rng.choice(OFFSET_EXTRA)
        elif x[0] in ("SAMPLESTART", "SAMPLELENGTH") and rng.random() < 0.2:
            x[1] = rng.choice(("000.500", "12.", "+3.25", ".5"))
    if family == "no_offset_tag":
        h = [x for x in h if x[0] != "OFFSET"]
    if rng.random() < 0.3:
        for tag, val in rng.sample(UNKNOWN_TAGS, rng.randrange(1, 4)):
            h.insert(rng.randrange(len(h) + 1), [tag, val])
    tail = []
    if rng.random() < 0.3 or family == "timing_tag_order":
        rng.shuffle(h)
    names = [x[0] for x in h]
    stops = h.pop(names.index("STOPS")) if "STOPS" in names else None
    if n_charts and rng.random() < (0.5 if family == "timing_tag_order" else 0.1):
        # #OFFSET or #BPMS (or both) after the charts
        for t in rng.sample(("OFFSET", "BPMS"), rng.choice((1, 1, 2))):
            names = [x[0] for x in h]
            if t in names:
                tail.append(h.pop(names.index(t)))
    if stops is not None:
        if family == "timing_tag_order":
            # the class with a clause of its own: #STOPS in front of #OFFSET or #BPMS (wherever those are)
            names = [x[0] for x in h]
            inhead = [names.index(t) for t in ("OFFSET", "BPMS") if t in names]
            if inhead:
                h.insert(rng.randrange(0, max(inhead) + 1), stops)
            else:
                h.insert(rng.randrange(len(h) + 1), stops)
        elif tail:
            tail.append(stops)
        else:
            names = [x[0] for x in h]
            last = max([names.index(t) for t in ("OFFSET", "BPMS") if t in names])
            h.insert(rng.randrange(last + 1, len(h) + 1), stops)
    if n_charts and rng.random() < 0.15:
        movable = [x for x in h if x[0] not in TIMING_TAGS]
        for x in rng.sample(movable, min(len(movable), rng.randrange(1, 4))):
            h.remove(x)
            tail.append(x)
    return h, tail


def gen_spec(rng, family="plain", types=None):
    rich = family not in ("row_comment",) + tuple(TRICKY_COMMENTS)  # the comment families stay as they were
    n_charts = rng.choice((1, 1, 2, 3))
    if rich:
        x = rng.random()
        n_charts = 0 if x < 0.03 else rng.choice((4, 5)) if x < 0.08 else n_charts
    charts, dims = [], []
    for _ in range(n_charts):
        typ = rng.choice(types) if types else None
        kw = {}
        if rich:
            if typ is None and rng.random() < 0.25:
                typ = rng.choice(sorted(EXTRA_SM_KEYS))
            x = rng.random()
            if x < 0.08:
                kw["empty"] = True  # a chart without any object (also in the middle of a file)
            elif x < 0.25:
                kw["symbols"] = rng.choice(("1", "M", "L", "F", "K", "2", "4", "24", "1M", "LK", "F2"))  # one or two kinds only
        if rich and rng.random() < 0.2:
            kw["row_counts"] = [rng.choice(ROW_COUNTS + ROW_EXTRA) for _ in range(rng.randrange(1, 5))]  # (18)
            dims.append("rows_off_the_48_grid")
        ch = gen_chart(rng, typ=typ, **kw)
        if rich:
            if rng.random() < 0.2:
                ch["desc"] = rng.choice(DESC_EXTRA)
            if rng.random() < 0.15:
                ch["radar"] = rng.choice(RADAR_EXTRA)
            if rng.random() < 0.1:
                ch["meter"] = rng.choice(METER_EXTRA)
        charts.append(ch)
    if rich and len(charts) >= 2 and rng.random() < 0.1:
        charts[-1] = dict(charts[0])  # the same chart twice (type, difficulty and content)
    lead = 0
    if rich and charts:
        # (17) which kind of element is first: an object ON the first tempo point (beat 0) / tempo changes BEFORE the first object of every chart
        x = rng.random()
        if x < 0.12:
            for ch in charts:
                row0 = ch["measures"][0][0]
                if set(row0) == {"0"}:
                    c = rng.randrange(len(row0))
                    ch["measures"][0][0] = row0[:c] + rng.choice("1MLFK") + row0[c + 1:]
            dims.append("object_on_beat_0")
        elif x < 0.24:
            lead = rng.choice((1, 1, 2))
            for ch in charts:
                keys = len(ch["measures"][0][0])
                ch["measures"] = [["0" * keys] * rng.choice((4, 8)) for _ in range(lead)] + ch["measures"]
            dims.append("tempo_changes_before_the_first_object")
    total = 4 * max([len(c["measures"]) for c in charts] or [2])
    n_extra = rng.choice((0, 1, 1, 2, 2, 3, 4))
    also, pool = [], BPM_POOL
    if lead:
        also += rng.sample((1, 47, 48, 96, 97, 144, 191, 192), rng.choice((1, 2)))[: 2 if lead == 2 else 1]
    if rich:
        if charts and rng.random() < 0.15:
            c = rng.choice(charts)
            also.append(48 * 4 * len(c["measures"]) - 192 // len(c["measures"][-1]))  # on the last row of a chart
        if rng.random() < 0.15:
            also.append(48 * total + rng.choice((0, 1, 48, 192, 500)))  # at / beyond the end of every chart
        if rng.random() < 0.3:
            pool = BPM_POOL + BPM_EXTRA
    header, tail = gen_header(rng, stops_tag=family != "no_stops_tag"), []
    if rich:
        if rng.random() < 0.15:
            distinct_fields(rng, header, charts)  # (14); enrich_header may still omit / move / re-word some of the tags
            dims.append("all_fields_distinct")
            if rng.random() < 0.5:
                header, tail = enrich_header(rng, header, family, len(charts))
            elif family == "no_offset_tag":
                header = [x for x in header if x[0] != "OFFSET"]
        else:
            header, tail = enrich_header(rng, header, family, len(charts))
        if rng.random() < 0.1:  # (16)
            cand = [x for x in header + tail if x[0] in D_TEXT_TAGS]
            for x in rng.sample(cand, min(len(cand), 2)):
                x[1] = rng.choice(SPECIAL_SM)
            if charts and rng.random() < 0.5:
                rng.choice(charts)["desc"] = rng.choice(SPECIAL_SM)
            dims.append("marker_text_as_value")
    style = gen_style(rng, family, charts)
    if rich:
        style = enrich_style(rng, style, family)
    spec = dict(header=header, bpms=gen_tempo(rng, n_extra, total, "mixed", also, pool), charts=charts, style=style)
    if dims:
        spec["dims"] = dims
    if tail:
        spec["header_tail"] = tail
    if len(spec["bpms"]) > 2 and rng.random() < 0.25:
        order = list(range(len(spec["bpms"])))
        tail = order[1:]
        rng.shuffle(tail)
        spec["bpms_file_order"] = [0] + tail  # the beat-0 pair stays first, the others in any order
    return spec


def render(spec):
    """The .sm text of a spec (deterministic: comment / blank-line placement is drawn from style.seed)."""
    st = spec["style"]
    rs = random.Random(st["seed"])
    rx = random.Random(st["seed"] ^ 0x5BD1E995)  # the newer layout choices draw from a stream of their own
    fam = st["comments"]
    row_comments = {tuple(x) for x in st.get("row_comments", [])}
    out = []

    def comment():
        pool = TRICKY_COMMENTS[fam] if fam in TRICKY_COMMENTS and rs.random() < 0.7 else PLAIN_COMMENTS
        return "//" + rs.choice(pool)

    def noise(p, in_data=False):
        if st["blank"] and rs.random() < p:
            spaces = st.get("space_lines_in_measures") if in_data else st.get("space_lines")
            out.append(rx.choice((" ", "  ", "\t", "    ")) if spaces else "")
        if fam != "none" and rs.random() < p:
            out.append(comment())

    def trail():
        return rx.choice(("", "", " ", "  ", "\t")) if st.get("row_trail") else ""

    def tag_line(tag, val):
        if tag == "BPMS":
            pairs = list(spec["bpms"])
            if spec.get("bpms_file_order"):
                # the #BPMS value is a set of beat=bpm pairs: their order in the text carries no meaning
                pairs = [pairs[i] for i in spec["bpms_file_order"] if i < len(pairs)]
            eq, sep = (" = ", " , ") if st.get("bpms_spaces") else ("=", ",")
            val = (sep.rstrip(" ") + "\n" if st["bpm_newlines"] else sep).join(f"{b}{eq}{v}" for b, v in pairs)
        end = "\n;" if st.get("semicolon_newline") and rx.random() < 0.5 else ";"
        out.append(f"#{tag}:{val}{end}{trail()}")

    if st.get("bof"):
        out.append(st["bof"].rstrip("\n"))
    for tag, val in spec["header"]:
        noise(0.15)
        tag_line(tag, val)
    for ci, ch in enumerate(spec["charts"]):
        noise(0.3)
        if fam != "none":
            out.append(f"//---------------{ch['type']} - {ch['desc']}----------------")
        fields = (ch["type"], ch["desc"], ch["diff"], ch["meter"], ch["radar"])
        if st.get("notes_inline"):
            out.append("#NOTES:" + "".join(f"{v}:" for v in fields))
        else:
            out.append("#NOTES:")
            for v in fields:
                out.append(f"     {v}:")
        glue = bool(st.get("data_on_radar_line"))
        for mi, rows in enumerate(ch["measures"]):
            mc = fam != "none" and st["measure_comments"]
            if mi > 0:
                out.append(f",  // measure {mi + 1}" if mc else ",")
            elif mc and not glue:
                out.append("  // measure 1")
            for ri, row in enumerate(rows):
                line = (row + "  // here" if (ci, mi, ri) in row_comments else row) + trail()
                if glue and mi == 0 and ri == 0:
                    out[-1] += line  # `...radar:1000`
                    continue
                noise(0.04, in_data=True)
                out.append(line)
        out.append(";" + trail())
        if st["blank"]:
            out.append("")
    for tag, val in spec.get("header_tail", []):
        noise(0.15)
        tag_line(tag, val)
    eof = st.get("eof")
    text = "\n".join(out)
    if eof == "none":
        return text.rstrip("\n")
    if eof == "blank":
        return text + "\n\n\n \n"
    if eof == "comment":
        return text + "\n// end of file"
    return text + "\n"


# ============================================================================= one case


FAMILY_CLAUSE = {
    "row_comment": "comment_after_note_row",
    "comment_colon": "comment_containing_colon",
    "comment_semicolon": "comment_containing_semicolon",
    "comment_hash": "comment_containing_hash",
    # three further classes of file with a clause of their own (one root cause each)
    "no_offset_tag": "reads_file_without_offset_tag",
    "timing_tag_order": "stops_tag_before_offset_or_bpms",
    "space_line_in_measure": "blank_line_of_spaces_inside_measure",
}


def _by_family(family, fails):
    """Files of the rarer comment families report ONE clause named after the family (one root cause, one id)."""
    if family not in FAMILY_CLAUSE or not fails:
        return fails
    return [(FAMILY_CLAUSE[family], f"{len(fails)} clause(s) fail, first {fails[0][0]}: {fails[0][1]}")]


def _edit_mapset(ms):
    """Change a returned mapset in place through its public lists and fields (a step the library refuses is skipped: what an edit
    does is not this property's business)."""
    steps = [lambda: setattr(ms, "title", "edited"), lambda: setattr(ms, "artist", "edited"), lambda: setattr(ms, "offset", 98765.0), lambda: setattr(ms, "music", "edited.ogg"),
             lambda: setattr(ms, "sample_start", 1.0), lambda: setattr(ms, "selectable", not ms.selectable)]
    for m in ms.maps:
        for kind in NOTE_KINDS:
            steps.append(lambda m=m, kind=kind: setattr(getattr(m, kind), "offset", getattr(m, kind).offset + 321.5))
            steps.append(lambda m=m, kind=kind: setattr(getattr(m, kind), "column", 0))
        steps += [lambda m=m: setattr(m.holds, "length", m.holds.length * 3 + 1), lambda m=m: setattr(m.rolls, "length", m.rolls.length * 3 + 1),
                  lambda m=m: setattr(m.bpms, "bpm", 77.0), lambda m=m: setattr(m.bpms, "offset", m.bpms.offset + 5.0),
                  lambda m=m: setattr(m, "description", "edited"), lambda m=m: setattr(m, "chart_type", "edited-type"), lambda m=m: setattr(m, "difficulty", "Edited"),
                  lambda m=m: setattr(m, "difficulty_val", 99), lambda m=m: m.groove_radar.append(9.0)]
    steps.append(lambda: ms.maps.reverse())
    steps.append(lambda: ms.maps.pop())
    for st in steps:
        try:
            st()
        except Exception:  # noqa
            pass


_PRIOR_SHORT = "#TITLE:prior;\n#OFFSET:1.5;\n#BPMS:0=99;\n#STOPS:;\n#NOTES:\n dance-single:\n prior:\n Hard:\n 9:\n 0,0,0,0,0:\n1000\n0100\n0010\n0001\n;\n"
_PRIOR_CHART = "#NOTES:\n     dance-single:\n     prior {k}:\n     Edit:\n     {k}:\n     1,1,1,1,1:\n1111\nMMMM\n1001\n0110\n,\n2222\n0000\n3333\nKLFK\n;\n"


def _read_file_on_a_used_path(text, how, then_text=None):
    """read_file of `text` from a path that held ANOTHER file, itself read first: the text followed by six more charts (longer), a
    one-chart file of 15 lines (shorter), or the case's second file (other)."""
    from reamber.sm.SMMapSet import SMMapSet

    prior = _PRIOR_SHORT if how == "reused_shorter" else then_text if how == "reused_other" and then_text else text.rstrip("\n") + "\n" + "".join(_PRIOR_CHART.format(k=k) for k in range(1, 7))
    fd, path = tempfile.mkstemp(suffix=".sm")
    os.close(fd)
    try:
        with open(path, "w", encoding="utf8", newline="") as f:
            f.write(prior)
        try:
            SMMapSet.read_file(path)
        except Exception:  # noqa  (the other file is not this case's business)
            pass
        with open(path, "w", encoding="utf8", newline="") as f:
            f.write(text)
        return SMMapSet.read_file(path)
    finally:
        os.unlink(path)


def _second_read(case, text, d, ms):
    """Dimensions 'state of the first result' and 'state of the file system': the text alone determines what a read returns."""
    from reamber.sm.SMMapSet import SMMapSet

    again = case.get("again")
    if again == "edit":
        what, why = "read_again_after_editing_the_first_result", "the first result was edited in place, then the same text was read again"
        _edit_mapset(ms)
        try:
            ms2 = SMMapSet.read(text)
        except Exception as ex:
            return [(what, f"{why}: read raised {type(ex).__name__}: {ex}")]
    else:
        what, why = "read_file_of_a_path_that_held_another_file", f"the path held another file ({again}), which was read; then it was overwritten with this text and read"
        try:
            ms2 = _read_file_on_a_used_path(text, again, case.get("then_text") or (render(case["then_spec"]) if case.get("then_spec") else None))
        except Exception as ex:
            return [(what, f"{why}: read_file raised {type(ex).__name__}: {ex}")]
    try:
        bad = compare_read(ms2, d)
    except Exception as ex:
        bad = [("result_is_well_formed", f"{type(ex).__name__}: {ex}")]
    return [(what, f"{why}: the result fails {bad[0][0]}: {bad[0][1]}")] if bad else []


def run_read_case(case):
    """Real `SMMapSet.read` on the case's text against `den_sm`: [(what, detail)]."""
    from reamber.sm.SMMapSet import SMMapSet

    text = case["text"] if "text" in case else render(case["spec"])
    family = case.get("family", "plain")
    d = den_sm(text)
    if d["problems"] or d["stops"]:
        raise AssertionError(f"generated text is outside the domain: {d['problems']} {d['stops']}")
    with quiet():
        try:
            ms = SMMapSet.read(text)
        except Exception as ex:
            what = "read_completes" if d["has_stops_tag"] else "reads_file_without_stops_tag"
            return _by_family(family, [(what, f"SMMapSet.read raised {type(ex).__name__}: {ex}")])
        try:
            fails = compare_read(ms, d)
        except Exception as ex:  # e.g. NaN columns: the result cannot even be inspected
            fails = [("result_is_well_formed", f"inspecting the returned mapset raised {type(ex).__name__}: {ex}")]
        later = []
        if case.get("then_spec") or case.get("then_text"):
            # another file read afterwards: what was returned for this one must not change
            try:
                SMMapSet.read(case.get("then_text") or render(case["then_spec"]))
                later.append("another file was read")
            except Exception:  # noqa  (that file is another case's business)
                pass
        if case.get("entry_points"):
            later.append("the same text was read again through the other entry points")
            try:
                diff = same_read(ms, SMMapSet().read(text), tol=0.0)
            except Exception as ex:
                diff = f"SMMapSet().read raised {type(ex).__name__}: {ex}"
            if diff:
                fails.append(("read_through_instance_equals_read", diff))
            try:
                diff = same_read(ms, SMMapSet.read(text.split("\n")), tol=0.0)
            except Exception as ex:
                diff = f"read(list of lines) raised {type(ex).__name__}: {ex}"
            if diff:
                fails.append(("read_lines_equals_read", diff))
            else:
                # the list as `readlines()` gives it (every line keeps its line end): the extra empty lines are blank lines
                try:
                    diff = same_read(ms, SMMapSet.read(text.splitlines(keepends=True)), tol=0.0)
                except Exception as ex:
                    diff = f"read(readlines()-style list) raised {type(ex).__name__}: {ex}"
                if diff:
                    fails.append(("read_lines_keepends_equals_read", diff))
            fd, path = tempfile.mkstemp(suffix=".sm")
            try:
                with os.fdopen(fd, "w", encoding="utf8", newline="") as f:
                    f.write(text)
                try:
                    diff = same_read(ms, SMMapSet.read_file(path), tol=0.0)
                except Exception as ex:
                    diff = f"read_file raised {type(ex).__name__}: {ex}"
            finally:
                os.unlink(path)
            if diff:
                fails.append(("read_file_equals_read", diff))
            else:
                try:
                    fd, path = tempfile.mkstemp(suffix=".sm")
                    with os.fdopen(fd, "w", encoding="utf8", newline="") as f:
                        f.write(text)
                    diff = same_read(ms, SMMapSet.read_file(Path(path)), tol=0.0)
                except Exception as ex:
                    diff = f"read_file(Path) raised {type(ex).__name__}: {ex}"
                finally:
                    os.unlink(path)
                if diff:
                    fails.append(("read_file_path_object_equals_read", diff))
            # the same text saved with Windows line ends denotes the same charts
            fd, path = tempfile.mkstemp(suffix=".sm")
            try:
                with os.fdopen(fd, "w", encoding="utf8", newline="") as f:
                    f.write(text.replace("\n", "\r\n"))
                try:
                    diff = same_read(ms, SMMapSet.read_file(path), tol=0.0)
                except Exception as ex:
                    diff = f"read_file of the CRLF file raised {type(ex).__name__}: {ex}"
            finally:
                os.unlink(path)
            if diff:
                fails.append(("read_file_crlf_equals_read", diff))
        if later and not fails:
            try:
                again = compare_read(ms, d)
            except Exception as ex:
                again = [("result_is_well_formed", f"{type(ex).__name__}: {ex}")]
            if again:
                fails.append(("earlier_read_unchanged_by_later_read", f"after {' and '.join(later)} the first result fails {again[0][0]}: {again[0][1]}"))
        if case.get("again") and not fails:
            fails += _second_read(case, text, d, ms)
    return _by_family(family, fails)


def _nontrivial(spec):
    syms = set("".join("".join(r) for c in spec["charts"] for m in c["measures"] for r in m)) - {"0"}
    return len(spec["bpms"]) >= 2 or len(spec["charts"]) >= 2 or len(syms) >= 4


def _record(rep, case, fails):
    if fails:
        full = dict(case)
        full["text"] = render(case["spec"])
        if case.get("then_spec"):
            full["then_text"] = render(case["then_spec"])
        for what, det in fails:
            rep.fail(what, full, det)


# ============================================================================= the bounded stand-ins

# tempo layouts of the grid: beat numerals of the changes after beat 0 (all on the 1/48-beat grid)
GRID_LAYOUTS = {
    "single": [],
    "measure_line": ["4"],
    "mid_measure_on_beat": ["2.000"],
    "sixteenth": ["5.0625"],
    "third_of_beat": ["1.333333333"],
    "two_in_one_measure": ["1", "2.5"],
    "short_then_long": ["0.020833333", "8"],
}


def grid_case(typ, rows, layout, stops_tag):
    """One file of the grid; its content is fixed by its coordinates (own seeded generator, not the run's)."""
    rng = random.Random(f"C02-grid-{typ}-{rows}-{layout}-{stops_tag}")
    row_counts = list(rows) * (2 if sum(rows) < 32 else 1)  # enough cells for every symbol in 3 columns
    chart = gen_chart(rng, typ, row_counts, density=1.0 if max(rows) <= 48 else 0.25, need_all=True)
    bpms = [("0", "120")] + [(b, v) for b, v in zip(GRID_LAYOUTS[layout], ("177.5", "90"))]
    spec = dict(header=gen_header(rng, stops_tag), bpms=bpms, charts=[chart], style=dict(seed=1, comments="plain", blank=True, bpm_newlines=True, measure_comments=True))
    return dict(family="plain" if stops_tag else "no_stops_tag", grid=[typ, list(rows), layout, stops_tag], spec=spec)


@bounded("C02", note="grid of whole .sm files (chart type x rows per measure x tempo layout x #STOPS tag present/absent) read by the real SMMapSet.read against the exact-rational format interpreter den_sm")
def sm_read_grid(rep):
    thorough = rep.tier != "quick"
    row_sets = [(a, b) for a in ROW_COUNTS for b in ROW_COUNTS] if thorough else [(r, r) for r in ROW_COUNTS]
    points = [(t, rows, lay, True) for t in CHART_TYPES for rows in row_sets for lay in GRID_LAYOUTS]
    points += [(t, (4, 4), lay, False) for t in CHART_TYPES for lay in GRID_LAYOUTS]
    rep.bound = (
        f"{len(points)} files: {len(CHART_TYPES)} chart types x {len(row_sets)} row-count choices for two measures "
        f"({'all pairs' if thorough else 'equal pairs'} from {list(ROW_COUNTS)}) x {len(GRID_LAYOUTS)} tempo layouts {list(GRID_LAYOUTS)} with a `#STOPS:;` tag, "
        f"plus {len(CHART_TYPES)} x {len(GRID_LAYOUTS)} files with 4-row measures and no #STOPS tag; every row of a measure with <= 48 rows carries an object, "
        "every file has all of 1 2 3 4 M L F K, comments and blank lines; file content fixed by the grid coordinates; every 10th file is read a second time after the first result "
        "was edited in place, two of ten through read_file from a path that held another (longer / shorter) file which was read first"
    )
    rep.rule = "a case is one file; all are non-trivial (every symbol present, objects on every row)"
    done = 0
    for typ, rows, lay, stops_tag in points:
        if rep.out_of_time(40, 600):
            break
        case = grid_case(typ, rows, lay, stops_tag)
        case["entry_points"] = done % 10 == 0
        if done % 10 in (3, 5, 7):
            case["again"] = {3: "reused_shorter", 5: "edit", 7: "reused_longer"}[done % 10]
        rep.case(dict(grid=case["grid"]), nontrivial=True)
        _record(rep, case, run_read_case(case))
        done += 1
    rep.exhaustive = done == len(points)
    rep.extra["grid_points_done"] = done


@bounded("C02", note="seeded random whole .sm files (0-5 charts of any chart type, 1-5 measures with rows from {4,8,12,16,24,48,192}, 0-6 tempo changes on the 1/48-beat grid, all symbols, comments / blank lines, free header layout) read by the real SMMapSet.read against den_sm")
def sm_read_random(rep):
    rng = rep.rng
    N = rep.n(260, 4000)
    rep.bound = (
        f"{N} seeded random files: 1-3 charts (3%: none, 5%: 4-5; 10% of the multi-chart files repeat a chart), chart types {CHART_TYPES} (25% of the charts: {sorted(EXTRA_SM_KEYS)}, 3-16 columns), 1-5 measures of {list(ROW_COUNTS)} rows, "
        "8% of the charts without any object and 17% with one or two kinds of object only, 0-4 tempo changes on the 1/48-beat grid "
        "(measure lines, beats, sixteenths, any grid point; non-terminating numerals written with 9 decimals; 15% each: one more change on the last row of a chart / at or beyond the end of every chart), symbols 0 1 2 3 4 M L F K, "
        "numerals with leading zeros, '+', no integer part, a bare final '.', bpm 0.5 .. 1000, offsets to 1e-7 s and 600 s, meters 0 / 100 / 9999, radars of 1 / 5 / 10 values; "
        "header: every tag but #BPMS omitted with 12% each (6%: only the timing tags), 30% with 1-3 tags reamber does not know, 30% in shuffled order (#STOPS after #OFFSET and #BPMS), 15% with 1-3 text tags and 10% with #OFFSET / #BPMS after the charts, "
        "values with tab / U+00A0 / U+3000 / wave dash / full-width / half-width kana / '#' / '=' / ',' inside; layout (independent draws): trailing blanks after rows and ';' 25%, blanks around '=' and ',' of #BPMS 15%, "
        "';' on its own line 20%, no final newline / blank lines / a comment at the end 30%, blank lines / a comment before the first tag 15%, #NOTES fields on one line 20%, first row on the radar line 10%, blank lines made of spaces 15%; "
        "families: 71% plain (own-line // comments, `, // measure n`, blank lines), 8% without any #STOPS tag, 4% a // comment after a note row, 8% comment text containing ':' ';' or '#', "
        "3% without #OFFSET, 3% with #STOPS in front of #OFFSET or #BPMS, 3% blank lines made of spaces inside the note data; "
        "every 10th file also through read(list of lines), SMMapSet().read, read_file(str), read_file(Path), read_file of the CRLF file; 12% followed by the read of another file, first result compared again; "
        "10% read a SECOND time after the first result was edited in place (offsets, columns, lengths, tempo, header fields, chart list), 15% read through read_file from a path that held another file "
        "(the text plus six charts / a 15-line file / the case's other file), itself read first: the second result must satisfy every clause for the text; "
        f"chart types: all {len(SM_KEYS_ALL)} rows of StepMania 5's StepsType table; bpm 0.05 .. 65536, offsets -3600.5 .. 86400 s, meters -1 and 2^31-1; "
        f"(14) 15% of the files carry EVERY header tag ({len(D_TEXT_TAGS)} text tags, #BGCHANGES, #FGCHANGES, #DISPLAYBPM incl. the 'lo:hi' form, #SAMPLESTART, #SAMPLELENGTH, #SELECTABLE:NO, #OFFSET) with a non-empty value that differs from every other tag's, "
        "and give every chart its own description / difficulty / meter / five-different-values radar; (16) 10% have a marker of the format (NOTES, BPMS, 0=120, YES, NO, *, a chart type, a difficulty, 1000 ...) as the ordinary value of 1-2 text tags / a description; "
        "(17) 12% have an object of every chart ON beat 0 (the first tempo point), 12% start every chart with 1-2 empty measures and 1-2 tempo changes inside them (tempo changes before the first object); "
        f"(18) 20% of the charts draw their measures' row counts also from {list(ROW_EXTRA)} (rows that are not on the 1/48-beat grid of the tempo changes: 1/5, 1/7, 1/8, 1/9, 1/10, 1/16, 1/32, 1/96 beat); spec['dims'] names what was applied"
    )
    rep.rule = "a case is one file; non-trivial when it has a tempo change, a second chart or at least 4 different symbols"
    fams, agains = {}, {}
    for i in range(N):
        if rep.out_of_time(40, 600):
            break
        x = rng.random()
        family = (
            "plain" if x < 0.71 else "no_stops_tag" if x < 0.79 else "row_comment" if x < 0.83 else rng.choice(sorted(TRICKY_COMMENTS)) if x < 0.91
            else "no_offset_tag" if x < 0.94 else "timing_tag_order" if x < 0.97 else "space_line_in_measure"
        )
        case = dict(family=family, spec=gen_spec(rng, family), entry_points=i % 10 == 0)
        if rng.random() < 0.12:
            case["then_spec"] = gen_spec(rng, "plain")
        x = rng.random()
        if x < 0.25:
            case["again"] = "edit" if x < 0.1 else "reused_longer" if x < 0.16 else "reused_shorter" if x < 0.21 else "reused_other"
            agains[case["again"]] = agains.get(case["again"], 0) + 1
        fams[family] = fams.get(family, 0) + 1
        rep.case(case, nontrivial=_nontrivial(case["spec"]))
        _record(rep, case, run_read_case(case))
    rep.extra["families"] = fams
    rep.extra["second reads"] = agains


def _replay_read(case, what):
    hit = [d for w, d in run_read_case(case) if w == what]
    return (bool(hit), hit[0] if hit else "passes")


@replayer("sm_read_grid")
def _replay_grid(case, what):
    return _replay_read(case, what)


@replayer("sm_read_random")
def _replay_random(case, what):
    return _replay_read(case, what)
