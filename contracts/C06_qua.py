"""C06 - Quaver file <-> chart (deductive kernels; documents, YAML and converted charts: contracts/C06_bounded.py).

The list <-> record translations executed from their REAL source over the static-shape frame model:
to_yaml emits exactly the keys the format defines, lanes are 1-based, an end time is start + length, times are
truncated to whole ms (< 1 ms), and the list itself is NOT modified by writing; from_yaml(to_yaml(L)) gives the
list back up to that truncation.  Mode <-> key count lookups are inverse on the supported key counts.
"""
from pyvc.dsl import contract, lemma, bounded, Int, Real, Bool, Obj, Const, Choice, ListT, TimedListT, resolve
from pyvc.ghost import rows, labels, columns, unchanged, implies, eqr, trunc
from contracts.C16_lists import _rand_list, SHAPE_NOTE

QHIT = "reamber.quaver.lists.notes.QuaHitList:QuaHitList"
QHOLD = "reamber.quaver.lists.notes.QuaHoldList:QuaHoldList"
QBPM = "reamber.quaver.lists.QuaBpmList:QuaBpmList"
QSV = "reamber.quaver.lists.QuaSvList:QuaSvList"
SIZES = [0, 1, 2, 3]


def _ls(path, **over):
    return Choice([TimedListT(path, n, "symbolic", over) for n in SIZES])


def _within_1ms_below(written, t):
    """int() truncation toward zero: the written whole number is within 1 ms of the time."""
    return abs(written - t) < 1


@contract("C06", QHIT + ".to_yaml", args=dict(self=_ls(QHIT, column=Int(0, 7))))
class hit_records:
    assumes = SHAPE_NOTE

    def ensures_format_keys_lane_and_time(self, result, old):
        rs = rows(old.self)
        return len(result) == len(rs) and all(
            sorted(rec.keys()) == ["KeySounds", "Lane", "StartTime"] and rec["Lane"] == r["column"] + 1
            and _within_1ms_below(rec["StartTime"], r["offset"]) and rec["StartTime"] == trunc(r["offset"]) and rec["KeySounds"] == r["keysounds"]
            for rec, r in zip(result, rs))

    def ensures_list_not_modified_by_writing(self, result, old):
        return unchanged(self, old.self)

    def witnesses(rng):
        for _ in range(60):
            yield dict(self=_rand_list(rng, QHIT))


@contract("C06", QHOLD + ".to_yaml", args=dict(self=_ls(QHOLD, column=Int(0, 7), length=Real(lo=0))))
class hold_records:
    assumes = SHAPE_NOTE

    def ensures_format_keys_lane_and_times(self, result, old):
        rs = rows(old.self)
        return len(result) == len(rs) and all(
            sorted(rec.keys()) == ["EndTime", "KeySounds", "Lane", "StartTime"] and rec["Lane"] == r["column"] + 1
            and _within_1ms_below(rec["StartTime"], r["offset"]) and _within_1ms_below(rec["EndTime"], r["offset"] + r["length"])
            for rec, r in zip(result, rs))

    def ensures_list_not_modified_by_writing(self, result, old):
        return unchanged(self, old.self)

    def witnesses(rng):
        for _ in range(60):
            yield dict(self=_rand_list(rng, QHOLD))


@contract("C06", QBPM + ".to_yaml", args=dict(self=_ls(QBPM)))
class bpm_records:
    assumes = SHAPE_NOTE

    def ensures_format_keys_and_values(self, result, old):
        rs = rows(old.self)
        return len(result) == len(rs) and all(
            sorted(rec.keys()) == ["Bpm", "StartTime"] and eqr(rec["Bpm"], r["bpm"]) and _within_1ms_below(rec["StartTime"], r["offset"])
            for rec, r in zip(result, rs))

    def ensures_list_not_modified_by_writing(self, result, old):
        return unchanged(self, old.self)

    def witnesses(rng):
        for _ in range(40):
            yield dict(self=_rand_list(rng, QBPM))


@contract("C06", QSV + ".to_yaml", args=dict(self=_ls(QSV)))
class sv_records:
    assumes = SHAPE_NOTE

    def ensures_format_keys_and_values(self, result, old):
        rs = rows(old.self)
        return len(result) == len(rs) and all(
            sorted(rec.keys()) == ["Multiplier", "StartTime"] and eqr(rec["Multiplier"], r["multiplier"]) and _within_1ms_below(rec["StartTime"], r["offset"])
            for rec, r in zip(result, rs))

    def ensures_list_not_modified_by_writing(self, result, old):
        return unchanged(self, old.self)

    def witnesses(rng):
        for _ in range(40):
            yield dict(self=_rand_list(rng, QSV))


@lemma("C06", args=dict(k=Choice([4, 7, 8])))
class mode_lookup_inverse:
    """get_keys(get_mode(k)) == k on the key counts the format has."""

    exhaustive = True

    def body(k):
        from reamber.quaver.QuaMapMeta import QuaMapMode

        return QuaMapMode.get_keys(QuaMapMode.get_mode(k))

    def ensures_identity(k, result):
        return result == k

    def witnesses():
        for k in (4, 7, 8):
            yield dict(k=k)


# ----------------------------------------------------------------------------- bounded: reading a second document leaves the first chart alone

from pyvc.bounded import replayer  # noqa: E402

_DOC = """AudioFile: a.mp3
Mode: Keys4
Title: {title}
TimingPoints:
- StartTime: {t0}
  Bpm: {bpm}
SliderVelocities: []
HitObjects:
{objs}
"""


def _doc(rng):
    objs = []
    for _ in range(rng.randrange(1, 5)):
        t = rng.randrange(0, 5000)
        if rng.random() < 0.5:
            objs.append(f"- StartTime: {t}\n  Lane: {rng.randrange(1, 5)}\n  KeySounds: []")
        else:
            objs.append(f"- StartTime: {t}\n  Lane: {rng.randrange(1, 5)}\n  EndTime: {t + rng.randrange(1, 900)}\n  KeySounds: []")
    return _DOC.format(title=rng.choice(["a", "b c"]), t0=rng.randrange(0, 100), bpm=rng.choice([120, 150.5]), objs="\n".join(objs))


def _two_docs_fail(case):
    import random
    from reamber.quaver.QuaMap import QuaMap

    rng = random.Random(case["seed"])
    d1, d2 = _doc(rng), _doc(rng)
    m1 = QuaMap.read(d1.split("\n"))
    w1 = m1.write()
    m2 = QuaMap.read(d2.split("\n"))
    out = []
    if m1.write() != w1:
        out.append(("second_read_leaves_first_chart_alone", "the first chart writes differently after a second document was read"))
    if m2.write() == w1 and d1 != d2 and QuaMap.read(d2.split("\n")).write() != w1:
        out.append(("second_read_leaves_first_chart_alone", "the second chart denotes the first document"))
    return out


@bounded("C06", note="histories: reading a second .qua document (or creating a second chart) never changes a chart read earlier")
def qua_charts_are_independent(rep):
    N = rep.n(40, 400)
    rep.bound = f"{N} pairs of generated documents read one after the other"
    rep.rule = "a case is a seed for the pair; all non-trivial"
    for seed in range(N):
        case = dict(seed=seed)
        rep.case(case)
        for what, d in _two_docs_fail(case):
            rep.fail(what, case, d)


@replayer("qua_charts_are_independent")
def _r_docs(case, what):
    hit = [d for w, d in _two_docs_fail(case) if w == what]
    return (bool(hit), hit[0] if hit else "passes")
