"""C10 - timing engine: bounded stand-ins for the input dimensions the checks in C10_timing.py hold fixed.

`engine_tempo_list_dimensions`
    Tempo-change lists the property quantifies over but `engine_vs_rational_oracle` / `engine_other_constructions`
    do not generate: two (or three) changes at exactly the same time with different values (zero-length segments,
    also at the very first change), metronomes 1..8 that differ from change to change (on measure lines), changes
    in the middle of a measure (constant metronome), bpm / offset / query values as python int, numpy scalars and
    floats needing > 6 significant digits, sub-millisecond and very large initial offsets, queries exactly ON a
    change, at position 0, far behind the last change, no queries at all, query containers (list / tuple / numpy
    array).  Every list is given to the engine through four constructions: position form
    (`TimingMap.from_bpm_changes_snap`, `reseat=False` and - where every change lies on a measure line - the
    default), offset form (`TimingMap.from_bpm_changes_offset`), and `BpmList.to_timing_map()` for the BpmList
    class of every game with rows in any order and row labels as left behind by `sorted()` / a filter (permuted,
    reversed, gappy).  The same map is queried again after another map has been built and queried.

    The oracle is exact rational integration written from the statement: the list in time order is a sequence of
    segments [t_k, t_k+1); a change that shares its time with the next one is a zero-length segment (it
    contributes nothing, the later-listed change is in force afterwards).  Where the list is NOT handed over in
    time order and has changes at one time, which of them is in force afterwards is not determined by the
    statement: only queries before the first such time are asserted there, plus `tied_changes_same_for_every_construction`
    (one list, one timeline: the offset form and BpmList.to_timing_map() of the same rows must agree).

    Call - legitimate change - call again (60 % of the cases): after the observations above the SAME objects are changed through public
    fields / list properties and asked again - every change of the position-form map moved by a (positive or negative) number of ms in
    place (`queries_follow_shifted_changes.snap_form`: positions -> ms and ms -> positions), the tempo list `to_timing_map()` was called
    on edited by `list.offset += shift`, then `bpm *= 2; offset /= 2`, then a row appended (`list_edit_then_to_timing_map.shifted /
    .double_speed / .appended_row / .completes`); the map made before the edits still gives its own answers (`same_map_same_answers.bpm_list`).

    Clause ids: <observable>.<construction> with observable in position_to_ms, ms_to_position, grid_time_round_trip,
    offgrid_time_round_trip, cumulative_beats, no_queries, result_in_query_order_second_call, other_map_in_between,
    queries_follow_appended_change and
    construction in snap_form, snap_form_default_reseat, offset_form, bpm_list; construction_completes.<construction>;
    tied_changes_same_for_every_construction.

`engine_two_snapper_grids`
    Two grids at once (dimension 18): the map's own snapper (`TimingMap.snapper`, constructor argument or field) and the snapper handed
    to `snaps()` / `beats()`, each the default, coarser (complete sets 1..k) or finer (1/120 .. 1/192), tempo changes on positions only
    one of the two grids allows.  A query time "lies on the snap grid" when BOTH its distance from the tempo change in force and its
    position in the measure are fractions the caller's snapper allows (so the clause does not depend on where the grid is anchored).
    Clauses: ms_to_position_callers_snapper, grid_time_round_trip_callers_snapper, cumulative_beats_callers_snapper,
    position_to_ms_own_snapper, offgrid_time_round_trip_callers_snapper (caller's grid at least as fine as 1/96), callers_snapper_completes,
    callers_snapper_construction_completes; class of its own grid_time_round_trip_change_off_map_grid (a change on a position the MAP's
    grid cannot express, e.g. k + 1/192 with the default map snapper: only ms -> position -> ms is asserted there, and not for times
    less than two grid steps in front of such a change); each with .<construction> in offset_form, bpm_list, snap_form.

`snapper_divisions_and_values`
    Snapper(divisions) for division sets of every shape (1..k complete in any order, single divisions, sparse sets,
    the default, list / tuple / range / numpy array) and the module function `snap(value, divisions)`, on values
    given as Fraction / float / numpy float / int: on the grid, at midpoints, just below 1, with a large whole part.
    Clauses: snap_nearest_allowed (complete sets 1..k: nearest fraction with denominator <= k),
    snap_not_farther_than_listed_divisions (any set: never farther than the nearest fraction whose denominator is
    one of the listed divisions), snap_denominator_allowed, snap_idempotent; each also with suffix `.function`
    for the module-level function.
"""
from __future__ import annotations

from fractions import Fraction
from math import floor

from pyvc.bounded import replayer
from pyvc.dsl import bounded

TOL_MS = 1e-6
TOL_BEAT = 1e-7

BPM_FLOAT = (60.0, 90.0, 120.0, 150.0, 177.5, 200.0, 333.0, 30.0, 7.5, 999.5, 1200.0, 123.456789, 139.86013986013984, 89.999)
# quarter beats of these tempos last a whole number of ms: every change and every 1/4-beat query is an integer time
BPM_INT = (60, 120, 150, 200, 300, 100, 75, 50)
INIT_FLOAT = ("0", "-1234.5", "250", "5000", "-5000", "-0.375", "12.000625", "-98765.4321", "3600000", "10000000.5", "-2500000")
INIT_INT = ("0", "-1234", "250", "5000", "-5000", "3600000", "10000000", "-2500000")
SHIFTS_FLOAT = ("1000", "-750.5", "0.125", "-86400000", "3600000.25")
SHIFTS_INT = ("1000", "-750", "8", "-86400000", "3600000")
COARSE = (1, 2, 3, 4, 6, 8, 12, 16, 24, 48)
FINE = (5, 7, 9, 32, 64, 96)
LIST_CLASSES = ("base", "osu", "sm", "qua", "bms", "o2j")
CONSTRUCTIONS = ("snap_form", "snap_form_default_reseat", "offset_form", "bpm_list")


# ============================================================================= the oracle (exact rationals)


class Timeline:
    """changes: [(measure, beat, metronome, bpm)] (Fractions) in time order - changes at one time in listed order."""

    def __init__(self, changes, init):
        self.c = changes
        self.T = [Fraction(init)]
        self.B = [Fraction(0)]
        for prev, cur in zip(changes[:-1], changes[1:]):
            d = (cur[0] - prev[0]) * prev[2] + (cur[1] - prev[1])
            assert d >= 0
            self.B.append(self.B[-1] + d)
            self.T.append(self.T[-1] + d * 60000 / prev[3])

    def active_by_position(self, measure, beat):
        k = 0
        for i, c in enumerate(self.c):
            if (c[0], c[1]) <= (measure, beat):
                k = i
        return k

    def active_by_time(self, t):
        k = 0
        for i, x in enumerate(self.T):
            if x <= t:
                k = i
        return k

    def ms(self, measure, beat):
        k = self.active_by_position(measure, beat)
        c = self.c[k]
        return self.T[k] + ((measure - c[0]) * c[2] + (beat - c[1])) * 60000 / c[3]

    def cumulative(self, t):
        k = self.active_by_time(t)
        return self.B[k] + (t - self.T[k]) * self.c[k][3] / 60000

    def position(self, t):
        k = self.active_by_time(t)
        c = self.c[k]
        tot = c[1] + (t - self.T[k]) * c[3] / 60000
        return c[0] + floor(tot / c[2]), tot - floor(tot / c[2]) * c[2]


# ============================================================================= generator


def _frac_pos(rng, metro, dens, upto_beats):
    x = Fraction(rng.randrange(0, upto_beats * 48), 48)
    d = rng.choice(dens)
    x = Fraction(floor(x * d), d)
    return int(x // metro), x % metro


def gen_engine_case(rng):
    num = rng.choice(("float", "float", "int", "numpy"))
    mode = rng.choice(("measure_lines_mixed_metronome", "measure_lines", "anywhere_constant_metronome"))
    n = rng.randrange(1, 6)
    bpm_pool = BPM_INT if num == "int" else BPM_FLOAT
    dens_change = (1, 2, 4) if num == "int" else COARSE
    metro0 = rng.randrange(1, 9)
    changes = []  # [measure, beat, metronome, bpm]
    if mode == "anywhere_constant_metronome":
        span = 30 * metro0
        pts = {(0, Fraction(0))}
        while len(pts) < n:
            pts.add(_frac_pos(rng, metro0, dens_change, span))
        for m, b in sorted(pts):
            changes.append([m, b, metro0, None])
    else:
        for m in [0] + sorted(rng.sample(range(1, 30), n - 1)):
            changes.append([m, Fraction(0), metro0 if mode == "measure_lines" else rng.randrange(1, 9), None])
    prev = None
    for c in changes:
        c[3] = rng.choice([b for b in bpm_pool if b != prev])
        prev = c[3]
    # changes at exactly the same time (different bpm; a different metronome too where metronomes vary)
    ties = 0
    if rng.random() < 0.45:
        for _ in range(rng.choice((1, 1, 2))):
            k = rng.randrange(len(changes))
            twin = list(changes[k])
            twin[3] = rng.choice([b for b in bpm_pool if b != changes[k][3]])
            if mode == "measure_lines_mixed_metronome":
                twin[2] = rng.randrange(1, 9)
            changes.insert(k + rng.randrange(2), twin)
            ties += 1
    # the order in which the list is handed over
    order = list(range(len(changes)))
    how = rng.choice(("time_order", "shuffled", "shuffled", "reversed"))
    if how == "shuffled":
        rng.shuffle(order)
    elif how == "reversed":
        order.reverse()
    # queries: positions (measure, beat)
    last_m = changes[-1][0]
    dens_q = (1, 2, 4) if num == "int" else (COARSE + FINE if all(c[1].denominator == 1 for c in changes) else COARSE)
    queries = []
    labels = {}

    def metro_at(measure):
        return [c[2] for c in changes if c[0] <= measure][-1]

    nq = rng.choice((0, 1, 2, 3, 5, 8))
    for _ in range(nq):
        r = rng.random()
        if r < 0.25:  # exactly on a change
            c = rng.choice(changes)
            queries.append([c[0], c[1]])
            if c[1] == 0 and rng.random() < 0.5:
                # a position on a measure line is the same position whatever metronome the query is labelled with
                labels[len(queries) - 1] = rng.randrange(1, 9)
        elif r < 0.32:
            queries.append([0, Fraction(0)])
        elif r < 0.42:  # far behind the last change
            m = last_m + rng.choice((50, 1000, 5000))
            queries.append([m, Fraction(rng.randrange(0, metro_at(m) * 4), 4)])
        else:
            m = rng.randrange(0, last_m + 6)
            me = metro_at(m)
            d = rng.choice(dens_q)
            queries.append([m, Fraction(rng.randrange(0, me * d), d)])
    queries = [[m, b, labels.get(i)] for i, (m, b) in enumerate(queries)]
    if queries and rng.random() < 0.6:
        queries += rng.sample(queries, min(2, len(queries)))  # duplicates
    rng.shuffle(queries)
    return dict(
        mode=mode,
        num=num,
        init=rng.choice(INIT_INT if num == "int" else INIT_FLOAT),
        changes=[[c[0], str(c[1]), c[2], c[3]] for c in changes],  # in time order; changes at one time in listed order
        ties=ties,
        list_order=order,
        queries=[[m, str(b)] for m, b, _ in queries],
        query_metronome_labels=[lab for _, _, lab in queries],  # None: the metronome in force at the position
        container=rng.choice(("list", "list", "tuple", "array")),
        jitter=[round(rng.uniform(0.01, 3), 6) for _ in queries],
        list_class=rng.choice(LIST_CLASSES),
        labels=rng.choice(("default", "default", "reversed", "gappy", "permuted")),
        rows_via=rng.choice(("items", "from_dict")),
        # call - legitimate change - call again on the SAME objects: every change moved by this many ms (negative too), then the tempo list
        # played at double speed (bpm * 2, times / 2), then a row appended
        shift=rng.choice(SHIFTS_INT if num == "int" else SHIFTS_FLOAT),
        history=rng.random() < 0.6,
        rows_extra=rng.random() < 0.5,
    )


# ============================================================================= running the real engine


def _list_class(name):
    if name == "osu":
        from reamber.osu.OsuBpm import OsuBpm as I
        from reamber.osu.lists.OsuBpmList import OsuBpmList as L
    elif name == "sm":
        from reamber.sm.SMBpm import SMBpm as I
        from reamber.sm.lists.SMBpmList import SMBpmList as L
    elif name == "qua":
        from reamber.quaver.QuaBpm import QuaBpm as I
        from reamber.quaver.lists.QuaBpmList import QuaBpmList as L
    elif name == "bms":
        from reamber.bms.BMSBpm import BMSBpm as I
        from reamber.bms.lists.BMSBpmList import BMSBpmList as L
    elif name == "o2j":
        from reamber.o2jam.O2JBpm import O2JBpm as I
        from reamber.o2jam.lists.O2JBpmList import O2JBpmList as L
    else:
        from reamber.base.Bpm import Bpm as I
        from reamber.base.lists.BpmList import BpmList as L
    return L, I


def _labels(kind, n):
    if kind == "reversed":
        return list(range(n - 1, -1, -1))
    if kind == "gappy":
        return [3 + 4 * i for i in range(n)]
    if kind == "permuted":
        return [(i * 7 + 3) % n if n not in (7,) else (i * 3 + 1) % n for i in range(n)]
    return list(range(n))


def run_engine_case(case):
    """[(what, detail)] of one case: every construction, every observable, against the exact timeline."""
    import numpy as np

    from reamber.algorithms.timing.TimingMap import TimingMap
    from reamber.algorithms.timing.utils.BpmChangeOffset import BpmChangeOffset
    from reamber.algorithms.timing.utils.BpmChangeSnap import BpmChangeSnap
    from reamber.algorithms.timing.utils.Snapper import Snapper
    from reamber.algorithms.timing.utils.snap import Snap

    num = case["num"]
    changes = [(Fraction(m), Fraction(b), Fraction(me), Fraction(v)) for m, b, me, v in case["changes"]]
    init = Fraction(case["init"])
    order = case["list_order"]
    constant_metronome = len({c[2] for c in changes}) == 1
    on_measure_lines = all(c[1] == 0 for c in changes)

    def number(x, integral=False):
        """The value in the case's numeric flavour (int flavour: every value is integral by construction)."""
        if num == "int" or integral:
            assert Fraction(x).denominator == 1, x
            return int(x) if num != "numpy" else np.int64(int(x))
        return np.float64(float(x)) if num == "numpy" else float(x)

    def beat_value(b):
        return int(b) if (num == "int" and Fraction(b).denominator == 1) else Fraction(b)

    def container(items, what):
        if case["container"] == "tuple":
            return tuple(items)
        if case["container"] == "array":
            if what == "snaps":
                a = np.empty(len(items), dtype=object)
                for i, s in enumerate(items):
                    a[i] = s
                return a
            return np.array(items)
        return list(items)

    # the timeline the list denotes: time order, changes at one time in the order they are LISTED
    listed = [changes[i] for i in order]
    rank = {i: r for r, i in enumerate(order)}
    denoted = sorted(range(len(changes)), key=lambda i: ((changes[i][0], changes[i][1]), rank[i]))
    tl = Timeline([changes[i] for i in denoted], init)
    times_of = {i: tl.T[r] for r, i in enumerate(denoted)}
    in_time_order = all((listed[i][0], listed[i][1]) <= (listed[i + 1][0], listed[i + 1][1]) for i in range(len(listed) - 1))
    positions = [(c[0], c[1]) for c in changes]
    tied = sorted({p for p in positions if positions.count(p) > 1})
    # where the statement does not say which of the changes at one time is in force afterwards
    first_ambiguous = None if (in_time_order or not tied) else tied[0]

    queries = [(Fraction(m), Fraction(b)) for m, b in case["queries"]]

    def asserted(i):
        return first_ambiguous is None or queries[i] < first_ambiguous

    def query_metronome(m, b):
        return tl.c[tl.active_by_position(m, b)][2]

    want_ms = [tl.ms(m, b) for m, b in queries]
    q_labels = case.get("query_metronome_labels") or [None] * len(queries)
    q_snaps = [Snap(number(m, True), beat_value(b), number(lab if (lab is not None and b == 0) else query_metronome(m, b), True)) for (m, b), lab in zip(queries, q_labels)]
    q_times = [number(t) for t in want_ms]
    slow = float(min(c[3] for c in changes))
    sn = Snapper()
    fails = []

    def observe(tm, con):
        def bad(what, detail):
            fails.append((f"{what}.{con}", detail))

        # ---- positions -> ms, in query order
        try:
            got = tm.offsets(container(q_snaps, "snaps"))
        except Exception as ex:
            return bad("position_to_ms", f"offsets({q_snaps}) raised {type(ex).__name__}: {ex}")
        if len(got) != len(queries):
            return bad("position_to_ms" if queries else "no_queries", f"{len(queries)} queries, {len(got)} results")
        for i, (q, w) in enumerate(zip(queries, want_ms)):
            if asserted(i) and not abs(float(got[i]) - float(w)) <= TOL_MS:
                bad("position_to_ms", f"query {i} = measure {q[0]} beat {q[1]}: integration gives {float(w)} ms, offsets() {float(got[i])} ms")
                break
        # ---- ms -> positions, in query order (all times lie on the snap grid)
        try:
            back = tm.snaps(container(q_times, "times"), sn)
        except Exception as ex:
            return bad("ms_to_position", f"snaps({q_times}) raised {type(ex).__name__}: {ex}")
        if len(back) != len(queries):
            return bad("ms_to_position" if queries else "no_queries", f"{len(queries)} queries, {len(back)} results")
        for i, w in enumerate(want_ms):
            if not asserted(i):
                continue
            wm, wb = tl.position(w)
            if not (int(back[i].measure) == wm and abs(float(Fraction(back[i].beat) - wb)) <= TOL_BEAT):
                bad("ms_to_position", f"query {i}: {float(w)} ms is measure {wm} beat {wb} by integration, snaps() gives measure {back[i].measure} beat {back[i].beat}")
                break
        try:
            again = tm.offsets(list(back))
        except Exception as ex:
            return bad("grid_time_round_trip", f"offsets(snaps({q_times})) raised {type(ex).__name__}: {ex}")
        for i, w in enumerate(want_ms):
            if asserted(i) and not abs(float(again[i]) - float(w)) <= TOL_MS:
                bad("grid_time_round_trip", f"query {i}: {float(w)} ms lies on the snap grid, ms -> position -> ms gives {float(again[i])} ms")
                break
        # ---- off the grid: back within 1/192 beat (at the slowest tempo of the list)
        off = [float(w) + j for w, j in zip(want_ms, case["jitter"])]
        try:
            again = tm.offsets(list(tm.snaps(off, sn)))
        except Exception as ex:
            return bad("offgrid_time_round_trip", f"offsets(snaps({off})) raised {type(ex).__name__}: {ex}")
        for i, t in enumerate(off):
            if first_ambiguous is None and not abs(float(again[i]) - t) <= 60000 / slow / 192 + TOL_MS:
                bad("offgrid_time_round_trip", f"query {i}: {t} ms -> position -> {float(again[i])} ms, more than 1/192 beat at {slow} bpm ({60000 / slow / 192} ms) away")
                break
        # ---- cumulative beats (constant metronome): differences are the beat distance, in query order
        if constant_metronome:
            try:
                beats = tm.beats(container(q_times, "times"), sn)
            except Exception as ex:
                return bad("cumulative_beats", f"beats({q_times}) raised {type(ex).__name__}: {ex}")
            if len(beats) != len(queries):
                return bad("cumulative_beats" if queries else "no_queries", f"{len(queries)} queries, {len(beats)} results")
            cum = [tl.cumulative(w) for w in want_ms]
            done = False
            for i in range(len(queries)):
                for j in range(len(queries)):
                    if asserted(i) and asserted(j) and not abs(float(Fraction(beats[i]) - Fraction(beats[j])) - float(cum[i] - cum[j])) <= TOL_BEAT:
                        bad("cumulative_beats", f"queries {i}, {j} ({float(want_ms[i])} ms, {float(want_ms[j])} ms): {float(cum[i] - cum[j])} beats apart by integration, beats() differ by {beats[i] - beats[j]}")
                        done = True
                        break
                if done:
                    break
        # ---- the same map asked again, other questions first: a reversed sub-multiset, then the first list again
        if len(queries) >= 2:
            sub = list(range(len(queries)))[::-2]
            try:
                got2 = tm.offsets([q_snaps[i] for i in sub])
                got3 = tm.snaps([q_times[i] for i in sub], sn)
            except Exception as ex:
                return bad("result_in_query_order_second_call", f"second call raised {type(ex).__name__}: {ex}")
            for r, i in enumerate(sub):
                wm, wb = tl.position(want_ms[i])
                if asserted(i) and not (abs(float(got2[r]) - float(want_ms[i])) <= TOL_MS and int(got3[r].measure) == wm and abs(float(Fraction(got3[r].beat) - wb)) <= TOL_BEAT):
                    bad("result_in_query_order_second_call", f"second call, query {r} (= query {i} of the first call): want {float(want_ms[i])} ms / measure {wm} beat {wb}, got {float(got2[r])} ms / measure {got3[r].measure} beat {got3[r].beat}")
                    break
        return got

    results = {}

    def construct(con, build):
        try:
            tm = build()
        except Exception as ex:
            fails.append((f"construction_completes.{con}", f"{type(ex).__name__}: {ex}"))
            return None
        results[con] = observe(tm, con)
        return tm

    def snap_changes():
        return [BpmChangeSnap(number(c[3]), number(c[2], True), Snap(number(c[0], True), beat_value(c[1]), number(c[2], True))) for c in listed]

    def offset_changes(bpm_scale=1):
        return [BpmChangeOffset(number(changes[i][3] * bpm_scale), number(changes[i][2], True), number(times_of[i])) for i in order]

    tm_snap = construct("snap_form", lambda: TimingMap.from_bpm_changes_snap(number(init), snap_changes(), reseat=False))
    if on_measure_lines and not tied:
        construct("snap_form_default_reseat", lambda: TimingMap.from_bpm_changes_snap(number(init), snap_changes()))
    tm_off = construct("offset_form", lambda: TimingMap.from_bpm_changes_offset(offset_changes()))

    made = {}

    def bpm_list():
        L, I = _list_class(case["list_class"])
        extra = {}
        if case.get("rows_extra") and case["list_class"] == "osu":
            # every other column of the row non-default and different from bpm / metronome / offset and from each other
            extra = dict(sample_set_index=11, volume=77, kiai=True)
        rows = [dict(offset=number(times_of[i]), bpm=number(changes[i][3]), metronome=number(changes[i][2], True), **(dict(extra, sample_set=2 if changes[i][2] == 3 else 3) if extra else {})) for i in order]
        lst = L.from_dict(rows) if case["rows_via"] == "from_dict" else L([I(**r) for r in rows])
        if case["labels"] != "default":
            lst.df.index = _labels(case["labels"], len(rows))  # labels as sorted() / a filter leave them
        made["list"], made["item"] = lst, I
        return lst.to_timing_map()

    tm_list = construct("bpm_list", bpm_list)
    # one list, one timeline - whatever is in force after changes at one time, it is the same for every construction
    a, b = results.get("offset_form"), results.get("bpm_list")
    if tied and a is not None and b is not None and len(a) == len(b):
        for i in range(len(a)):
            if not abs(float(a[i]) - float(b[i])) <= TOL_MS:
                fails.append(("tied_changes_same_for_every_construction", f"query {i} = measure {queries[i][0]} beat {queries[i][1]}: {float(a[i])} ms from from_bpm_changes_offset, {float(b[i])} ms from {case['list_class']} BpmList.to_timing_map() of the same rows in the same order"))
                break
    # another map (the same changes at doubled tempo) built and queried in between
    for con, tm in (("snap_form", tm_snap), ("offset_form", tm_off)):
        if tm is None or not queries:
            continue
        try:
            other = TimingMap.from_bpm_changes_offset(offset_changes(bpm_scale=2))
            other.offsets(list(q_snaps))
            other.snaps(list(q_times), sn)
            got = tm.offsets(list(q_snaps))
        except Exception as ex:
            fails.append((f"other_map_in_between.{con}", f"raised {type(ex).__name__}: {ex}"))
            continue
        for i, w in enumerate(want_ms):
            if asserted(i) and not abs(float(got[i]) - float(w)) <= TOL_MS:
                fails.append((f"other_map_in_between.{con}", f"after a second map was built and queried: query {i} gives {float(got[i])} ms, integration {float(w)} ms"))
                break
    # ---- call - legitimate change - call again.  The objects queried above are changed through public fields / list properties and
    # queried again: the answers are those of the tempo list AS IT IS NOW (nothing remembered from the earlier calls).
    if case.get("history") and queries:
        shift = Fraction(case["shift"])

        def compare(what, got, want, how):
            if len(got) != len(want):
                fails.append((what, f"{how}: {len(want)} queries, {len(got)} results"))
                return
            for i, w in enumerate(want):
                if asserted(i) and not abs(float(got[i]) - float(w)) <= TOL_MS * max(1.0, abs(float(w)) / 1e9):
                    fails.append((what, f"{how}: query {i} = measure {queries[i][0]} beat {queries[i][1]} is {float(w)} ms by integration, offsets() gives {float(got[i])} ms"))
                    return

        # (1) the map made from positions: every change of its list moved by `shift` ms, in place
        if tm_snap is not None:
            try:
                for b in tm_snap.bpm_changes_offset:
                    b.offset = b.offset + number(shift)
                compare("queries_follow_shifted_changes.snap_form", tm_snap.offsets(list(q_snaps)), [w + shift for w in want_ms], f"after every change of the map was moved by {float(shift)} ms in place")
                back = tm_snap.snaps([number(w + shift) for w in want_ms], sn)
                for i, w in enumerate(want_ms):
                    wm, wb = tl.position(w)
                    if asserted(i) and not (int(back[i].measure) == wm and abs(float(Fraction(back[i].beat) - wb)) <= TOL_BEAT):
                        fails.append(("queries_follow_shifted_changes.snap_form", f"after every change of the map was moved by {float(shift)} ms in place: {float(w + shift)} ms is measure {wm} beat {wb}, snaps() gives measure {back[i].measure} beat {back[i].beat}"))
                        break
            except Exception as ex:
                fails.append(("queries_follow_shifted_changes.snap_form", f"raised {type(ex).__name__}: {ex}"))
        # (2) the tempo LIST to_timing_map() was called on: offset += shift through the list property, then played at double speed
        # (bpm *= 2, offset /= 2: the positions stay, every time is halved), then a row appended behind all others on a measure line
        lst = made.get("list")
        if tm_list is not None and lst is not None:
            try:
                before = tm_list.offsets(list(q_snaps))
                lst.offset += number(shift)
                compare("list_edit_then_to_timing_map.shifted", lst.to_timing_map().offsets(list(q_snaps)), [w + shift for w in want_ms], f"{case['list_class']} list.offset += {float(shift)}, to_timing_map() again")
                lst.bpm *= 2
                lst.offset /= 2
                compare("list_edit_then_to_timing_map.double_speed", lst.to_timing_map().offsets(list(q_snaps)), [(w + shift) / 2 for w in want_ms], f"{case['list_class']} list.offset += {float(shift)}; bpm *= 2; offset /= 2, to_timing_map() again")
                if first_ambiguous is None:
                    last = tl.c[-1]
                    m_new = last[0] + 5
                    new_bpm = Fraction(BPM_INT[(len(changes) + 3) % len(BPM_INT)])
                    tl3 = Timeline([(c[0], c[1], c[2], c[3] * 2) for c in tl.c] + [(m_new, Fraction(0), last[2], new_bpm)], (init + shift) / 2)
                    longer = lst.append(made["item"](offset=float(tl3.T[-1]), bpm=float(new_bpm), metronome=float(last[2])))
                    qs = [(m_new - 1, Fraction(0)), (m_new, Fraction(0)), (m_new + 3, Fraction(0))]
                    got = longer.to_timing_map().offsets([Snap(number(m, True), beat_value(b), number(last[2], True)) for m, b in qs])
                    for (m, b), g in zip(qs, got):
                        if not abs(float(g) - float(tl3.ms(m, b))) <= TOL_MS * max(1.0, abs(float(tl3.ms(m, b))) / 1e9):
                            fails.append(("list_edit_then_to_timing_map.appended_row", f"after the edits, {float(new_bpm)} bpm appended at {float(tl3.T[-1])} ms (measure {m_new}): measure {m} beat {b} is {float(tl3.ms(m, b))} ms by integration, offsets() {float(g)} ms"))
                            break
                # the map made BEFORE the edits is a value of its own: asked again it still answers for the list it was made from
                again = tm_list.offsets(list(q_snaps))
                if any(float(x) != float(y) for x, y in zip(before, again)):
                    fails.append(("same_map_same_answers.bpm_list", f"the map made by to_timing_map() answers {list(before)} and, asked again after later calls, {list(again)}"))
            except Exception as ex:
                fails.append(("list_edit_then_to_timing_map.completes", f"raised {type(ex).__name__}: {ex}"))
    # a change appended to the map's list (behind every other change, on a measure line) is a change of the map
    if tm_off is not None and first_ambiguous is None:
        last = tl.c[-1]
        m_new = last[0] + 7
        new_bpm = Fraction(BPM_INT[len(changes) % len(BPM_INT)])
        tl2 = Timeline(tl.c + [(m_new, Fraction(0), last[2], new_bpm)], init)
        qs = [(m_new - 1, Fraction(0)), (m_new, Fraction(0)), (m_new + 2, Fraction(1, 2) if (num != "int" and last[2] >= 1) else Fraction(0))]
        try:
            tm_off.bpm_changes_offset.append(BpmChangeOffset(number(new_bpm), number(last[2], True), number(tl2.T[-1])))
            got = tm_off.offsets([Snap(number(m, True), beat_value(b), number(last[2], True)) for m, b in qs])
            for (m, b), g in zip(qs, got):
                if not abs(float(g) - float(tl2.ms(m, b))) <= TOL_MS:
                    fails.append(("queries_follow_appended_change.offset_form", f"after appending {float(new_bpm)} bpm at {float(tl2.T[-1])} ms (measure {m_new}): measure {m} beat {b} is {float(tl2.ms(m, b))} ms by integration, offsets() {float(g)} ms"))
                    break
        except Exception as ex:
            fails.append(("queries_follow_appended_change.offset_form", f"raised {type(ex).__name__}: {ex}"))
    return fails


@bounded("C10", note="tempo lists with changes at one time (zero-length segments), metronomes varying per change, mid-measure changes, int / numpy / long-float values, extreme offsets, queries on changes / far away / none, through position form, offset form and every game's BpmList.to_timing_map() with row order and row labels varied; exact rational integration as oracle")
def engine_tempo_list_dimensions(rep):
    rng = rep.rng
    N = rep.n(500, 8000)
    rep.bound = (
        f"{N} seeded tempo lists of 1..5 changes (+ 1-2 twins at exactly the time of another change in 45%, incl. the first change): a third on measure lines with metronomes 1..8 differing per change, "
        "a third on measure lines with one metronome 1..8, a third anywhere on the 1/48 grid with one metronome; bpm 7.5..1200 incl. 123.456789 / 139.86013986013984; a quarter of the lists with python ints, "
        f"a quarter with numpy scalars; initial offset from {list(INIT_FLOAT)}; list handed over in time order / shuffled / reversed; 0, 1, 2, 3, 5 or 8 queries (+ duplicates, shuffled; list / tuple / numpy array): 25% exactly on a change, "
        "7% at position 0, 10% 50..5000 measures behind the last change, the others p/q beats with q <= 96; constructions: from_bpm_changes_snap(reseat=False) and (all on measure lines, no twins) the default, "
        f"from_bpm_changes_offset, BpmList.to_timing_map() of {list(LIST_CLASSES)} from items / from_dict with default, reversed, gappy, permuted row labels; second query set on the same map; another map built and queried in between; a change appended to the offset-form map's list, then queried; queries on a change on a measure line labelled with any metronome 1..8; osu rows in half of the lists with every other column (sample set, sample index, volume, kiai) non-default and distinct; "
        f"in 60% call - change - call again on the same objects: every change of the position-form map moved in place by a shift from {list(SHIFTS_FLOAT)} ms, the BpmList edited through its properties (offset += shift; bpm *= 2 and offset /= 2; a row appended) with to_timing_map() after each edit"
    )
    rep.rule = "a case is one (tempo list, listing order, query multiset); non-trivial with >= 2 changes and >= 1 query"
    seen = {}
    for _ in range(N):
        if rep.out_of_time(25, 300):
            break
        case = gen_engine_case(rng)
        rep.case(case, nontrivial=len(case["changes"]) >= 2 and len(case["queries"]) >= 1)
        for key in (case["mode"], "num=" + case["num"], "ties" if case["ties"] else "no_ties", "queries=0" if not case["queries"] else "queries>0", "labels=" + case["labels"], "class=" + case["list_class"],
                    "history" if case.get("history") and case["queries"] else "no_history"):
            seen[key] = seen.get(key, 0) + 1
        for what, det in run_engine_case(case):
            rep.fail(what, case, det)
    rep.extra["dimensions"] = seen


@replayer("engine_tempo_list_dimensions")
def _replay_engine(case, what):
    hit = [d for w, d in run_engine_case(case) if w == what]
    return (bool(hit), hit[0] if hit else "passes")


# ============================================================================= snappers other than the default one (two grids at once)

DEFAULT_LISTED = (1, 2, 3, 4, 5, 6, 7, 8, 9, 12, 16, 32, 64, 96)  # the documented default divisions
# complete sets 1..k: every fraction with a denominator <= k is allowed, whatever the reading of `divisions`
GRIDS_COARSE = ([1, 2, 3, 4], [4, 3, 2, 1], [1, 2, 3], [1, 2, 3, 4, 5, 6], list(range(1, 9)), list(range(12, 0, -1)), list(range(1, 17)), list(range(1, 25)))
# single / sparse fine sets: only multiples of 1/d, d listed, are used (allowed under any reading)
GRIDS_FINE = ([192], [128], [144], [120], [64, 192], [96, 192], list(range(1, 129)))
GRID_BPM = (60.0, 90.0, 120.0, 150.0, 177.5, 200.0, 333.0, 30.0, 999.5, 123.456789, 89.999)


def _on(divs, x):
    """x (beats) lies on the grid of the listed divisions: its fraction of a beat is j/d for a listed d"""
    return any((Fraction(x) * d).denominator == 1 for d in divs)


def _fr(rng, divs):
    d = rng.choice(list(divs))
    return Fraction(rng.randrange(0, d), d)


def gen_grid_case(rng):
    """A tempo list given in ms + the map's own snapper M (TimingMap.snapper; default Snapper()) + the snapper S handed to snaps() /
    beats().  Every tempo change lies a distance from the change before it that M allows (so the map itself can say where it is) -
    but for the class `off_map_grid`, where a change lies on S's grid only - and in half of the later changes on a position S does NOT
    allow.  Queries: times whose distance from the tempo change in force AND whose position in the measure are both fractions S allows
    (the time 'lies on the snap grid' however the grid is anchored)."""
    r = rng.random()
    if r < 0.35:
        m_divs, s_divs = None, list(rng.choice(GRIDS_COARSE))
    elif r < 0.6:
        m_divs, s_divs = None, list(rng.choice(GRIDS_FINE))
    elif r < 0.75:
        m_divs, s_divs = list(rng.choice(GRIDS_COARSE + GRIDS_FINE)), None
    elif r < 0.9:
        m_divs, s_divs = list(rng.choice(GRIDS_COARSE + GRIDS_FINE)), list(rng.choice(GRIDS_COARSE + GRIDS_FINE))
    else:
        m_divs = list(rng.choice(GRIDS_COARSE + GRIDS_FINE))
        s_divs = list(m_divs)
    M = m_divs or DEFAULT_LISTED
    S = s_divs or DEFAULT_LISTED
    metro = rng.randrange(1, 9)
    n = rng.choice((1, 2, 2, 3, 3, 4))
    pos = [Fraction(0)]
    off_map_grid = False
    want_off = rng.random() < 0.25
    for _ in range(n - 1):
        whole = rng.randrange(0, 3 * metro + 1)
        f = None
        if want_off:
            for _ in range(20):
                c = _fr(rng, S)
                if not _on(M, c):
                    f = c
                    break
        elif rng.random() < 0.6:
            # a position a - q with a, q on S's grid: the change itself is (mostly) NOT on S's grid, times q after it are
            for _ in range(30):
                c = (_fr(rng, S) - _fr(rng, S) - pos[-1]) % 1
                if _on(M, c) and not _on(S, pos[-1] + c):
                    f = c
                    break
        if f is None:
            f = _fr(rng, M)
        if whole + f == 0:
            whole = 1
        if not _on(M, f):
            off_map_grid = True
        pos.append(pos[-1] + whole + f)
    bpms, prev = [], None
    for _ in range(n):
        prev = rng.choice([b for b in GRID_BPM if b != prev])
        bpms.append(prev)
    queries = []
    for k in range(n):
        length = None if k == n - 1 else pos[k + 1] - pos[k]
        if _on(S, pos[k]) and rng.random() < 0.5:
            queries.append([k, "0"])
        kept = 0
        for _ in range(14):
            if kept >= 3:
                break
            span = 3 * metro if length is None else int(length) + 1
            rel = rng.randrange(0, span) + _fr(rng, S)
            if length is None and rng.random() < 0.1:
                rel += metro * rng.choice((50, 1000, 5000))
            if length is not None and rel >= length:
                continue
            if _on(S, pos[k] + rel):
                queries.append([k, str(rel)])
                kept += 1
    if queries and rng.random() < 0.6:
        queries += [list(q) for q in rng.sample(queries, min(2, len(queries)))]
    rng.shuffle(queries)
    order = list(range(n))
    if rng.random() < 0.5:
        rng.shuffle(order)
    return dict(
        map_divisions=m_divs,
        caller_divisions=s_divs,
        map_snapper_via=rng.choice(("field", "ctor")),
        divisions_as=rng.choice(("list", "tuple", "array")),
        metro=metro,
        init=rng.choice(INIT_FLOAT),
        changes=[[str(p), b] for p, b in zip(pos, bpms)],  # position in beats from the first change, bpm
        off_map_grid=off_map_grid,
        list_order=order,
        queries=queries,  # [index of the tempo change in force, beats after it]
        jitter=[round(rng.uniform(0.01, 3), 6) for _ in queries],
        container=rng.choice(("list", "tuple", "array")),
        list_class=rng.choice(LIST_CLASSES),
    )


def run_grid_case(case):
    import numpy as np

    from reamber.algorithms.timing.TimingMap import TimingMap
    from reamber.algorithms.timing.utils.BpmChangeOffset import BpmChangeOffset
    from reamber.algorithms.timing.utils.BpmChangeSnap import BpmChangeSnap
    from reamber.algorithms.timing.utils.Snapper import Snapper
    from reamber.algorithms.timing.utils.snap import Snap

    M = case["map_divisions"] or DEFAULT_LISTED
    S = case["caller_divisions"] or DEFAULT_LISTED
    metro = int(case["metro"])
    init = Fraction(case["init"])
    pos = [Fraction(p) for p, _ in case["changes"]]
    bpm = [Fraction(repr(float(b))) for _, b in case["changes"]]
    n = len(pos)
    T = [init]
    for k in range(n - 1):
        T.append(T[-1] + (pos[k + 1] - pos[k]) * 60000 / bpm[k])
    on_map_grid = all(_on(M, pos[k + 1] - pos[k]) for k in range(n - 1))
    fam = "callers_snapper" if on_map_grid else "change_off_map_grid"
    slow = float(min(bpm))

    def given(divs):
        return {"tuple": tuple(divs), "array": np.array(divs)}.get(case.get("divisions_as"), list(divs))

    def new_snapper(divs):
        return Snapper() if divs is None else Snapper(divisions=given(divs))

    # ---- the queries asserted: on S's grid from the tempo change in force AND from the measure line
    qs = []
    for (k, rel), jit in zip(case["queries"], case["jitter"]):
        rel = Fraction(rel)
        p = pos[k] + rel
        if not (_on(S, rel) and _on(S, p)) or (k < n - 1 and rel >= pos[k + 1] - pos[k]):
            continue
        if not on_map_grid and k < n - 1 and (pos[k + 1] - pos[k]) - rel < Fraction(2, max(M)):
            # right in front of a change the map's own grid cannot place, a time has no position of its own on that grid
            continue
        qs.append((k, rel, T[k] + rel * 60000 / bpm[k], (int(p // metro), p % metro), jit))
    all_qs = qs

    def container(items):
        if case["container"] == "tuple":
            return tuple(items)
        if case["container"] == "array":
            return np.array(items)
        return list(items)

    fails = []

    def observe(tm, con):
        def bad(what, detail):
            fails.append((f"{what}.{con}", detail))

        # (a map made from POSITIONS works out the ms of its changes itself, in floats: a time meant to lie exactly on a later change may
        # be one float step in front of it, i.e. in the section before, where it need not lie on the caller's grid - not asked there)
        qs = [q for q in all_qs if not (con == "snap_form" and q[0] > 0 and q[1] == 0)]
        times = [float(q[2]) for q in qs]
        sn = new_snapper(case["caller_divisions"])
        how = f"map snapper {case['map_divisions'] or 'default'}, snaps(.., Snapper({case['caller_divisions'] or 'default'}))"
        try:
            back = tm.snaps(container(times), sn)
            again = tm.offsets(list(back))
        except Exception as ex:
            return bad("callers_snapper_completes", f"{how}: offsets(snaps({times})) raised {type(ex).__name__}: {ex}")
        if len(back) != len(qs) or len(again) != len(qs):
            return bad("callers_snapper_completes", f"{len(qs)} queries, {len(back)} positions, {len(again)} times")
        if on_map_grid:
            for i, q in enumerate(qs):
                wm, wb = q[3]
                if not (int(back[i].measure) == wm and abs(float(Fraction(back[i].beat) - wb)) <= TOL_BEAT):
                    bad("ms_to_position_callers_snapper", f"{how}: query {i} = {times[i]} ms ({q[1]} beats after change {q[0]}) is measure {wm} beat {wb} by integration, snaps() gives measure {back[i].measure} beat {back[i].beat}")
                    break
        for i, q in enumerate(qs):
            if not abs(float(again[i]) - times[i]) <= TOL_MS:
                bad("grid_time_round_trip_" + fam, f"{how}: query {i} = {times[i]} ms ({q[1]} beats after change {q[0]}, measure {q[3][0]} beat {q[3][1]}) lies on the snap grid, ms -> position -> ms gives {float(again[i])} ms ({(float(again[i]) - times[i]) * float(bpm[q[0]]) / 60000} beats off)")
                break
        if not on_map_grid:
            return
        # ---- positions -> ms with the map's own snapper
        try:
            got = tm.offsets(container_snaps([Snap(q[3][0], q[3][1], metro) for q in qs]))
        except Exception as ex:
            return bad("position_to_ms_own_snapper", f"{how}: offsets() raised {type(ex).__name__}: {ex}")
        for i, q in enumerate(qs):
            if len(got) != len(qs) or not abs(float(got[i]) - times[i]) <= TOL_MS:
                bad("position_to_ms_own_snapper", f"{how}: query {i} = measure {q[3][0]} beat {q[3][1]}: integration gives {times[i]} ms, offsets() {list(got)[i:i + 1]}")
                break
        # ---- cumulative beats: differences are the beat distance
        try:
            beats = tm.beats(container(times), sn)
        except Exception as ex:
            return bad("cumulative_beats_callers_snapper", f"{how}: beats({times}) raised {type(ex).__name__}: {ex}")
        if len(beats) != len(qs):
            return bad("cumulative_beats_callers_snapper", f"{len(qs)} queries, {len(beats)} results")
        cum = [pos[q[0]] + q[1] for q in qs]
        for i in range(len(qs)):
            j = (i + 1) % len(qs)
            if not abs(float(Fraction(beats[i]) - Fraction(beats[j])) - float(cum[i] - cum[j])) <= TOL_BEAT:
                bad("cumulative_beats_callers_snapper", f"{how}: queries {i}, {j} ({times[i]} ms, {times[j]} ms): {float(cum[i] - cum[j])} beats apart by integration, beats() differ by {beats[i] - beats[j]}")
                break
        # ---- off the grid: back within 1/192 beat, for snappers at least as fine as 1/96
        if max(S) >= 96:
            off = [t + q[4] for t, q in zip(times, qs)]
            try:
                again = tm.offsets(list(tm.snaps(off, sn)))
            except Exception as ex:
                return bad("offgrid_time_round_trip_callers_snapper", f"{how}: offsets(snaps({off})) raised {type(ex).__name__}: {ex}")
            for i, t in enumerate(off):
                if not abs(float(again[i]) - t) <= 60000 / slow / 192 + TOL_MS:
                    bad("offgrid_time_round_trip_callers_snapper", f"{how}: query {i}: {t} ms -> position -> {float(again[i])} ms, more than 1/192 beat at {slow} bpm away")
                    break

    def container_snaps(items):
        if case["container"] == "tuple":
            return tuple(items)
        if case["container"] == "array":
            a = np.empty(len(items), dtype=object)
            for i, s in enumerate(items):
                a[i] = s
            return a
        return list(items)

    def with_own_snapper(tm):
        if case["map_divisions"] is not None:
            tm.snapper = new_snapper(case["map_divisions"])
        return tm

    def bco_list():
        return [BpmChangeOffset(float(bpm[k]), metro, float(T[k])) for k in case["list_order"]]

    def offset_form():
        if case["map_divisions"] is not None and case["map_snapper_via"] == "ctor":
            # (the dataclass constructor gets the list in time order: only the factory is documented to sort)
            return TimingMap(bpm_changes_offset=sorted(bco_list(), key=lambda b: b.offset), snapper=new_snapper(case["map_divisions"]))
        return with_own_snapper(TimingMap.from_bpm_changes_offset(bco_list()))

    def bpm_list():
        L, I = _list_class(case["list_class"])
        return with_own_snapper(L([I(offset=float(T[k]), bpm=float(bpm[k]), metronome=metro) for k in case["list_order"]]).to_timing_map())

    def snap_form():
        lst = [BpmChangeSnap(float(bpm[k]), metro, Snap(int(pos[k] // metro), pos[k] % metro, metro)) for k in case["list_order"]]
        return with_own_snapper(TimingMap.from_bpm_changes_snap(float(init), lst, reseat=False))

    for con, build in (("offset_form", offset_form), ("bpm_list", bpm_list), ("snap_form", snap_form)):
        if con == "snap_form" and not on_map_grid:
            continue
        try:
            tm = build()
        except Exception as ex:
            fails.append((f"callers_snapper_construction_completes.{con}", f"{type(ex).__name__}: {ex}"))
            continue
        observe(tm, con)
    return fails


@bounded("C10", note="two grids at once: the map's own snapper (TimingMap.snapper) and the snapper handed to snaps() / beats() coarser or finer than the default and different from each other, tempo changes on positions only one of the grids allows; times on the caller's grid go ms -> position -> ms unchanged, positions / cumulative beats are those of exact integration")
def engine_two_snapper_grids(rep):
    rng = rep.rng
    N = rep.n(300, 6000)
    rep.bound = (
        f"{N} seeded tempo lists of 1..4 changes given in ms (constant metronome 1..8, bpm from {list(GRID_BPM)}, initial offset from {list(INIT_FLOAT)}, handed over shuffled in half), with (map's snapper, caller's snapper): 35% (default, complete 1..k with k in 3..24), "
        f"25% (default, fine: {[g if len(g) < 10 else '1..' + str(max(g)) for g in GRIDS_FINE]}), 15% (coarse or fine, default), 15% (any, any), 10% the same non-default one twice; the map's snapper given to the constructor or assigned to the field, divisions as list / tuple / numpy array; "
        "every later change a whole number of beats (0..3 measures) + a fraction after the one before: 25% of the lists a fraction only the CALLER's grid allows (k + 1/192, k + 5/144 ... : class change_off_map_grid, only ms -> position -> ms asserted, not for times less than 2 grid steps in front of such a change), "
        "otherwise a fraction the map's grid allows, in 60% chosen as a - q (a, q on the caller's grid) so that the change itself is NOT on the caller's grid while times q beats after it are (k + 1/8, k + 1/12, k + 1/32 against thirds / quarters / 192nds); "
        "queries: up to 3 + the change itself per tempo section, each a fraction the caller's grid allows after the change in force AND at a position in the measure the caller's grid allows, 10% of the last section's 50..5000 measures on, duplicates, shuffled, list / tuple / numpy array; "
        f"through from_bpm_changes_offset / TimingMap(...), {list(LIST_CLASSES)} BpmList.to_timing_map() and (changes on the map's grid) from_bpm_changes_snap(reseat=False)"
    )
    rep.rule = "a case is one (tempo list, map snapper, caller snapper, query multiset); non-trivial with >= 2 changes, >= 1 asserted query behind the first change and two different grids"
    seen = {}
    for _ in range(N):
        if rep.out_of_time(20, 240):
            break
        case = gen_grid_case(rng)
        later = any(k > 0 for k, _ in case["queries"])
        rep.case(case, nontrivial=len(case["changes"]) >= 2 and later and case["map_divisions"] != case["caller_divisions"])
        for key in ("off_map_grid" if case["off_map_grid"] else "on_map_grid", "map=" + ("default" if case["map_divisions"] is None else "own"), "caller=" + ("default" if case["caller_divisions"] is None else "own"), "later_section_queries" if later else "first_section_only"):
            seen[key] = seen.get(key, 0) + 1
        for what, det in run_grid_case(case):
            rep.fail(what, case, det)
    rep.extra["dimensions"] = seen


@replayer("engine_two_snapper_grids")
def _replay_grids(case, what):
    hit = [d for w, d in run_grid_case(case) if w == what]
    return (bool(hit), hit[0] if hit else "passes")


# ============================================================================= Snapper


DIVISION_SETS = (
    [(1,), (2,), (3,), (4,), (7,), (16,), (48,), (96,), (2, 3), (3, 2), (4, 16), (16, 4), (5, 7), (12, 16, 24), (1, 2, 4, 8, 16), (16, 8, 4, 2, 1), (3, 6, 12, 24, 48), (9, 1, 5), (128,), (192,), (64, 192), (144, 3)]
)


def gen_snapper_case(rng):
    r = rng.random()
    if r < 0.15:
        divs, complete = None, False  # the default
    elif r < 0.55:
        k = rng.choice((1, 2, 3, 4, 5, 6, 8, 12, 16, 24))
        divs = list(range(1, k + 1))
        rng.shuffle(divs)
        complete = True
    else:
        divs, complete = list(rng.choice(DIVISION_SETS)), False
    top = 96 if divs is None else max(divs)
    r = rng.random()
    whole = rng.choice((0, 0, 0, 1, 3, 7, 1000, 123456))
    if r < 0.3:  # on the grid
        d = rng.randrange(1, top + 1)
        x = Fraction(rng.randrange(0, d + 1), d)
    elif r < 0.45:  # halfway between two neighbouring fractions of the finest division, and next to it
        x = Fraction(2 * rng.randrange(0, top) + 1, 2 * top) + rng.choice((0, 0, Fraction(1, 10**7), -Fraction(1, 10**7)))
    elif r < 0.55:
        x = 1 - Fraction(1, rng.choice((10**3, 10**6, 10**9, 97, 193)))
    elif r < 0.62:
        x = Fraction(rng.choice((0, 1)))
    else:
        x = Fraction(rng.randrange(0, 10**6), 10**6)
    x += whole
    flavour = rng.choice(("fraction", "float", "numpy", "float"))
    if x.denominator == 1 and rng.random() < 0.5:
        flavour = "int"
    return dict(divisions=divs, complete=complete, given_as=rng.choice(("tuple", "list", "array", "range" if complete and divs == sorted(divs) else "tuple")), x=str(x), flavour=flavour)


def run_snapper_case(case):
    import numpy as np

    from reamber.algorithms.timing.utils import Snapper as snapper_module
    from reamber.algorithms.timing.utils.Snapper import Snapper

    divs = case["divisions"]
    x = Fraction(case["x"])
    if case["flavour"] == "float":
        arg = float(x)
    elif case["flavour"] == "numpy":
        arg = np.float64(float(x))
    elif case["flavour"] == "int":
        arg = int(x)
    else:
        arg = x
    x = Fraction(arg)  # the value actually handed over
    if divs is None:
        given = None
        listed = (1, 2, 3, 4, 5, 6, 7, 8, 9, 12, 16, 32, 64, 96)  # the documented default divisions
    else:
        listed = tuple(divs)
        given = {"tuple": tuple(divs), "list": list(divs), "array": np.array(divs), "range": range(1, max(divs) + 1)}[case["given_as"]]
    top = max(listed)
    fl = floor(x)
    fr = x - fl

    def nearest(dens):
        return min(abs(Fraction(a, d) - fr) for d in dens for a in range(0, d + 1))

    d_listed = nearest(listed)
    d_all = nearest(range(1, top + 1)) if case["complete"] else None
    eps = Fraction(1, 10**9)
    fails = []

    def judge(snap_fn, sfx):
        try:
            r = snap_fn(arg)
        except Exception as ex:
            fails.append(("snap_completes" + sfx, f"snap({arg!r}) raised {type(ex).__name__}: {ex}"))
            return
        r = Fraction(r)
        if (r - floor(r)).denominator > top:
            fails.append(("snap_denominator_allowed" + sfx, f"snap({arg!r}) = {r}: denominator above the finest division {top}"))
        if abs(r - x) > d_listed + eps:
            fails.append(("snap_not_farther_than_listed_divisions" + sfx, f"snap({arg!r}) = {r} is {float(abs(r - x))} away; a fraction with a listed denominator {listed} is {float(d_listed)} away"))
        if d_all is not None and abs(r - x) > d_all + eps:
            fails.append(("snap_nearest_allowed" + sfx, f"snap({arg!r}) = {r} is {float(abs(r - x))} away; the nearest fraction with denominator <= {top} is {float(d_all)} away"))
        try:
            r2 = Fraction(snap_fn(r))
        except Exception as ex:
            fails.append(("snap_idempotent" + sfx, f"snap({r}) raised {type(ex).__name__}: {ex}"))
            return
        if r2 != r:
            fails.append(("snap_idempotent" + sfx, f"snap({arg!r}) = {r}, snap({r}) = {r2}"))

    sn = Snapper() if given is None else Snapper(divisions=given)
    judge(sn.snap, "")
    judge(sn.snap, "")  # the same Snapper asked twice
    if given is None:
        judge(lambda v: snapper_module.snap(v), ".function")
    else:
        judge(lambda v: snapper_module.snap(v, divisions=given), ".function")
    seen, out = set(), []
    for f in fails:
        if f[0] not in seen:
            seen.add(f[0])
            out.append(f)
    return out


@bounded("C10", note="Snapper(divisions).snap and the module function snap(value, divisions) for division sets of every shape and values of every numeric flavour: nearest allowed fraction, idempotent")
def snapper_divisions_and_values(rep):
    rng = rep.rng
    N = rep.n(600, 12000)
    rep.bound = (
        f"{N} seeded (division set, value) pairs: 15% the default divisions, 40% complete sets 1..k (k in 1..24, any order, as tuple / list / numpy array / range), 45% from {len(DIVISION_SETS)} single / sparse / unordered sets (coarser and finer - up to 1/192 - than the default); "
        "values on the grid, halfway between neighbours (+- 1e-7), just below 1, 0 and 1, random 6-digit decimals, whole part 0..123456; given as Fraction / float / numpy float / int; method and module function, the method twice"
    )
    rep.rule = "a case is one (division set, value); every case is non-trivial"
    for _ in range(N):
        if rep.out_of_time(15, 200):
            break
        case = gen_snapper_case(rng)
        rep.case(case)
        for what, det in run_snapper_case(case):
            rep.fail(what, case, det)


@replayer("snapper_divisions_and_values")
def _replay_snapper(case, what):
    hit = [d for w, d in run_snapper_case(case) if w == what]
    return (bool(hit), hit[0] if hit else "passes")
