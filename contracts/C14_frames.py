"""C14 - operations never modify their inputs.

Deductive part: frame clauses (`assigns nothing` on the receiver / arguments, result shares no frame with them)
as postconditions over the static-shape frame model, on the REAL source of the list operations, rate,
ConvertBase.cast (contracts/C08_convert.py: source_untouched), the converters (source_untouched) and
sv_normalize.  The model tracks in-place frame mutation exactly (column assignment, loc/iloc stores, attribute
stores), so an in-place edit of an argument falsifies `unchanged`.  All other listed operations (writers,
full_ln, hitsound_copy, scroll_speed, dominant_bpm, patterns) only by the dynamic twin contracts/C14_bounded.py.
"""
from pyvc.dsl import contract, lemma, bounded, Int, Real, Bool, Obj, Const, Choice, ListT, TimedListT, MapT, resolve
from pyvc.ghost import rows, labels, columns, unchanged, implies, eqr
from contracts.C16_lists import lists_of, BASIC, HOLDS, _rand_list, TL, HL, SHAPE_NOTE

SIZES = [0, 1, 2]


def _fresh(result, self):
    return result is not self and result.df is not self.df


def _frame_contract(name, target, args, wit, doc):
    class _C:
        __doc__ = doc
        assumes = SHAPE_NOTE

        def ensures_receiver_untouched(self, result, old):
            return unchanged(self, old.self)

        def ensures_result_is_a_new_list(self, result, old):
            return _fresh(result, self)

        def witnesses(rng):
            return wit(rng)

    _C.__name__ = _C.__qualname__ = name
    return contract("C14", target, args=args)(_C)


_frame_contract("after_frame", TL + ".after", dict(self=lists_of(BASIC[:2], SIZES), offset=Real(), include_end=Choice([True, False])),
                lambda rng: [dict(self=_rand_list(rng, rng.choice(BASIC)), offset=float(rng.choice([0, 100, 99999])), include_end=rng.random() < 0.5) for _ in range(40)],
                "after(): the receiver keeps values, fields and labels; the result is a new list")
_frame_contract("before_frame", TL + ".before", dict(self=lists_of(BASIC[:2], SIZES), offset=Real(), include_end=Choice([True, False])),
                lambda rng: [dict(self=_rand_list(rng, rng.choice(BASIC)), offset=float(rng.choice([0, 100, 99999])), include_end=rng.random() < 0.5) for _ in range(40)],
                "before(): frame clause")
_frame_contract("sorted_frame", TL + ".sorted", dict(self=lists_of(BASIC[:2] + HOLDS[:1], SIZES), reverse=Choice([False, True])),
                lambda rng: [dict(self=_rand_list(rng, rng.choice(BASIC + HOLDS)), reverse=rng.random() < 0.5) for _ in range(40)],
                "sorted(): frame clause (the receiver is not sorted in place)")
_frame_contract("move_start_to_frame", TL + ".move_start_to", dict(self=lists_of(BASIC[:2], [1, 2]), to=Real()),
                lambda rng: [dict(self=_rand_list(rng, rng.choice(BASIC), n=rng.randrange(1, 4)), to=float(rng.choice([0, -50, 1234.5]))) for _ in range(40)],
                "move_start_to(): documented as returning a copy")
_frame_contract("move_end_to_frame", TL + ".move_end_to", dict(self=lists_of(BASIC[:2], [1, 2]), to=Real()),
                lambda rng: [dict(self=_rand_list(rng, rng.choice(BASIC), n=rng.randrange(1, 4)), to=float(rng.choice([0, -50, 1234.5]))) for _ in range(40)],
                "move_end_to(): documented as returning a copy")
_frame_contract("deepcopy_frame", TL + ".deepcopy", dict(self=lists_of(BASIC[:2] + HOLDS[:1], SIZES)),
                lambda rng: [dict(self=_rand_list(rng, rng.choice(BASIC + HOLDS))) for _ in range(40)],
                "deepcopy(): a new list with a new frame")
_frame_contract("hold_after_frame", HL + ".after", dict(self=lists_of(HOLDS[:1], SIZES), offset=Real(), include_end=Choice([True, False]), include_tail=Choice([True, False])),
                lambda rng: [dict(self=_rand_list(rng, rng.choice(HOLDS)), offset=float(rng.choice([0, 100, 600])), include_end=rng.random() < 0.5, include_tail=rng.random() < 0.5) for _ in range(40)],
                "HoldList.after(): frame clause")
_frame_contract("hold_before_frame", HL + ".before", dict(self=lists_of(HOLDS[:1], SIZES), offset=Real(), include_end=Choice([True, False]), include_head=Choice([True, False])),
                lambda rng: [dict(self=_rand_list(rng, rng.choice(HOLDS)), offset=float(rng.choice([0, 100, 600])), include_end=rng.random() < 0.5, include_head=rng.random() < 0.5) for _ in range(40)],
                "HoldList.before(): frame clause")


@contract("C14", TL + ".append", args=dict(self=lists_of(BASIC[:2], SIZES), val=lists_of(BASIC[:1], SIZES), sort=Choice([False, True])))
class append_frame:
    """append(): neither the receiver nor the appended list changes; the result is a new list."""

    assumes = SHAPE_NOTE

    def ensures_both_inputs_untouched(self, val, sort, result, old):
        return unchanged(self, old.self) and unchanged(val, old.val)

    def ensures_result_is_a_new_list(self, val, sort, result, old):
        return _fresh(result, self) and result.df is not val.df

    def witnesses(rng):
        for _ in range(60):
            c = rng.choice(BASIC + HOLDS)
            yield dict(self=_rand_list(rng, c), val=_rand_list(rng, c), sort=rng.random() < 0.5)


@lemma("C14", args=dict(self=lists_of(BASIC[:2], [1, 2]), d=Real()))
class copies_share_no_state:
    """Changing a result documented as a copy afterwards does not change the input: deepcopy / sorted / after /
    move_start_to results are edited in place and the receiver is compared with its old state."""

    assumes = SHAPE_NOTE

    def body(self, d):
        a = self.deepcopy()
        a.offset += d
        b = self.sorted()
        b.offset += d
        c = self.after(-1e18)
        c.offset += d
        e = self.move_start_to(0)
        e.offset += d
        return (a, b, c, e)

    def ensures_input_independent_of_later_edits(self, d, result, old):
        return unchanged(self, old.self)

    def witnesses(rng):
        for _ in range(40):
            yield dict(self=_rand_list(rng, rng.choice(BASIC), n=rng.randrange(1, 4)), d=float(rng.choice([1, -5.5])))


# ----------------------------------------------------------------------------- bounded: separate charts share no state

from pyvc.bounded import replayer  # noqa: E402

_CHARTS = {
    "osu": "reamber.osu.OsuMap:OsuMap", "qua": "reamber.quaver.QuaMap:QuaMap", "sm": "reamber.sm.SMMap:SMMap",
    "bms": "reamber.bms.BMSMap:BMSMap", "o2j": "reamber.o2jam.O2JMap:O2JMap", "base": "reamber.base.Map:Map",
}
_SETS = {"sm": "reamber.sm.SMMapSet:SMMapSet", "o2j": "reamber.o2jam.O2JMapSet:O2JMapSet"}


def _two_charts_fail(case):
    """Build chart A, snapshot it, then create / fill / read chart B of the same class: A must not change."""
    import random

    from contracts.C16_lists import _rand_list

    rng = random.Random(case["seed"])
    cls = resolve(_CHARTS[case["game"]])
    out = []

    def snap(m):
        return {k: (v.df.to_dict("records"), list(v.df.columns), v.df.index.tolist()) for k, v in m.objs.items()}

    a = cls()
    for name in list(a.objs):
        setattr(a, name, _rand_list(rng, type(a.objs[name]), n=rng.randrange(1, 4)))
    before = snap(a)
    b = cls()
    how = case["how"]
    if how == "assign":
        for name in list(b.objs):
            setattr(b, name, _rand_list(rng, type(b.objs[name]), n=rng.randrange(0, 4)))
    elif how == "fresh":
        pass
    elif how == "rate":
        b = a.rate(2.0)
        for name in list(b.objs):
            setattr(b, name, _rand_list(rng, type(b.objs[name]), n=1))
    if snap(a) != before:
        out.append(("separate_charts_share_no_state", f"{case['game']}: chart A changed after a second chart was made ({how}) and filled"))
    c = cls()
    if any(len(v) for v in c.objs.values()):
        out.append(("new_chart_starts_empty", f"{case['game']}: a new chart starts with {[len(v) for v in c.objs.values()]} rows"))
    return out


def _two_charts(rep, pid):
    rep.bound = "6 chart classes x 3 ways of making a second chart (assign lists / fresh instance / rate) x seeds"
    rep.rule = "a case is (class, way, seed); all non-trivial"
    for game in _CHARTS:
        for how in ("assign", "fresh", "rate"):
            for seed in range(rep.n(4, 40)):
                case = dict(game=game, how=how, seed=seed)
                rep.case(case)
                for what, d in _two_charts_fail(case):
                    rep.fail(what, case, d)


@bounded("C14", note="two charts of the same class share no mutable state: filling a second chart never changes the first")
def separate_charts_share_no_state(rep):
    _two_charts(rep, "C14")


@replayer("separate_charts_share_no_state")
def _r_two(case, what):
    hit = [d for w, d in _two_charts_fail(case) if w == what]
    return (bool(hit), hit[0] if hit else "passes")


def _bms_write_fields_fail(case):
    """write() of a BMS chart leaves its dataclass fields alone - also for a chart with holds and no LN end marker."""
    import copy
    import dataclasses
    import warnings
    from reamber.bms.BMSMap import BMSMap
    from reamber.bms.BMSHit import BMSHit
    from reamber.bms.BMSHold import BMSHold
    from reamber.bms.BMSBpm import BMSBpm
    from reamber.bms.lists.notes.BMSHitList import BMSHitList
    from reamber.bms.lists.notes.BMSHoldList import BMSHoldList
    from reamber.bms.lists.BMSBpmList import BMSBpmList
    from reamber.bms.BMSChannel import BMSChannel

    m = BMSMap()
    m.bpms = BMSBpmList([BMSBpm(0, 120)])
    m.hits = BMSHitList([BMSHit(0, 1)] if case["hits"] else [])
    m.holds = BMSHoldList([BMSHold(1000, 2, 500)] if case["holds"] else [])
    m.ln_end_channel = case["lnobj"].encode()
    m.title, m.artist, m.version = case["title"], b"a", b"1"
    before = {f.name: copy.deepcopy(getattr(m, f.name)) for f in dataclasses.fields(m) if f.name != "objs"}
    with warnings.catch_warnings():
        warnings.simplefilter("ignore")
        try:
            m.write(getattr(BMSChannel, case["layout"]))
        except Exception:
            pass  # whether it can be written is C05's matter; the input must be untouched either way
    after = {f.name: getattr(m, f.name) for f in dataclasses.fields(m) if f.name != "objs"}
    bad = [k for k in before if before[k] != after[k] or type(before[k]) is not type(after[k])]
    return [("write_leaves_chart_fields_alone", f"BMSMap.write changed the field(s) {bad}: {[(before[k], after[k]) for k in bad]}")] if bad else []


@bounded("C14", note="BMSMap.write leaves the chart's dataclass fields alone (charts with / without holds, with / without an LN end marker, str and bytes titles)")
def bms_write_leaves_fields_alone(rep):
    rep.bound = "2 x 2 x 3 x 2 x 2 charts"
    rep.rule = "a case is (hits?, holds?, LN marker, title type, layout); all non-trivial"
    rep.exhaustive = True
    for hits in (True, False):
        for holds in (True, False):
            for lnobj in ("", "ZZ", "0Z"):
                for title in ("t", b"t"):
                    for layout in ("BME", "PMS"):
                        if not hits and not holds:
                            continue
                        case = dict(hits=hits, holds=holds, lnobj=lnobj, title=title if isinstance(title, str) else "bytes:t", layout=layout)
                        run = dict(case, title=title)
                        rep.case(case)
                        for what, d in _bms_write_fields_fail(run):
                            rep.fail(what, case, d)


@replayer("bms_write_leaves_fields_alone")
def _r_bmsw(case, what):
    run = dict(case, title=b"t" if case["title"].startswith("bytes:") else case["title"])
    hit = [d for w, d in _bms_write_fields_fail(run) if w == what]
    return (bool(hit), hit[0] if hit else "passes")
