"""C15 bounded stand-in: a chart is a set of timed objects - results do not depend on row order.

For every listed operation f: f(chart) is compared with f(chart whose lists have their rows permuted).  Writers are compared
(a) through the library's own reader, as multisets of objects, and (b) on the written text with a small independent reading of
each format in which only order-insensitive parts are compared as multisets.  Other results are compared as multisets of rows /
as values.

Again-cases (`again: true`): every operation is first called on the chart in its original order, then the lists of that SAME chart object
are replaced by re-ordered ones, then every operation is called again on it (nothing kept from the first call may show).  write_file is also
run on a path that already holds another, longer file (and twice); a converted chart is written twice; the ...ToBMS converters also get a
negative column shift (on notes moved right before)."""
from __future__ import annotations

import collections
import copy
import itertools
import json
import math
import warnings
from fractions import Fraction

import numpy as np
import pandas as pd

from pyvc.dsl import bounded
from pyvc.bounded import replayer

from contracts.C12_bounded import GAMES, build, snapshot, std_spec, chart_lists, game_table, _cell

warnings.filterwarnings("ignore")

LIST_ORDER = ["hits", "holds", "bpms", "svs", "samples", "stops", "mines", "rolls", "fakes", "lifts", "keysounds"]


# ---------------------------------------------------------------------------------------------------------------- permuting
def _perm_list(lst, perm, mode):
    """the same rows in another order.
    'iloc'    rows re-ordered, row labels travel with the rows (as a sort leaves them)
    'reset'   rows re-ordered, fresh labels 0..n-1 (unsorted construction)
    'append'  built by appending one-row lists in the permuted order without sorting
    'sorted'  unsorted construction (fresh labels) put back in time order by the library's sort: rows in time order, labels permuted
    'append_sort'  built by appending one-row lists in the permuted order, each with sort=True
    'concat'  two lists (each with labels 0..k-1) concatenated by the library's append, the later half of the order first"""
    cls = type(lst)
    if len(lst) == 0:
        return lst
    if mode == "iloc":
        return cls(lst.df.iloc[list(perm)])
    if mode == "reset":
        return cls(lst.df.iloc[list(perm)].reset_index(drop=True))
    if mode == "append":
        acc = lst[perm[0]:perm[0] + 1]
        acc = cls(acc.df.reset_index(drop=True))
        for i in perm[1:]:
            acc = acc.append(lst[i:i + 1])
        return acc
    if mode == "sorted":
        return cls(lst.df.iloc[list(perm)].reset_index(drop=True)).sorted()
    if mode == "append_sort":
        acc = cls(lst[perm[0]:perm[0] + 1].df.reset_index(drop=True))
        for i in perm[1:]:
            acc = acc.append(lst[i:i + 1], sort=True)
        return acc
    if mode == "concat":
        k = len(perm) // 2
        a = cls(lst.df.iloc[list(perm[k:])].reset_index(drop=True))
        b = cls(lst.df.iloc[list(perm[:k])].reset_index(drop=True))
        return a.append(b) if len(b) else a
    raise ValueError(mode)


def _chart_of(obj):
    # the chart under test: the only chart of a one-chart mapset, or the chart at the marked place of a larger set
    return obj.maps[getattr(obj, "_c15_at", 0)] if hasattr(obj, "maps") else obj


def _int_typed(lst):
    """the same list with its whole-number time columns held as int64 (charts read from integer formats / built from ints)"""
    if len(lst) == 0:
        return lst
    cast = {c: "int64" for c in ("offset", "length") if c in lst.df.columns and all(float(x).is_integer() for x in lst.df[c])}
    return type(lst)(lst.df.astype(cast)) if cast else lst


def _make(spec, perms, mode):
    """the object under test: a chart (osu, qua, bms) or a one-chart mapset (sm, o2j), with permuted lists.
    mode 'construct' permutes the rows of the spec before construction; 'reverse_sort' uses list.sorted(reverse=True)."""
    game = spec["game"]
    sp = spec
    if perms and mode == "construct":
        sp = copy.deepcopy(spec)
        for name, perm in perms.items():
            if name in sp and len(sp[name]) == len(perm):
                sp[name] = [sp[name][i] for i in perm]
                if isinstance((sp.get("labels") or {}).get(name), list):
                    sp["labels"][name] = [sp["labels"][name][i] for i in perm]
    if game in ("sm", "o2j"):
        # spec['set_before'] / ['set_after']: other charts of the same set, around the chart under test
        before, after = list(spec.get("set_before") or []), list(spec.get("set_after") or [])
        obj = build(dict(game=game, maps=before + [{k: v for k, v in sp.items() if k not in ("set_before", "set_after")}] + after))
        obj._c15_at = len(before)
    else:
        obj = build(sp)
    m = _chart_of(obj)
    if spec.get("dtype") == "int":
        for name, l in chart_lists(m).items():
            setattr(m, name, _int_typed(l))
    _reorder(m, perms, mode)
    return obj


def _reorder(m, perms, mode):
    """the lists of the chart object m are replaced (assignment of a new list) by re-ordered ones"""
    if mode == "reverse_sort":
        for name, l in chart_lists(m).items():
            if len(l):
                setattr(m, name, l.sorted(reverse=True))
    elif perms and mode != "construct":
        ls = chart_lists(m)
        for name, perm in perms.items():
            if name in ls and len(ls[name]) == len(perm):
                setattr(m, name, _perm_list(ls[name], perm, mode))


# ---------------------------------------------------------------------------------------------------------------- canonical forms
def _num(x):
    return isinstance(x, (int, float)) and not isinstance(x, bool)


def _key(v):
    if isinstance(v, float):
        return ("f", round(v, 6)) if not math.isnan(v) else ("nan",)
    if isinstance(v, (int, bool)):
        return ("f", float(v))
    return ("o", repr(v))


def _rows(df, drop=()):
    cols = [c for c in df.columns if c not in drop and c != "index"]
    rows = []
    for r in df[cols].itertuples(index=False, name=None):
        rows.append(tuple(x.item() if isinstance(x, np.generic) else x for x in r))
    rows.sort(key=lambda r: tuple(_key(v) for v in r))
    return dict(cols=[str(c) for c in cols], rows=rows)


def _canon(obj):
    """order-free picture of a result: lists as sorted multisets of rows (labels and dtypes ignored), fields as they are"""
    from reamber.base.lists.TimedList import TimedList
    from reamber.base.Map import Map
    from reamber.base.MapSet import MapSet

    if isinstance(obj, TimedList):
        return dict(type=type(obj).__name__, **_rows(obj.df))
    if isinstance(obj, Map):
        s = snapshot(obj)
        # file-level lists are compared as lists; the .bms tempo-id table (ids are names given by the writer) is not part of the timeline
        fields = {k: v for k, v in s["fields"].items() if not (isinstance(v, dict) and v.get("kind") == "list") and k != "exbpms"}
        return dict(type=type(obj).__name__, lists={k: _canon(v) for k, v in chart_lists(obj).items()}, fields=fields)
    if isinstance(obj, MapSet):
        return dict(type=type(obj).__name__, maps=[_canon(m) for m in obj.maps], fields=snapshot(obj)["fields"])
    if isinstance(obj, (list, tuple)):
        return [_canon(x) for x in obj]
    if isinstance(obj, pd.Series):
        pairs = [(k.item() if isinstance(k, np.generic) else k, v.item() if isinstance(v, np.generic) else v) for k, v in zip(obj.index.tolist(), obj.tolist())]
        pairs.sort(key=lambda r: tuple(_key(v) for v in r))
        return dict(series=pairs)
    if isinstance(obj, np.generic):
        return obj.item()
    return obj


def _cmp(a, b, path=""):
    """first difference between two canonical forms (numbers: relative 1e-9), or None"""
    if isinstance(a, dict) and isinstance(b, dict):
        if set(a) != set(b):
            return f"{path}: keys {sorted(a)} vs {sorted(b)}"
        for k in a:
            d = _cmp(a[k], b[k], f"{path}/{k}")
            if d:
                return d
        return None
    if isinstance(a, (list, tuple)) and isinstance(b, (list, tuple)):
        if len(a) != len(b):
            return f"{path}: {len(a)} vs {len(b)} entries: {_b(a)} vs {_b(b)}"
        for i, (x, y) in enumerate(zip(a, b)):
            d = _cmp(x, y, f"{path}[{i}]")
            if d:
                return d
        return None
    if isinstance(a, collections.Counter) or isinstance(b, collections.Counter):
        return None if a == b else f"{path}: {_b(a)} vs {_b(b)}"
    if _num(a) and _num(b):
        na, nb = (isinstance(a, float) and math.isnan(a)), (isinstance(b, float) and math.isnan(b))
        if na or nb:
            return None if na and nb else f"{path}: {a!r} vs {b!r}"
        return None if a == b or abs(a - b) <= 1e-9 * max(abs(a), abs(b)) else f"{path}: {a!r} vs {b!r}"
    try:
        same = bool(a == b)
    except Exception:
        same = repr(a) == repr(b)
    return None if same else f"{path}: {_b(a)} vs {_b(b)}"


def _b(x, n=200):
    s = repr(x)
    return s if len(s) <= n else s[:n] + "..."


# ---------------------------------------------------------------------------------------------------------------- text readings
def _osu_text(lines):
    text = "\n".join(lines).split("\n")
    i, j = text.index("[TimingPoints]"), text.index("[HitObjects]")
    return dict(header=collections.Counter(text[:i]), timing_points=collections.Counter(x for x in text[i + 1:j] if x), hit_objects=collections.Counter(x for x in text[j + 1:] if x))


def _qua_text(text):
    import yaml

    d = yaml.safe_load(text)
    out = {}
    for k, v in d.items():
        if k in ("TimingPoints", "SliderVelocities", "HitObjects"):
            out[k] = collections.Counter(json.dumps(r, sort_keys=True) for r in v)
        else:
            out[k] = v
    out["_lines"] = collections.Counter(text.split("\n"))
    return out


def _sm_text(text):
    out = []
    for tok in text.split(";"):
        t = tok.strip()
        if t.startswith("#BPMS:") or t.startswith("#STOPS:"):
            head, body = t.split(":", 1)
            out.append((head, tuple(sorted(x.strip() for x in body.split(",") if x.strip()))))
        else:
            out.append(t)
    return out


def _bms_text(b):
    """channel lines as a multiset of (measure, channel, position in the measure, value) with tempo ids resolved through the
    #BPMxx table; the header #BPM is overridden by a tempo event at measure 0 position 0 (as the format has it)"""
    text = b.decode("shift_jis")
    header, table, raw = {}, {}, []
    for line in text.split("\r\n"):
        if not line.startswith("#"):
            continue
        if len(line) > 7 and line[1:4].isdigit() and line[6] == ":":
            raw.append((int(line[1:4]), line[4:6], line[7:]))
            continue
        k, _, v = line[1:].partition(" ")
        if k.upper().startswith("BPM") and len(k) == 5:
            table[k[3:]] = float(v)
        else:
            header[k] = v
    ev = collections.Counter()
    first = None
    for measure, ch, data in raw:
        if ch == "02":
            ev[(measure, ch, 0, float(data))] += 1
            continue
        pairs = [data[i:i + 2] for i in range(0, len(data), 2)]
        for i, pr in enumerate(pairs):
            if pr == "00":
                continue
            pos = Fraction(i, len(pairs))
            val = table.get(pr, pr) if ch == "08" else (int(pr, 16) if ch == "03" else pr)
            if ch in ("08", "03") and measure == 0 and pos == 0:
                first = val
            ev[(measure, ch, pos, val)] += 1
    initial = first if first is not None else float(header.get("BPM", "nan"))
    header.pop("BPM", None)
    return dict(header=header, events=ev, initial_bpm=initial)


# ---------------------------------------------------------------------------------------------------------------- operations
def _ops(game):
    """[(name, clause, fn(obj) -> canonical value)]; obj is a chart (osu, qua, bms) or a one-chart mapset (sm, o2j)"""
    from reamber.algorithms.generate.full_ln import full_ln
    from reamber.algorithms.generate.sv_normalize import sv_normalize
    from reamber.algorithms.analysis.scroll_speed import scroll_speed
    from reamber.algorithms.utils.dominant_bpm import dominant_bpm
    from reamber.algorithms.convert import (BMSToOsu, BMSToQua, BMSToSM, O2JToBMS, O2JToOsu, O2JToQua, O2JToSM, OsuToBMS, OsuToQua, OsuToSM,
                                            QuaToBMS, QuaToOsu, QuaToSM, SMToBMS, SMToOsu, SMToQua)

    ops = []

    def add(name, fn, clause=None):
        ops.append((name, clause or name, fn))

    c = _chart_of
    if game == "osu":
        from reamber.osu.OsuMap import OsuMap

        add("write_reread", lambda o: _canon(OsuMap.read(o.write())), "osu_write_reread")
        add("write_text", lambda o: _osu_text(o.write()), "osu_write_text")
        for nm, f in (("OsuToQua", lambda o: OsuToQua.convert(o, raise_bad_mode=False)), ("OsuToSM", lambda o: OsuToSM.convert(o, raise_bad_mode=False)), ("OsuToBMS", lambda o: OsuToBMS.convert(o, 1))):
            add("convert_" + nm, (lambda o, f=f: _canon(f(o))))
    if game == "qua":
        from reamber.quaver.QuaMap import QuaMap

        add("write_reread", lambda o: _canon(QuaMap.read(o.write())), "qua_write_reread")
        add("write_text", lambda o: _qua_text(o.write()), "qua_write_text")
        for nm, f in (("QuaToOsu", lambda o: QuaToOsu.convert(o)), ("QuaToSM", lambda o: QuaToSM.convert(o)), ("QuaToBMS", lambda o: QuaToBMS.convert(o, 1))):
            add("convert_" + nm, (lambda o, f=f: _canon(f(o))))
    if game == "bms":
        from reamber.bms.BMSMap import BMSMap

        add("write_reread", lambda o: _canon(BMSMap.read(o.write().decode("shift_jis").split("\r\n"))), "bms_write_reread")
        add("write_text", lambda o: _bms_text(o.write()), "bms_write_text")
        for nm, f in (("BMSToOsu", lambda o: BMSToOsu.convert(o)), ("BMSToQua", lambda o: BMSToQua.convert(o, raise_bad_mode=False)), ("BMSToSM", lambda o: BMSToSM.convert(o))):
            add("convert_" + nm, (lambda o, f=f: _canon(f(o))))
    if game == "sm":
        from reamber.sm.SMMapSet import SMMapSet

        add("write_reread", lambda o: _canon(SMMapSet.read(o.write())), "sm_write_reread")
        add("write_text", lambda o: _sm_text(o.write()), "sm_write_text")
        for nm, f in (("SMToOsu", lambda o: SMToOsu.convert(o)), ("SMToQua", lambda o: SMToQua.convert(o, raise_bad_mode=False)), ("SMToBMS", lambda o: SMToBMS.convert(o))):
            add("convert_" + nm, (lambda o, f=f: _canon(f(o))))
    if game == "o2j":
        for nm, f in (("O2JToOsu", lambda o: O2JToOsu.convert(o)), ("O2JToQua", lambda o: O2JToQua.convert(o)), ("O2JToSM", lambda o: O2JToSM.convert(o)), ("O2JToBMS", lambda o: O2JToBMS.convert(o))):
            add("convert_" + nm, (lambda o, f=f: _canon(f(o))))
    # ---- other entry points / argument values / operation sequences (EXTRA_OPS: run on the joint cases of every chart)
    def via_file(o, suffix, mode="r", used_path=False):
        import os
        import pathlib
        import tempfile

        fd, path = tempfile.mkstemp(suffix=suffix)
        os.close(fd)
        try:
            if used_path:
                # the path ALREADY holds another, longer file (another chart + left-over lines), and the chart is written to it twice:
                # the file afterwards denotes the chart written last
                try:
                    o.rate(0.5).write_file(pathlib.Path(path))
                except Exception:
                    pass
                with open(path, "ab") as fh:
                    fh.write(b"\r\n#LEFTOVER 00\r\n0,0,0,0,0\r\n" * 400)
                o.write_file(pathlib.Path(path))
            o.write_file(pathlib.Path(path))
            with (open(path, "rb") if mode == "rb" else open(path, "r", encoding="utf8", newline="")) as fh:
                return fh.read()
        finally:
            os.unlink(path)

    def x(name, fn, clause):
        EXTRA_OPS.add(name)
        add(name, fn, clause)

    def shifted(o, by):
        """a copy whose note columns were moved through the list property (in place, on the copy)"""
        r = o.deepcopy()
        for m in (r.maps if hasattr(r, "maps") else [r]):
            for l in (m.hits, m.holds):
                if len(l):
                    l.column += by
        return r

    def twice(w):
        w()
        return w()

    if game == "osu":
        x("write_file_used_path_text", lambda o: _osu_text([via_file(o, ".osu", used_path=True)]), "osu_write_file_text")
        x("convert_write_twice_text", lambda o: (lambda r: _qua_text(twice(r.write)))(OsuToQua.convert(o, raise_bad_mode=False)), "sequence_convert_write")
        x("convert_OsuToBMS_negative_shift", lambda o: _canon(OsuToBMS.convert(shifted(o, 3), move_right_by=-2)), "convert_OsuToBMS")
    if game == "qua":
        x("write_file_used_path_text", lambda o: _qua_text(via_file(o, ".qua", used_path=True)), "qua_write_file_text")
        x("convert_write_twice_text", lambda o: (lambda r: _osu_text(twice(r.write)))(QuaToOsu.convert(o)), "sequence_convert_write")
        x("convert_QuaToBMS_negative_shift", lambda o: _canon(QuaToBMS.convert(shifted(o, 3), move_right_by=-2)), "convert_QuaToBMS")
    if game == "bms":
        x("write_file_used_path_text", lambda o: _bms_text(via_file(o, ".bms", "rb", used_path=True)), "bms_write_file_text")
        x("convert_write_twice_text", lambda o: (lambda r: _osu_text(twice(r.write)))(BMSToOsu.convert(o)), "sequence_convert_write")
    if game == "sm":
        x("write_file_used_path_text", lambda o: _sm_text(via_file(o, ".sm", used_path=True)), "sm_write_file_text")
        x("convert_write_twice_text", lambda o: [_osu_text(twice(m.write)) for m in SMToOsu.convert(o)], "sequence_convert_write")
    if game == "o2j":
        # (to .osu as in convert_then_write_text: in a .bms grid head and end of a zero-length hold share one cell of one lane - a tie)
        x("convert_write_twice_text", lambda o: [_osu_text(twice(m.write)) for m in O2JToOsu.convert(o)], "sequence_convert_write")
        x("convert_O2JToBMS_negative_shift", lambda o: _canon(O2JToBMS.convert(shifted(o, 3), move_right_by=-2)), "convert_O2JToBMS")
        x("convert_O2JToBMS_no_shift", lambda o: _canon(O2JToBMS.convert(shifted(o, 1), move_right_by=0)), "convert_O2JToBMS")
    if game == "osu":
        x("write_file_text", lambda o: _osu_text([via_file(o, ".osu")]), "osu_write_file_text")
        x("convert_OsuToBMS_default_shift", lambda o: _canon(OsuToBMS.convert(o)), "convert_OsuToBMS")
        x("convert_then_write_text", lambda o: _qua_text(OsuToQua.convert(o, raise_bad_mode=False).write()), "sequence_convert_write")
        x("rate_then_write_text", lambda o: _osu_text(o.rate(0.75).write()), "sequence_rate_write")
    if game == "qua":
        x("write_file_text", lambda o: _qua_text(via_file(o, ".qua")), "qua_write_file_text")
        x("convert_then_write_text", lambda o: _osu_text(QuaToOsu.convert(o).write()), "sequence_convert_write")
        x("rate_then_write_text", lambda o: _qua_text(o.rate(0.75).write()), "sequence_rate_write")
    if game == "bms":
        from reamber.bms.BMSChannel import BMSChannel

        x("write_file_text", lambda o: _bms_text(via_file(o, ".bms", "rb")), "bms_write_file_text")
        x("write_text_other_layout_and_placeholder", lambda o: _bms_text(o.write(BMSChannel.PMS, b"0Z")), "bms_write_text")
        x("convert_then_write_text", lambda o: _osu_text(BMSToOsu.convert(o).write()), "sequence_convert_write")
        x("rate_then_write_text", lambda o: _bms_text(o.rate(0.75).write()), "sequence_rate_write")
    if game == "sm":
        x("write_file_text", lambda o: _sm_text(via_file(o, ".sm")), "sm_write_file_text")
        x("convert_then_write_text", lambda o: [_osu_text(m.write()) for m in SMToOsu.convert(o)], "sequence_convert_write")
        x("rate_then_write_text", lambda o: _sm_text(o.rate(0.75).write()), "sequence_rate_write")
    if game == "o2j":
        x("convert_then_write_text", lambda o: [_osu_text(m.write()) for m in O2JToOsu.convert(o)], "sequence_convert_write")
    x("rate_slower", lambda o: _canon(o.rate(0.75)), "rate")
    add("rate", lambda o: _canon(o.rate(1.5)))
    add("full_ln", lambda o: _canon(full_ln(c(o))))
    add("full_ln_gap", lambda o: _canon(full_ln(c(o), gap=60, ln_as_hit_thres=30)), "full_ln")
    add("dominant_bpm", lambda o: _canon(dominant_bpm(c(o))), "dominant_bpm_order_independent")
    add("scroll_speed", lambda o: _canon(scroll_speed(c(o))))
    add("scroll_speed_override", lambda o: _canon(scroll_speed(c(o), override_bpm=150.0)), "scroll_speed")
    if game in ("osu", "qua"):
        add("sv_normalize", lambda o: _canon(sv_normalize(c(o))))
        add("sv_normalize_override", lambda o: _canon(sv_normalize(c(o), override_bpm=150.0)), "sv_normalize")
    if game == "osu":
        add("hitsound_copy_as_source", lambda o: _hs(o, True), "hitsound_copy")
        add("hitsound_copy_as_target", lambda o: _hs(o, False), "hitsound_copy")
    return ops


DEPENDS_ON_DOMINANT = ("scroll_speed", "sv_normalize")
#: names of the operations that exercise other entry points (write_file), other argument values and sequences of two operations
EXTRA_OPS = set()


def _hs_other():
    # a second osu chart whose notes share times with the charts of _specs('osu')
    return std_spec("osu", hits=[(0, 0), (250, 2), (250, 3), (1000, 1), (1625, 0)], holds=[(2000, 0, 100), (500, 1, 50)], bpms=[(0, 120)])


def _hs(o, as_source):
    """hitsound_copy: the notes of the result as a multiset, and the sounds per time as a multiset (which of several notes at one
    time carries a sound is not part of the statement), plus the sample events"""
    from reamber.algorithms.osu.hitsound_copy import hitsound_copy

    other = build(_hs_other())
    res = hitsound_copy(o, other) if as_source else hitsound_copy(other, o)
    notes, sounds, per_time = [], [], collections.Counter()
    for name in ("hits", "holds"):
        df = getattr(res, name).df
        for r in df.to_dict("records"):
            notes.append((float(r["offset"]), int(r["column"]), float(r.get("length", 0.0) or 0.0)))
            sounds.append((float(r["offset"]), int(r["hitsound_set"]), int(r["sample_set"]), int(r["addition_set"]), int(r["custom_set"]), int(r["volume"]), str(r["hitsound_file"])))
            per_time[float(r["offset"])] += 1
    samples = [(float(r["offset"]), str(r["sample_file"]), int(r["volume"])) for r in res.samples.df.to_dict("records")]
    # the same picture without the volume of SOUNDLESS notes that share their time with another note: which of several notes at one
    # time receives a copied sound is free, and the notes passed over keep the target's own volume (a class of its own, see _run_case_)
    alt = [(t, h, ss, a, c, (-1 if per_time[t] > 1 and (h, ss, a, c, f) == (0, 0, 0, 0, "") else v), f) for (t, h, ss, a, c, v, f) in sounds]
    return dict(notes=sorted(notes), sounds=sorted(sounds), samples=sorted(samples), _alt_sounds=sorted(alt))


# ---------------------------------------------------------------------------------------------------------------- cases
_BASE = {}


def _base_result(spec, opname, fn):
    k = (json.dumps(spec, sort_keys=True), opname)
    if k not in _BASE:
        try:
            _BASE[k] = ("ok", fn(_make(spec, None, None)))
        except Exception as ex:
            _BASE[k] = ("raised", f"{type(ex).__name__}: {ex}")
    return _BASE[k]


def _run_case(case, stats=None):
    """case: dict(spec=, perms={list: permutation}, mode='construct'|'iloc'|'reset'|'append'|'reverse_sort', ops=None|[names],
    again=None|True: the re-ordering is applied to a chart object on which every operation has been called before)"""
    import logging

    logging.disable(logging.WARNING)  # (the library logs a line per re-seated tempo point)
    try:
        return _run_case_(case, stats)
    finally:
        logging.disable(logging.NOTSET)


def _run_case_(case, stats=None):
    spec, perms, mode = case["spec"], case.get("perms") or {}, case["mode"]
    game = spec["game"]
    out = []
    dom = {}
    again = bool(case.get("again"))
    todo = [(name, clause, fn) for name, clause, fn in _ops(game) if not (case.get("ops") and name not in case["ops"])]
    if again:
        # call - legitimate change - call again: every operation is first called on the chart in its ORIGINAL row order, then the lists of
        # that same chart object are replaced by the re-ordered ones (assignment of a new list), then every operation is called again on
        # that object: the second results are compared.  (Nothing remembered from the first calls may show.)
        permuted = _make(spec, None, None)
        for name, clause, fn in todo:
            if _base_result(spec, name, fn)[0] == "ok":
                try:
                    fn(permuted)
                except Exception:
                    pass
        _reorder(_chart_of(permuted), perms, mode)
    else:
        permuted = _make(spec, perms, mode)
    for name, clause, fn in todo:
        st, base = _base_result(spec, name, fn)
        if st == "raised":
            if stats is not None:
                stats.setdefault("operations_raising_on_the_unpermuted_chart", {}).setdefault(f"{game}:{name}", base[:100])
            continue
        try:
            # a fresh copy per operation: some operations change their input (C14); again-cases keep the object that was used before
            got = fn(permuted if again else copy.deepcopy(permuted))
        except Exception as ex:
            out.append((clause, f"{name}: fine on the chart, raises on the chart with permuted rows: {type(ex).__name__}: {ex}"))
            continue
        if name == "dominant_bpm":
            dom = dict(base=base, got=got)
        if clause in DEPENDS_ON_DOMINANT and not name.endswith("_override") and dom and _cmp(dom["base"], dom["got"]):
            # these use the dominant bpm: a difference is already reported under dominant_bpm_order_independent
            if stats is not None:
                stats["comparisons_skipped_because_dominant_bpm_differs"] = stats.get("comparisons_skipped_because_dominant_bpm_differs", 0) + 1
            continue
        if clause == "hitsound_copy":
            d = _cmp({k: v for k, v in base.items() if k != "_alt_sounds"}, {k: v for k, v in got.items() if k != "_alt_sounds"})
            if d and not _cmp(dict(base, sounds=base["_alt_sounds"]), dict(got, sounds=got["_alt_sounds"])):
                # the only difference: the volume of soundless notes that share their time with a note that received the copied sound
                clause = "hitsound_copy_volume_of_tied_target_notes"
        else:
            d = _cmp(base, got)
        if d and clause.startswith("convert_") and spec.get("labels"):
            # lists with non-default row labels: kept apart from the default-label charts (converters align rows by label)
            clause = clause + "_relabelled_lists"
        if d:
            out.append((clause, f"{name}: chart vs chart with rows permuted {perms or mode} ({mode}): {d}"))
    seen, uniq = set(), []
    for w, dd in out:
        if w not in seen:
            seen.add(w)
            uniq.append((w, dd))
    return uniq


def _specs(game):
    """charts without ambiguous ties: no two tempo rows / SVs at one time, no two notes at one time in one column"""
    sv = dict(svs=[(100, 1.5), (2100, 0.5), (1000, 2.0)]) if game in ("osu", "qua") else {}
    osx = dict(samples=[(300, "a.wav", 40), (100, "b.wav", 50), (900, "c.wav", 60)]) if game == "osu" else {}
    smx = dict(mines=[(750, 1), (250, 2)], rolls=[(5000, 2, 250)], fakes=[(4500, 0), (4750, 1)], lifts=[(5500, 1)], keysounds=[(5750, 3)]) if game == "sm" else {}
    f = 1 if game == "bms" else 0
    out = []
    out.append(("witness_tempo", std_spec(game, hits=[(0, f), (2500, 1 + f)], holds=[], bpms=[(0, 120), (1000, 240)])))
    out.append(("small", std_spec(game, hits=[(0, f), (250, 1 + f), (1625, 2), (1625, 3)], holds=[(2000, 3, 750), (3000, f, 125), (4000, 2, 500)], bpms=[(0, 120), (4000, 240), (6000, 180)], **sv, **osx, **smx)))
    out.append(("small_labels", std_spec(game, hits=[(500, 2), (0, f), (250, 1 + f)], holds=[(1000, 3, 250), (2000, f, 125)], bpms=[(0, 150), (1600, 75)],
                                         labels=dict(hits="mask", holds="gappy", bpms="after"), **({"svs": [(400, 0.5), (800, 1.0)]} if sv else {}))))
    out.append(("empty_lists", std_spec(game, hits=[(0, f), (500, 2), (1000, 3)], holds=[], bpms=[(0, 120), (2000, 60)])))
    big_h = [(i * 125.0, (i * 3) % 4 + f) for i in range(12)]
    big_l = [(2000 + i * 500.0, (i + 1) % 4 + f, 250.0) for i in range(6)]
    out.append(("larger", std_spec(game, hits=big_h, holds=big_l, bpms=[(0, 120), (2000, 240), (4000, 180), (5000, 120), (6000, 60)],
                                   **({"svs": [(i * 300.0, 0.5 + (i % 4) * 0.5) for i in range(8)]} if sv else {}),
                                   **({"samples": [(i * 700.0, "s%d.wav" % i, 20 + i) for i in range(5)]} if game == "osu" else {}))))
    if game == "bms":
        # two holds in one column after a hit: the writer's line layout for the channel depends on the row order of the holds
        out.append(("ln_lines", std_spec("bms", hits=[(0, 4)], holds=[(1000, 4, 250), (500, 4, 125)], bpms=[(0, 60)])))
    if game == "osu":
        hs = std_spec("osu", hits=[(0, 0), (250, 1), (250, 2), (1625, 3)], holds=[(2000, 1, 100), (500, 2, 50)], bpms=[(0, 120)])
        for i, r in enumerate(hs["hits"] + hs["holds"]):
            r.update(hitsound_set=[2, 4, 8, 10, 0, 2][i], volume=[10, 20, 30, 40, 50, 60][i], hitsound_file=["", "", "x.wav", "", "y.wav", ""][i])
        out.append(("hitsounds", hs))
        plain = copy.deepcopy(hs)
        for r in plain["hits"] + plain["holds"]:
            r.update(hitsound_set=0, sample_set=0, addition_set=0, custom_set=0, volume=0, hitsound_file="")
        out.append(("plain_notes", plain))
    return out


def _edge_specs(game):
    """charts for the input dimensions the fixed charts above hold constant (still without ambiguous ties inside one list):
    a chart without hits; a chart without holds; times shared ACROSS lists and boundary values; sub-millisecond and x.5 times; int-typed columns;
    non-default row labels on EVERY list; (osu, qua) negative and far times; (sm, o2j) the chart inside a larger set"""
    sv = game in ("osu", "qua")
    f = 1 if game == "bms" else 0
    osx = dict(samples=[(300, "a.wav", 40), (100, "b.wav", 50), (900, "c.wav", 60)]) if game == "osu" else {}
    smx = dict(mines=[(750, 1), (250, 2)], rolls=[(5000, 2, 250), (5500, 3, 125)], fakes=[(4500, 0), (4750, 1)], lifts=[(5500, 1), (5750, 2)], keysounds=[(5750, 3), (6000, 0)]) if game == "sm" else {}
    out = []
    out.append(("edge_no_hits", std_spec(game, hits=[], holds=[(0, f, 250), (1000, 2, 500), (1000, 3, 125), (3000, 1 + f, 250)], bpms=[(0, 120), (2000, 90), (4000, 180)],
                                         **({"svs": [(500, 2.0), (1500, 0.5)]} if sv else {}))))
    # (27) the mirror image: a chart without holds, several hits per column at uneven distances (what follows a hit in its column decides full_ln)
    out.append(("edge_no_holds", std_spec(game, hits=[(0, f), (250, f), (1000, f), (1125, f), (500, 2), (2000, 2), (2100, 2), (3000, 3), (125, 1 + f), (3500, 1 + f)], holds=[],
                                          bpms=[(0, 120), (2000, 90), (4000, 180)], **({"svs": [(500, 2.0), (1500, 0.5)]} if sv else {}))))
    # notes at time 0, notes / hold heads / hold tails exactly on tempo changes and on SVs, an SV on the first tempo row and on a tempo change,
    # several notes at one time in different columns, a hold of length 0 (osu, qua, o2j: formats with an end TIME; in a .bms / .sm grid
    # head and end of such a hold share one cell of one lane - a tie inside one lane, which file order decides - so those get 250 ms)
    zero = 250 if game in ("bms", "sm") else 0
    out.append(("edge_coincident", std_spec(game, hits=[(0, f), (0, 2 + f), (1000, 2 + f), (2000, f), (2000, 2 + f), (4000, 3 + f)],
                                            holds=[(0, 3 + f, 1000), (1000, 1 + f, 1000), (3000, 3 + f, zero), (4000, 2 + f, 1000)],
                                            bpms=[(0, 120), (1000, 240), (2000, 60), (4000, 120)], **({"svs": [(0, 2.0), (1000, 0.5), (4000, 1.5), (5000, 1.0)]} if sv else {}),
                                            **({"samples": [(0, "a.wav", 40), (1000, "b.wav", 50), (4000, "c.wav", 60)]} if game == "osu" else {}))))
    out.append(("edge_fractional", std_spec(game, hits=[(0.5, f), (333.333, 1 + f), (1000.999, 2), (2500.5, 3), (2501.5, f)], holds=[(1500.5, f, 249.75), (3000.25, 2, 500.5), (3999.999, 3, 0.5 + zero)],
                                            bpms=[(0, 128.571), (1866.6729, 177.77), (4000.5, 99.999)], **({"svs": [(100.5, 0.333), (2100.75, 1.75), (2100.25, 0.01)]} if sv else {}),
                                            **({"samples": [(300.5, "a.wav", 40), (100.25, "b.wav", 50)]} if game == "osu" else {}))))
    small = dict(hits=[(0, f), (250, 1 + f), (1625, 2), (1625, 3)], holds=[(2000, 3, 750), (3000, f, 125), (4000, 2, 500)], bpms=[(0, 120), (4000, 240), (6000, 180)],
                 **({"svs": [(100, 1.5), (2100, 0.5), (1000, 2.0)]} if sv else {}), **osx, **smx)
    out.append(("edge_int_typed", dict(std_spec(game, **small), dtype="int")))
    out.append(("edge_all_labels", std_spec(game, **small, labels=dict(hits="rev", holds="after", bpms="gappy", svs="mask", samples="gappy", mines="rev", rolls="gappy", fakes="mask", lifts="after",
                                                                      keysounds="gappy"))))
    # dimension 15: the same chart in the dtype states the library itself leaves behind (rate() and a stack edit re-type integer / bool columns)
    out.append(("edge_state_after_rate", dict(std_spec(game, **small), pre=[["rate", 1.0]])))
    out.append(("edge_state_after_stack_edit", dict(std_spec(game, **small), pre=[["stack_edit"]])))
    # dimension 17: which KIND of object is first / last: a tempo point after the last note, the first SV / sample / mine before the first note
    # and on the first tempo point, the last SV after the last note; (osu, qua: times in ms, no grid) an SV, a sample and a note BEFORE the first tempo point
    ko = dict(hits=[(1000, f), (1250, 1 + f), (2000, 2)], holds=[(1500, 3, 250)], bpms=[(0, 120), (1750, 90), (3000, 180)])
    if sv:
        ko["svs"] = [(0, 2.0), (500, 0.5), (2500, 1.5)]
    if game == "osu":
        ko["samples"] = [(250, "a.wav", 40), (2750, "b.wav", 50)]
    if game == "sm":
        ko.update(mines=[(500, 1), (2500, 2)], stops=[(250, 125), (2750, 250)])
    out.append(("edge_kind_order", std_spec(game, **ko)))
    if sv:
        kb = dict(hits=[(-250, 0), (1250, 1), (2000, 2)], holds=[(1500, 3, 250)], bpms=[(0, 120), (1750, 90)], svs=[(-500, 2.0), (1000, 0.5)])
        if game == "osu":
            kb["samples"] = [(-750, "a.wav", 40), (100, "b.wav", 50)]
        out.append(("edge_objects_before_first_tempo", std_spec(game, **kb)))
    if game == "osu":
        # two notes at one time with different volumes of their own, where the other chart of hitsound_copy has ONE sound (at 500 ms)
        out.append(("edge_hitsound_tied_target", std_spec("osu", hits=[(0, 0), (500, 3), (500, 1), (1000, 2)], holds=[(2000, 1, 100)], bpms=[(0, 120)])))
    if sv:
        out.append(("edge_negative_and_far", std_spec(game, hits=[(-500, 0), (0, 1), (250, 2), (1234567.891, 3)], holds=[(-250, 3, 500), (1234000, 0, 567.5)], bpms=[(-1000, 120), (1000, 240), (600000, 90)],
                                                      svs=[(-750, 0.5), (500, 2.0), (1234500, 0.25)])))
    if game in ("osu", "qua", "o2j"):
        # dimension 19: NEAR-TIES THAT COLLIDE WHEN WRITTEN (games whose files / conversion targets hold times in ms, no beat grid): two tempo
        # points, two SVs, two notes of one column, two hold heads, two samples whose float times DIFFER (x.2 / x.7, x.4 / x.6 in both row
        # orders, x.2 / x.9) but fall on the same whole millisecond when truncated or rounded, with different values.  The chart itself has no
        # tie (every time is distinct), so conversions, rate, full_ln, dominant bpm, scroll speed, SV normalisation are compared as for every
        # chart.  A WRITTEN file that stores whole ms holds two records at one time there; which of them "comes first" is not something the
        # statement fixes, so for the writers only what is compared anyway is asserted: the MULTISET of written records (text) and the
        # multiset of objects the reader returns - a record that is dropped or merged depending on the row order changes that multiset.
        nt = dict(hits=[(0, 0), (500.2, 1), (500.7, 1), (1625.4, 2), (1625.6, 3), (3000, 0)], holds=[(2000.2, 3, 750.5), (2000.9, 2, 125.3), (4000, 2, 500)],
                  bpms=[(0, 120), (1000.2, 60), (1000.7, 240), (1500, 120), (4000.6, 90), (4000.4, 180)])
        if sv:
            nt["svs"] = [(100, 1.5), (2100.2, 0.5), (2100.7, 2.0), (2101.2, 0.75)]
        if game == "osu":
            nt["samples"] = [(300.2, "a.wav", 40), (300.7, "b.wav", 50)]
        out.append(("edge_near_ties_written", std_spec(game, **nt)))
    if game in ("sm", "o2j"):
        inner = std_spec(game, **small)
        inner["set_before"] = [std_spec(game, hits=[(0, 0), (500, 1)], holds=[], bpms=[(0, 120), (4000, 240), (6000, 180)])]  # a chart without holds
        inner["set_after"] = [std_spec(game, hits=[], holds=[(1000, 2, 250)], bpms=[(0, 120), (4000, 240), (6000, 180)])]  # a chart without hits
        out.append(("edge_middle_of_a_set", inner))
    return out


def _random_spec(game, rng, big):
    """random chart without ambiguous ties: distinct tempo / SV times, one object per (column, time), holds that do not overlap
    anything in their column; objects on a 125 ms grid; rows in random (unsorted) order"""
    f = 1 if game == "bms" else 0
    n_slots = 48 if big else 16
    cap = 12 if big else 4
    free = {c: 0 for c in range(4)}
    lists = dict(hits=[], holds=[], mines=[], fakes=[], lifts=[], keysounds=[], rolls=[])
    kinds = ["hits", "hits", "holds"] + (["mines", "fakes", "lifts", "keysounds", "rolls"] if game == "sm" else [])
    for k in range(n_slots):
        for c in range(4):
            if k < free[c] or rng.random() > 0.3:
                continue
            kind = rng.choice(kinds)
            if len(lists[kind]) >= cap:
                continue
            t = 125.0 * k
            if kind in ("holds", "rolls"):
                ln = rng.choice([1, 2, 3])
                lists[kind].append((t, c + f, 125.0 * ln))
                free[c] = k + ln + 1
            else:
                lists[kind].append((t, c + f))
                free[c] = k + 1
    if not lists["hits"]:
        lists["hits"].append((125.0 * n_slots, f))
    n_b = rng.randrange(1, (6 if big else 4) + 1)
    b_times = [0.0] + sorted(rng.sample([2000.0 * i for i in range(1, 12)], n_b - 1))
    bpms = [(t, rng.choice([60.0, 90.0, 120.0, 150.0, 180.0, 240.0])) for t in b_times]
    kw = {}
    if game in ("osu", "qua"):
        n_s = rng.randrange(0, (8 if big else 4) + 1)
        kw["svs"] = [(t, rng.choice([0.5, 0.75, 1.0, 1.5, 2.0])) for t in rng.sample([100.0 * i + 50 for i in range(40)], n_s)]
    if game == "osu":
        kw["samples"] = [(t, "s%d.wav" % i, 10 + i) for i, t in enumerate(rng.sample([77.0 * i for i in range(30)], rng.randrange(0, 4)))]
    if game == "sm":
        for k2 in ("mines", "fakes", "lifts", "keysounds", "rolls"):
            kw[k2] = lists[k2]
    for v in list(lists.values()) + [bpms] + [kw.get("svs", [])]:
        rng.shuffle(v)
    sp = std_spec(game, hits=lists["hits"], holds=lists["holds"], bpms=bpms, **kw)
    # mixtures: a third of the random charts carry non-default row labels on a random subset of ALL their lists (as filters, sorts
    # and edits leave them), a quarter hold their (whole-ms) times in int-typed columns
    if rng.random() < 0.35:
        lab = {k: rng.choice(["gappy", "rev", "after", "mask"]) for k in LIST_ORDER if isinstance(sp.get(k), list) and sp[k] and rng.random() < 0.6}
        if lab:
            sp["labels"] = lab
    if rng.random() < 0.25:
        sp["dtype"] = "int"
    return sp


def _list_sizes(spec):
    return {k: len(spec[k]) for k in LIST_ORDER if k in spec and isinstance(spec[k], list) and len(spec[k]) > 1}


def _joint(ident, how, rng):
    perms = {}
    for k, v in ident.items():
        p = v[::-1] if how == "rev" else v[1:] + v[:1]
        if how == "rnd":
            p = list(v)
            rng.shuffle(p)
        perms[k] = p
    return perms


def _is_joint(case):
    """all lists of the chart re-ordered together (or reverse sort): these cases also run EXTRA_OPS"""
    return case["mode"] == "reverse_sort" or set(case.get("perms") or {}) == set(_list_sizes(case["spec"]))


def _cases_for(spec, rng, n_random, quick, singles=True, edge=False):
    sizes = _list_sizes(spec)
    small = all(n <= 4 for n in sizes.values())
    cases = [dict(mode="reverse_sort", perms={})]
    ident = {k: list(range(n)) for k, n in sizes.items()}
    if edge:
        # quick: one joint re-ordering for each KIND of result (unsorted rows + fresh labels, unsorted rows + travelling labels, rows in time
        # order + permuted labels, concatenation); otherwise three per history
        plan = (("construct", "rev"), ("iloc", "rot"), ("sorted", "rnd"), ("concat", "rnd")) if quick else (
            ("construct", "rev"), ("iloc", "rot"), ("reset", "rnd"), ("append", "rnd"), ("sorted", "rev"), ("append_sort", "rot"), ("concat", "rev"))
        for mode, how in plan:
            cases.append(dict(mode=mode, perms=_joint(ident, how, rng)))
            for how2 in (() if quick else ("rnd", "rot" if how != "rot" else "rev")):
                cases.append(dict(mode=mode, perms=_joint(ident, how2, rng)))
        for i in range(n_random):
            cases.append(dict(mode=["construct", "iloc", "reset", "append", "sorted", "concat"][i % 6], perms=_joint(ident, "rnd", rng)))
        return cases
    if small:
        # every permutation of every list on its own (the other lists keep their order) ...
        for name, n in (sizes.items() if singles else ()):
            for p in itertools.permutations(range(n)):
                if list(p) == ident[name]:
                    continue
                cases.append(dict(mode="iloc", perms={name: list(p)}))
                if not quick:
                    cases.append(dict(mode="construct", perms={name: list(p)}))
        # ... and all lists reversed / rotated together, in every construction history
        for mode in ("construct", "iloc", "reset", "append"):
            cases.append(dict(mode=mode, perms={k: v[::-1] for k, v in ident.items()}))
            cases.append(dict(mode=mode, perms={k: v[1:] + v[:1] for k, v in ident.items()}))
    # the other histories named by the property: sort after an unsorted construction, append(sort=True), concatenation of two lists
    for mode, how in (("sorted", "rev"), ("concat", "rot")) + ((("append_sort", "rot"), ("sorted", "rnd"), ("concat", "rnd")) if not quick else ()):
        cases.append(dict(mode=mode, perms=_joint(ident, how, rng)))
    for i in range(n_random):
        perms = {}
        for k, v in ident.items():
            p = list(v)
            rng.shuffle(p)
            perms[k] = p
        cases.append(dict(mode=["construct", "iloc", "reset", "append"][i % 4], perms=perms))
    return cases


_HISTORY_PRIORITY = dict(construct=0, reverse_sort=1, sorted=2, iloc=3, concat=4, append=5, reset=6, append_sort=7)


def _c15_game(rep, game):
    rng = rep.rng
    quick = rep.tier == "quick"
    stats = {}
    n = 0
    stopped = False
    by_mode = {}
    all_ops = [nm for nm, _, _ in _ops(game)]
    specs = list(_specs(game)) + list(_edge_specs(game))
    rs = [(f"random_small_{i}", _random_spec(game, rng, False)) for i in range(rep.n(3, 16))]
    rl = [(f"random_larger_{i}", _random_spec(game, rng, True)) for i in range(rep.n(1, 8))]
    while rs or rl:  # interleaved, so that a time budget cuts both kinds alike
        specs += rs[:2] + rl[:1]
        rs, rl = rs[2:], rl[1:]
    plan = []
    for label, spec in specs:
        small = all(v <= 4 for v in _list_sizes(spec).values())
        n_random = rep.n(4, 12) if small else rep.n(8 if game in ("sm", "bms") else 12, 30)
        if quick and label.startswith("random_larger"):
            n_random = 6
        # the two hitsound charts exist for hitsound_copy (and the writer); elsewhere hitsound_copy runs on the 'small' chart only
        if label in ("hitsounds", "plain_notes", "edge_hitsound_tied_target"):
            ops = ["hitsound_copy_as_source", "hitsound_copy_as_target", "write_reread", "write_text"]
        elif label != "small" and quick:
            ops = [o for o in all_ops if not o.startswith("hitsound_copy")]
        else:
            ops = list(all_ops)
        edge = label.startswith("edge_")
        if edge:
            n_random = rep.n(0, 6)
        cases = []
        for cs in _cases_for(spec, rng, n_random, quick, singles=not (quick and label.startswith("random")), edge=edge):
            case = dict(spec=spec, ops=ops, **cs)
            # one list re-ordered on its own: the plain operations; joint cases add write_file, other arguments, sequences (quick: on the
            # reverse-sorted, the unsorted-construction and the sorted-after-construction charts)
            if not _is_joint(case) or (quick and cs["mode"] not in ("reverse_sort", "construct", "sorted")):
                case["ops"] = [o for o in ops if o not in EXTRA_OPS]
            cases.append(case)
        # call - change - call again on ONE chart object (all operations, also the joint-only ones): the lists are re-ordered after the
        # operations have been called once
        ident = {k: list(range(v)) for k, v in _list_sizes(spec).items()}
        for mode, how in ((("iloc", "rnd"),) if quick else (("iloc", "rnd"), ("reverse_sort", None), ("append", "rev"), ("sorted", "rot"), ("concat", "rnd"))):
            cases.append(dict(spec=spec, ops=ops, mode=mode, perms=_joint(ident, how, rng) if how else {}, again=True))
        # joint re-orderings first - one of each history (unsorted construction, reverse sort, sort(), labels travelling, concatenation, ...)
        # before the second of any - then the single-list permutations
        seen_modes, keyed = {}, []
        for case in cases:
            single = not _is_joint(case)
            hist = ("again_" if case.get("again") else "") + case["mode"]
            k = seen_modes.get((single, hist), 0)
            seen_modes[(single, hist)] = k + 1
            keyed.append(((single, k, 2.5 if case.get("again") else _HISTORY_PRIORITY.get(case["mode"], 9)), len(keyed), case))
        keyed.sort(key=lambda x: (x[0], x[1]))
        ordered = [c for _, _, c in keyed]
        if quick and (label.startswith("edge_state_") or label in ("edge_kind_order", "edge_objects_before_first_tempo")):
            ordered = ordered[:3]  # quick tier: the dtype-state / kind-order charts take the first three histories only, so that the other charts keep their share of the time budget
        plan.append((label, ordered))
    # round robin over the charts: a time budget on a busy machine thins every chart's cases instead of dropping whole charts
    for r in range(max(len(c) for _, c in plan)):
        for label, cases in plan:
            if r >= len(cases) or stopped:
                continue
            if rep.out_of_time(50, 360):
                stopped = True
                break
            case = cases[r]
            by_mode[("again_" if case.get("again") else "") + case["mode"]] = by_mode.get(("again_" if case.get("again") else "") + case["mode"], 0) + 1
            rep.case(case, nontrivial=True)
            n += 1
            for what, d in _run_case(case, stats):
                rep.fail(what, case, f"{label}: {d}")
        if stopped:
            break
    rep.extra["cases_planned"] = sum(len(c) for _, c in plan)
    rep.extra.update(stats)
    rep.extra["stopped_by_time_budget"] = stopped
    rep.extra["operations"] = [nm for nm, _, _ in _ops(game)]
    rep.extra["operations_on_joint_cases_only"] = sorted(EXTRA_OPS & set(all_ops))
    rep.extra["cases_per_history"] = by_mode
    n_edge = len(_edge_specs(game))
    rep.bound = (f"{game}: {len(_specs(game))} fixed charts + {n_edge} edge charts + {rep.n(3, 16)} random small and {rep.n(1, 8)} random larger charts (tempo witness, small with all lists,{' two holds in one column,' if game == 'bms' else ''} gappy / filtered labels, empty lists, a larger one"
                 f"{', notes with and without hitsounds of their own' if game == 'osu' else ''}; edge: no hits at all; times shared across lists (notes, hold heads and tails, SVs on tempo changes and at time 0{'' if game in ('bms', 'sm') else ', a hold of length 0'}); "
                 f"sub-ms and x.5 times with non-integer tempos; int-typed time columns; the chart as an earlier rate(1) / a stack edit leaves it (re-typed columns); which kind of object is first / last (tempo point after the last note, SV / sample / mine / stop before the first note and after the last{', SV + sample + note BEFORE the first tempo point' if game in ('osu', 'qua') else ''}); non-default row labels on every list{'; negative and far (20 min) times' if game in ('osu', 'qua') else ''}"
                 f"{'; NEAR-TIES THAT COLLIDE WHEN WRITTEN: two tempo points / SVs / notes of one column / hold heads / samples whose float times differ (x.2 / x.7, x.4 / x.6, x.2 / x.9) but fall on one whole ms, with different values - the chart has no tie; for the writers the multiset of written records / re-read objects is compared' if game in ('osu', 'qua', 'o2j') else ''}"
                 f"{'; two notes at one time with different volumes of their own where hitsound_copy has one sound to place (clause hitsound_copy_volume_of_tied_target_notes)' if game == 'osu' else ''}"
                 f"{'; the chart in the middle of a 3-chart set between a chart without holds and a chart without hits' if game in ('sm', 'o2j') else ''}; random charts: 35% with non-default labels on a random subset of all lists, 25% int-typed); "
                 f"per chart: reverse sort; for charts with <= 4 rows per list ALL permutations of each list on its own{' (fixed charts)' if quick else ''} "
                 f"(labels travelling{'' if quick else ', and by construction'}), all lists reversed / rotated together in 4 histories (construction, re-ordered with labels, re-ordered with fresh labels, "
                 f"append without sort) + sort after unsorted construction + concatenation of two lists{'' if quick else ' + append(sort=True)'} + {rep.n(4, 12)} random joint shuffles; larger chart: {rep.n(12, 30)} (sm/bms quick: 8) random joint shuffles; "
                 f"edge charts: reverse sort + {'4' if quick else '21 + 6 random'} joint re-orderings over the histories construction / labels travelling / sort() / concatenation{'' if quick else ' / fresh labels / append / append(sort=True)'}; every case runs "
                 f"{len(all_ops) - len(EXTRA_OPS & set(all_ops))} operations, the joint cases{' of the histories reverse sort / construction / sort()' if quick else ''} {len(EXTRA_OPS & set(all_ops))} more (write_file, other argument values: rate 0.75{', other layout + placeholder' if game == 'bms' else ''}"
                 f"{', default column shift' if game == 'osu' else ''}; sequences convert -> write and rate -> write; write_file to a path that already holds another, longer file, twice; a converted chart written twice; a NEGATIVE column shift "
                 f"on notes moved right before); + {'1' if quick else '5'} call-change-call-again case(s) per chart (every operation called on the chart, then the lists of that same object replaced by re-ordered ones, then every operation called again); cases are run round robin over the charts, joint re-orderings first; {n} cases, per history {by_mode}")
    rep.rule = "a case is (chart, permutation of its lists, history that produced the order); f(chart) vs f(permuted chart) for every operation f (incl. write_file and two-operation sequences on the joint cases); in the again-cases the permuted chart is an object every f has been called on before"


def _mk(game):
    def fn(rep):
        _c15_game(rep, game)

    fn.__name__ = f"row_order_{game}"
    return fn


for _g in GAMES:
    _f = _mk(_g)
    globals()[_f.__name__] = bounded("C15", note=f"{_g}: writers (re-read and text), conversions, rate, full_ln, hitsound copy, dominant bpm, scroll speed, SV normalisation on a chart vs the chart with permuted rows")(_f)

    def _mk_replay(_name=_f.__name__):
        @replayer(_name)
        def _replay(case, what):
            bad = _run_case(case)
            hit = [d for w, d in bad if w == what]
            return (bool(hit), hit[0] if hit else "passes")

        return _replay

    _mk_replay()
