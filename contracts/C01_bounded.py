"""C01 - osu!mania .osu file <-> in-memory chart: WHOLE-MAP bounded stand-ins (REAL OsuMap.read / OsuMap.write /
read_file / write_file vs an independent denotation of the v14 mode-3 dialect).

Oracle den_osu (A5 "osu! v14, mode 3", written from the public format description, not from reamber's code):
  lines; `[Section]` headers; in [General]/[Editor]/[Metadata]/[Difficulty] a line `Key:Value` denotes
  Key -> trim(text after the FIRST ':').   CircleSize = key count K.
  [Events]       `0,0,"file",x,y` background;  `Sample,time,layer,"file",volume` sample event;  `//` comments.
  [TimingPoints] time,beatLength,meter,sampleSet,sampleIndex,volume,uninherited,effects
                 uninherited 1 -> tempo point bpm = 60000/beatLength;  0 -> SV mult = -100/beatLength;
                 kiai = bit 0 of effects.
  [HitObjects]   x,y,time,type,hitSound,normalSet:additionSet:index:volume:file            hit
                 x,y,time,type,hitSound,endTime:normalSet:additionSet:index:volume:file    hold (type bit 7),
                 length endTime - time;   column = clamp(floor(x*K/512), 0, K-1).

Clause ids (`what`)
  read.<aspect>            accepts, keys, hits, holds, hitsound_fields, tempo_points, svs, timing_point_fields,
                           kiai_is_effects_bit0, samples, background, metadata[<Key>]
  write.<aspect>           succeeds, well_formed, same_hits, same_holds, same_hitsound_fields, same_tempo_points,
                           same_svs, same_timing_point_fields, same_samples, same_background, metadata[<Key>]
  file.<aspect>            write_file_text_is_write, read_file_is_read
  write_after_read.<aspect>   text -> read -> write: den(written) is den(text), times < 1 ms
  read_after_write.<aspect>   chart -> write -> read: chart read back is the chart, times < 1 ms
  drift.gen<N>.<aspect>    generation N >= 2 of write/read cycles vs the FIRST written text (exact times,
                           bpm / SV values to 1e-12 relative)
  read.same_for_every_way_of_passing_the_lines   lines with terminators / through an instance give the chart of the split text
  read.results_are_independent                   editing a second result of the same text leaves the first alone
  write.second_write_denotes_the_same_chart, write.charts_are_independent
  write_after_edit.<aspect>  the SAME object written once, then changed through public operations (offsets / columns / bpm / multipliers
                           edited through the list properties or the stack, an item appended, new lists assigned, metadata set, rate()),
                           then written again: the second text is well-formed and denotes the chart AS IT IS NOW (< 1 ms)
  read.same_text_read_again_after_an_edit   a result was edited in place and another text was read; the same text read again gives the same chart
  file.read_file_of_a_path_that_held_another_file   read_file from a path whose earlier (longer / shorter) content was read before
  file.write_file_over_another_file   write_file onto a path that holds another chart's file (longer / shorter / written by write_file and
                           read back): the file afterwards is exactly the text of the chart written last, and read_file gives that chart
Classes of inputs that report under ids of their own (so that the plain clause stays exercised by every other case):
  <phase>.background[events:video_first]   a video event stands before the background event in [Events]
  <phase>.background[events:no_comments], <phase>.samples[events:no_comments]   [Events] without the editor's '//' lines
  <phase>.well_formed[line_separator_in_romanised_field]   Title / Artist containing U+2028 / U+2029
"""
from __future__ import annotations

import contextlib
import logging
import math
import os
import re
import tempfile
import warnings
from fractions import Fraction

from pyvc.dsl import bounded
from pyvc.bounded import replayer

REPO = os.environ.get("VERIF_REPO", "/repo")
# ----------------------------------------------------------------------------- the format (A5)

# Key -> (section, kind, in-memory field)      kind: text | int | dec | flag | sampleset | tags
KEYS = dict(
    AudioFilename=("General", "text", "audio_file_name"), AudioLeadIn=("General", "int", "audio_lead_in"), PreviewTime=("General", "int", "preview_time"),
    Countdown=("General", "int", "countdown"), SampleSet=("General", "sampleset", "sample_set"), StackLeniency=("General", "dec", "stack_leniency"),
    Mode=("General", "int", "mode"), LetterboxInBreaks=("General", "flag", "letterbox_in_breaks"), SpecialStyle=("General", "flag", "special_style"),
    WidescreenStoryboard=("General", "flag", "widescreen_storyboard"),
    DistanceSpacing=("Editor", "dec", "distance_spacing"), BeatDivisor=("Editor", "int", "beat_divisor"), GridSize=("Editor", "int", "grid_size"),
    TimelineZoom=("Editor", "dec", "timeline_zoom"),
    Title=("Metadata", "text", "title"), TitleUnicode=("Metadata", "text", "title_unicode"), Artist=("Metadata", "text", "artist"),
    ArtistUnicode=("Metadata", "text", "artist_unicode"), Creator=("Metadata", "text", "creator"), Version=("Metadata", "text", "version"),
    Source=("Metadata", "text", "source"), Tags=("Metadata", "tags", "tags"), BeatmapID=("Metadata", "int", "beatmap_id"), BeatmapSetID=("Metadata", "int", "beatmap_set_id"),
    HPDrainRate=("Difficulty", "dec", "hp_drain_rate"), CircleSize=("Difficulty", "dec", "circle_size"), OverallDifficulty=("Difficulty", "dec", "overall_difficulty"),
    ApproachRate=("Difficulty", "dec", "approach_rate"), SliderMultiplier=("Difficulty", "dec", "slider_multiplier"), SliderTickRate=("Difficulty", "dec", "slider_tick_rate"),
)
KV_SECTIONS = ("General", "Editor", "Metadata", "Difficulty")
SAMPLESETS = ["None", "Normal", "Soft", "Drum"]  # the in-memory value is the index (OsuSampleSet.AUTO/NORMAL/SOFT/DRUM)
_INT = re.compile(r"^[+-]?[0-9]+$")
_DEC = re.compile(r"^[+-]?([0-9]+\.?[0-9]*|\.[0-9]+)([eE][+-]?[0-9]+)?$")


class DenError(Exception):
    """The text is not in the dialect: no denotation (for a WRITTEN text this is `write.well_formed`)."""


def _int(s, what):
    s = s.strip()
    if not _INT.match(s):
        raise DenError(f"{what}: {s!r} is not an integer")
    return int(s)


def _dec(s, what):
    s = s.strip()
    if not _DEC.match(s):
        raise DenError(f"{what}: {s!r} is not a decimal number")
    return Fraction(s) if "e" not in s.lower() else Fraction(float(s))


def _split_event(line):
    """comma split that respects double quotes"""
    out, cur, q = [], "", False
    for ch in line:
        if ch == '"':
            q = not q
            cur += ch
        elif ch == "," and not q:
            out.append(cur)
            cur = ""
        else:
            cur += ch
    out.append(cur)
    return out


def _unquote(s):
    s = s.strip()
    return s[1:-1] if len(s) >= 2 and s[0] == '"' and s[-1] == '"' else s


def fmt_column(x, keys):
    return max(0, min(keys - 1, (x * keys) // 512))


def den_osu(text):
    """-> dict(keys, hits=[(col, t, fields)], holds=[(col, t, length, fields)], bpms=[(t, bpm, fields)],
    svs=[(t, mult, fields)], samples=[(t, file, volume, layer)], background, meta={Key: trimmed text}).
    Times / values are Fractions (exact).  fields: notes (hitSound, normalSet, additionSet, index, volume, file);
    tempo (meter, sampleSet, sampleIndex, volume, kiai); sv (sampleSet, sampleIndex, volume, kiai)."""
    lines = [l.rstrip("\r") for l in text.split("\n")]
    first = next((l for l in lines if l.strip()), "")
    if not first.strip().startswith("osu file format v"):
        raise DenError(f"first line is {first!r}, not the format header")
    sec, meta, seen = None, {}, []
    ev, tp, ho = [], [], []
    for l in lines[lines.index(first) + 1:]:
        s = l.strip()
        if not s:
            continue
        if s.startswith("[") and s.endswith("]"):
            sec = s[1:-1]
            if sec in seen:
                raise DenError(f"section [{sec}] twice")
            seen.append(sec)
            continue
        if sec in KV_SECTIONS:
            if s.startswith("//"):
                continue
            if ":" not in s:
                raise DenError(f"[{sec}] line without ':': {s!r}")
            k, v = s.split(":", 1)
            meta[k.strip()] = v.strip()
        elif sec == "Events":
            if not s.startswith("//"):
                ev.append(s)
        elif sec == "TimingPoints":
            tp.append(s)
        elif sec == "HitObjects":
            ho.append(s)
        elif sec is None:
            raise DenError(f"text before the first section: {s!r}")
    for need in ("TimingPoints", "HitObjects"):
        if need not in seen:
            raise DenError(f"no [{need}] section")
    if "CircleSize" not in meta:
        raise DenError("no CircleSize (key count)")
    kf = _dec(meta["CircleSize"], "CircleSize")
    if kf.denominator != 1 or kf < 1:
        raise DenError(f"CircleSize {meta['CircleSize']!r} is not a key count")
    K = int(kf)

    background, samples = None, []
    for e in ev:
        f = _split_event(e)
        if f[0].strip() == "0" and len(f) >= 3 and background is None:
            background = _unquote(f[2])
        elif f[0].strip() == "Sample":
            if len(f) < 4:
                raise DenError(f"sample event {e!r}")
            vol = _int(f[4], "sample volume") if len(f) > 4 else 100
            samples.append((_dec(f[1], "sample time"), _unquote(f[3]), vol, _int(f[2], "sample layer")))

    bpms, svs = [], []
    for s in tp:
        f = s.split(",")
        if len(f) != 8:
            raise DenError(f"timing point with {len(f)} fields: {s!r}")
        t, bl = _dec(f[0], "timing point time"), _dec(f[1], "beatLength")
        meter, ss, si, vol, un, eff = (_int(x, "timing point field") for x in f[2:])
        if bl == 0:
            raise DenError(f"beatLength 0: {s!r}")
        if un == 1:
            bpms.append((t, Fraction(60000) / bl, (meter, ss, si, vol, bool(eff & 1))))
        elif un == 0:
            svs.append((t, Fraction(-100) / bl, (ss, si, vol, bool(eff & 1))))
        else:
            raise DenError(f"uninherited = {un}: {s!r}")

    hits, holds = [], []
    for s in ho:
        f = s.split(",")
        if len(f) != 6:
            raise DenError(f"hit object with {len(f)} fields (dialect: 6, with the hit-sample suffix): {s!r}")
        x, _y, t, typ, hs = _int(f[0], "x"), _int(f[1], "y"), _dec(f[2], "time"), _int(f[3], "type"), _int(f[4], "hitSound")
        ex = f[5].split(":")
        col = fmt_column(x, K)
        if typ & 128:
            if len(ex) != 6:
                raise DenError(f"hold with {len(ex)} ':' fields: {s!r}")
            end = _dec(ex[0], "endTime")
            holds.append((col, t, end - t, (hs,) + tuple(_int(v, "hit sample") for v in ex[1:5]) + (ex[5],)))
        else:
            if len(ex) != 5:
                raise DenError(f"hit with {len(ex)} ':' fields: {s!r}")
            hits.append((col, t, (hs,) + tuple(_int(v, "hit sample") for v in ex[0:4]) + (ex[4],)))
    return dict(keys=K, hits=hits, holds=holds, bpms=bpms, svs=svs, samples=samples, background=background, meta=meta, sections=seen, first=first.strip())


def chart_of(m):
    """The chart an in-memory OsuMap denotes (public list columns / dataclass fields only)."""
    def cols(lst, *names):
        return list(zip(*[lst.df[n].tolist() for n in names])) if len(lst.df) else []

    nf = ("hitsound_set", "sample_set", "addition_set", "custom_set", "volume", "hitsound_file")
    hits = [(int(r[0]), float(r[1]), tuple(int(v) for v in r[2:7]) + (r[7],)) for r in cols(m.hits, "column", "offset", *nf)]
    holds = [(int(r[0]), float(r[1]), float(r[2]), tuple(int(v) for v in r[3:8]) + (r[8],)) for r in cols(m.holds, "column", "offset", "length", *nf)]
    bpms = [(float(r[0]), float(r[1]), (int(r[2]), int(r[3]), int(r[4]), int(r[5]), bool(r[6]))) for r in cols(m.bpms, "offset", "bpm", "metronome", "sample_set", "sample_set_index", "volume", "kiai")]
    svs = [(float(r[0]), float(r[1]), (int(r[2]), int(r[3]), int(r[4]), bool(r[5]))) for r in cols(m.svs, "offset", "multiplier", "sample_set", "sample_set_index", "volume", "kiai")]
    samples = [(float(r[0]), r[1], int(r[2]), None) for r in cols(m.samples, "offset", "sample_file", "volume")]
    meta = {k: getattr(m, a) for k, (_, _, a) in KEYS.items()}
    return dict(keys=int(m.circle_size), hits=hits, holds=holds, bpms=bpms, svs=svs, samples=samples, background=m.background_file_name, meta=meta)


# ----------------------------------------------------------------------------- comparison


def _match(A, B, compat):
    """perfect matching of two lists of tuples (key, time, ...) under compat; -> (ok, detail)"""
    if len(A) != len(B):
        return False, f"{len(A)} items vs {len(B)}"
    sa, sb = sorted(A, key=lambda x: (x[0], x[1])), sorted(B, key=lambda x: (x[0], x[1]))
    if all(compat(a, b) for a, b in zip(sa, sb)):
        return True, ""
    cand = [[j for j, b in enumerate(sb) if compat(a, b)] for a in sa]
    owner = {}

    def augment(i, seen):
        for j in cand[i]:
            if j not in seen:
                seen.add(j)
                if j not in owner or augment(owner[j], seen):
                    owner[j] = i
                    return True
        return False

    for i, a in enumerate(sa):
        if not augment(i, set()):
            return False, f"no partner for {_show(a)}; other side: {[_show(b) for b in sb if b[0] == a[0]][:4]}"
    return True, ""


def _show(t):
    return tuple(float(x) if isinstance(x, Fraction) else x for x in t)


def _close(a, b, rel):
    a, b = float(a), float(b)
    return a == b or math.isclose(a, b, rel_tol=rel, abs_tol=0.0)


def compare(want, got, tol, rel=1e-12, exact_time=False):
    """[(aspect, detail)]: `got` vs `want` (charts of den_osu / chart_of).  Note / sample / timing times may
    differ by less than `tol` (or not at all with exact_time); bpm / SV values to `rel` relative."""
    out = []

    def lt(x, y):
        return x == y if exact_time else abs(float(x) - float(y)) < tol

    if want["keys"] != got["keys"]:
        out.append(("keys", f"key count {got['keys']} want {want['keys']}"))
    ok, d = _match([(c, t) for c, t, _ in want["hits"]], [(c, t) for c, t, _ in got["hits"]], lambda a, b: a[0] == b[0] and lt(a[1], b[1]))
    if not ok:
        out.append(("hits", "(column, time): " + d))
    ok, d = _match([(c, t, t + ln) for c, t, ln, _ in want["holds"]], [(c, t, t + ln) for c, t, ln, _ in got["holds"]], lambda a, b: a[0] == b[0] and lt(a[1], b[1]) and lt(a[2], b[2]))
    if not ok:
        out.append(("holds", "(column, start, end): " + d))
    if not out:
        wn = [(c, t, f) for c, t, f in want["hits"]] + [(c, t, f) for c, t, _, f in want["holds"]]
        gn = [(c, t, f) for c, t, f in got["hits"]] + [(c, t, f) for c, t, _, f in got["holds"]]
        ok, d = _match(wn, gn, lambda a, b: a[0] == b[0] and lt(a[1], b[1]) and a[2] == b[2])
        if not ok:
            out.append(("hitsound_fields", "(column, time, (hitSound, normalSet, additionSet, index, volume, file)): " + d))
    ok, d = _match([(0, t, v) for t, v, _ in want["bpms"]], [(0, t, v) for t, v, _ in got["bpms"]], lambda a, b: lt(a[1], b[1]) and _close(a[2], b[2], rel))
    if not ok:
        out.append(("tempo_points", "(time, bpm): " + d))
    ok, d = _match([(0, t, v) for t, v, _ in want["svs"]], [(0, t, v) for t, v, _ in got["svs"]], lambda a, b: lt(a[1], b[1]) and _close(a[2], b[2], rel))
    if not ok:
        out.append(("svs", "(time, multiplier): " + d))
    if not any(a in ("tempo_points", "svs") for a, _ in out):
        # kiai apart from the other per-point fields (the format makes it bit 0 of `effects`)
        ok1, d1 = _match([(0, t, f[:-1]) for t, _, f in want["bpms"]] + [(1, t, f[:-1]) for t, _, f in want["svs"]],
                         [(0, t, f[:-1]) for t, _, f in got["bpms"]] + [(1, t, f[:-1]) for t, _, f in got["svs"]], lambda a, b: a[0] == b[0] and lt(a[1], b[1]) and a[2] == b[2])
        if not ok1:
            out.append(("timing_point_fields", "(kind 0 tempo / 1 SV, time, ([meter,] sampleSet, sampleIndex, volume)): " + d1))
        ok2, d2 = _match([(0, t, f[-1]) for t, _, f in want["bpms"]] + [(1, t, f[-1]) for t, _, f in want["svs"]],
                         [(0, t, f[-1]) for t, _, f in got["bpms"]] + [(1, t, f[-1]) for t, _, f in got["svs"]], lambda a, b: a[0] == b[0] and lt(a[1], b[1]) and a[2] == b[2])
        if not ok2:
            out.append(("kiai", "(kind, time, kiai): " + d2))
    # sample events: the file name is compared without surrounding double quotes (the editor writes them, the
    # in-memory representation may or may not keep them); the storyboard layer is not compared (see extra)
    ok, d = _match([(0, t, _unquote(f), v) for t, f, v, _ in want["samples"]], [(0, t, _unquote(f), v) for t, f, v, _ in got["samples"]], lambda a, b: lt(a[1], b[1]) and a[2:] == b[2:])
    if not ok:
        out.append(("samples", "(time, file, volume): " + d))
    if want["background"] is not None and (got["background"] or "") != want["background"]:
        out.append(("background", f"got {got['background']!r} want {want['background']!r}"))
    return out


def _unidecode(s):
    """Romanised form of a text as a ONE-LINE field: unidecode maps U+2028 / U+2029 to line breaks, which cannot be
    part of a `Key:value` line; in a one-line field they are blanks."""
    from unidecode import unidecode

    return unidecode(s).replace("\r", " ").replace("\n", " ")


def compare_meta_text_vs_memory(dmeta, mmeta, direction):
    """den_osu's Key -> text against in-memory field values.  direction 'read': the text is given, memory must
    hold its value; 'write': memory is given, the text must denote it.  -> [(Key, detail)]"""
    out = []
    for k, (_sec, kind, _a) in KEYS.items():
        if k not in dmeta:
            if direction == "write":
                out.append((k, "key not written"))
            continue  # read: an omitted key has the format's default, which A5 does not list: not asserted
        txt, v = dmeta[k], mmeta[k]
        try:
            if kind == "text":
                want = [str(v).strip()] if direction == "read" else [str(v).strip()]
                if direction == "write" and k in ("Title", "Artist"):
                    want.append(_unidecode(str(v)).strip())  # the romanised fields: either the stored text or its romanisation
                ok = (str(v) == txt) if direction == "read" else (txt in want)
            elif kind == "tags":
                ok = list(v) == [x for x in txt.split(" ") if x] if not isinstance(v, str) else [x for x in v.split(" ") if x] == [x for x in txt.split(" ") if x]
            elif kind == "int":
                ok = int(v) == _int(txt, k) and (float(v) == int(v))
            elif kind == "flag":
                ok = _int(txt, k) in (0, 1) and bool(v) == bool(_int(txt, k))
            elif kind == "sampleset":
                ok = txt in SAMPLESETS and SAMPLESETS.index(txt) == int(v)
            else:
                ok = _close(_dec(txt, k), Fraction(float(v)), 1e-9 if direction == "read" else 5e-6)  # write: 6 significant digits, see compare_meta_text_vs_text
        except DenError as ex:
            out.append((k, f"text {txt!r} is not a value of the key's type ({ex}); in memory {v!r}"))
            continue
        except Exception as ex:
            out.append((k, f"text {txt!r} vs in memory {v!r}: {type(ex).__name__}: {ex}"))
            continue
        if not ok:
            out.append((k, f"text {txt!r} vs in memory {v!r}"))
    return out


def compare_meta_text_vs_text(want, got, dec_rel=5e-6):
    """dec_rel: decimal metadata (difficulty / editor settings) is compared to 6 significant digits when a text
    is re-written - the property gives no tolerance for them and they are not chart content; between written
    generations (drift) the caller passes 1e-12."""
    out = []
    for k, (_sec, kind, _a) in KEYS.items():
        if k not in want:
            continue
        if k not in got:
            out.append((k, "key not written"))
            continue
        a, b = want[k], got[k]
        try:
            if kind in ("int", "flag"):
                ok = _int(a, k) == _int(b, k)
            elif kind == "dec":
                ok = _close(_dec(a, k), _dec(b, k), dec_rel)
            elif kind == "tags":
                ok = [x for x in a.split(" ") if x] == [x for x in b.split(" ") if x]
            elif kind == "text" and k in ("Title", "Artist"):
                ok = b in (a, _unidecode(a).strip())
            else:
                ok = a == b
        except DenError as ex:
            out.append((k, f"{b!r}: {ex}"))
            continue
        if not ok:
            out.append((k, f"got {b!r} want {a!r}"))
    return out


# ----------------------------------------------------------------------------- generators

TEXTS = ["", "plain", "  padded  ", "Tribal Trial", "a:b", "re: zero - ep 1: start", "x::y", ":", "日本語: テスト", "Äö:ü", "Ünïcödé ♥", "emoji 🎵", "tab\there", "trailing:", ":leading", "C:\\songs\\a.mp3", "[General]x", "//not a comment?"]
# Values that are inside the format (A5) but outside what the editor usually writes; each one only feeds clauses of
# its own (read.kiai_is_effects_bit0, *.metadata[Countdown], write.metadata[AudioLeadIn] / read_after_write.accepts).
# Emptying a list removes the value from the generators without touching any other clause.
EDGE = dict(
    effects=[8, 9],            # bit 3 = "omit first barline": kiai is bit 0 only
    Countdown=[2, 3],          # the key is an int (countdown speed), not a flag
    audio_lead_in=[1500000],   # an in-memory int whose ':g' rendering is no longer an integer literal
)
TAGS = ["a", "b:c", "é", "日本語", "x-y", "123", "t:a:g"]
# white space other than the ASCII space INSIDE a value (the format separates tags with ' ' only and trims values
# at their edges only), full-width / wave-dash punctuation, and the characters that are separators elsewhere in the format
WS_TAGS = ["東方\u3000アレンジ", "touhou\u00a0project", "a\tb", "em\u2003space", "thin\u2009sp", "nel\x85x", "ls\u2028x", "～wave〜", "x,y", "#h", "//c", "ＦＵＬＬ", "A", "Ａ"]
WS_TEXTS = ["full\u3000width space", "nb\u00a0sp", "em\u2003space in", "～wave〜 dash", "a,b", "#hash", "a //b", "ＦＵＬＬ　ＷＩＤＴＨ", "x\u2028y", "\"quoted\"", "UPPER lower", "a  two spaces"]
FILES = ["", "", "hit.wav", "soft-hitclap2.wav", "é.ogg", "a b.wav"]
TIMES = [0, 1, 565, 1000, 24565, -1, -250, -5000, 0.5, 100.25, 999.75, -0.5, -100.75, 10**9, 10**9 + 0.5, 3600000]
# values that round differently under truncation / floor / half-even / 6 significant digits
TIMES2 = [1.999, -1.999, 2.5, -2.5, 3.5, 0.001, -0.001, 0.999999, 1234567, 1234567.25, -1234567.75, 86400000.5, 123456.789]
BPMS = [120, 177.5, 60, 200, 333.333, 165.00000000000017, 0.001, 1000000.0, 90.1]
BPMS2 = [123.456789012, 59.94, 1e-06, 700000.5, 128]
MULTS = [1.0, 0.5, 2.0, 1.25, 0.01, 10.0, -1.0, 0.7071, 3.3333333333333335]
MULTS2 = [1.23456789, 100.0, 0.001, 0.1, 1]


def _time(rng):
    return rng.choice(TIMES2) if rng.random() < 0.25 else rng.choice(TIMES)


def _bpm(rng):
    return rng.choice(BPMS2) if rng.random() < 0.2 else rng.choice(BPMS)


def _mult(rng):
    return rng.choice(MULTS2) if rng.random() < 0.2 else rng.choice(MULTS)


def _text(rng):
    return rng.choice(WS_TEXTS) if rng.random() < 0.2 else rng.choice(TEXTS)


def _tags(rng):
    """0..4 tags; a third of the lists take tags with non-ASCII white space / separators inside"""
    pool = TAGS + WS_TAGS if rng.random() < 0.35 else TAGS
    return rng.sample(pool, rng.randrange(0, 5))


def _fmt_time(t):
    return str(t) if isinstance(t, int) else repr(float(t))


def _x_in_column(rng, c, K, mode):
    lo = -(-512 * c // K)
    hi = -(-512 * (c + 1) // K) - 1
    if mode == "centre":
        return (512 * c + 256) // K
    return rng.choice([lo, hi, rng.randint(lo, hi)])


EVENT_LAYOUTS = ["editor", "editor", "editor", "editor", "video_after", "breaks_sprites", "video_first", "no_comments"]
# layouts of [Events] in which the background / sample lines are NOT where the editor's comment lines say: what they
# denote does not depend on that (comments are comments).  They report under clause ids of their own.
OWN_CLAUSE_EVENTS = ("video_first", "no_comments")
EXTRA_KEYS = dict(General=["EpilepsyWarning: 1", "SkinPreference:", "SamplesMatchPlaybackRate: 0", "AudioHash: 0f:a1"], Editor=["Bookmarks: 1000,2000,3000"],
                  Metadata=["Genre:unknown: key"], Difficulty=["Unknown:1.5"])


def gen_layout(rng):
    """How the same content is laid out as a text and handed to the reader (every choice leaves the denotation alone)."""
    lay = dict(
        eol=rng.choice(["\n", "\n", "\r\n"]),                               # line ends of the text
        tail=rng.choice(["\n", "\n", "", "\n\n\n", "\n  \n\t\n"]),           # end of the text: one newline / none / blank lines
        read_as=rng.choice(["split", "split", "keepends", "instance"]),     # list without / with line terminators; through an instance
        colon=rng.choice([0, 0, 1, 2, 3]),                                  # 0 editor ("K: v" in General/Editor, "K:v" else), 1 padded, 2 "K: v" everywhere, 3 "K:v" everywhere
        kv_comments=rng.random() < 0.2,                                     # '//' lines inside the key-value sections
        extra_keys=rng.random() < 0.25,                                     # keys the format has but the chart model has not
        colours=rng.choice([None, None, None, "after_tp", "before_tp"]),    # a [Colours] section (the editor puts it after [TimingPoints])
        events=rng.choice(EVENT_LAYOUTS),
        blank=rng.choice([1, 1, 0, 2]),                                     # blank lines between sections
        file=rng.random() < 0.2,                                            # also through read_file (besides every 10th case)
        path=rng.choice(["str", "Path"]),                                   # argument type of read_file
        second_reader=rng.random() < 0.3,                                   # a second result of the same text is edited afterwards
    )
    lay["prior_file"] = rng.choice([None, "longer", "shorter"])             # read_file: the path held another file, which was read first
    lay["again"] = rng.random() < 0.2                                       # a result edited in place, another text read, then the same text again
    return lay


def gen_text_case(rng, K):
    """JSON-able spec of one whole .osu text of the dialect (emit_text rebuilds the text from it)."""
    n_obj = rng.randrange(0, 7)
    objs = []
    for _ in range(n_obj):
        c = rng.randrange(K)
        t = _time(rng)
        if objs and rng.random() < 0.2:
            t = rng.choice(objs)["t"]  # a tie: two objects at exactly the same time (any columns)
        fields = [rng.choice([0, 0, 2, 4, 8, 10, 14, 1, 3, 15]), rng.randrange(4), rng.randrange(4), rng.choice([0, 0, 1, 7, 99, 2147483647]), rng.choice([0, 0, 35, 100]), rng.choice(FILES)]
        o = dict(x=_x_in_column(rng, c, K, rng.choice(["centre", "any", "any"])), y=rng.choice([192, 0, 384]), t=t, hs=fields)
        if rng.random() < 0.4:
            o["end"] = t + rng.choice([1, 50, 500.5, 100000, 0, 0.25] if not isinstance(t, int) else [1, 50, 500, 100000, 0])  # 0: end == start
            o["type"] = rng.choice([128, 128, 132])
        else:
            o["type"] = rng.choice([1, 1, 5, 21, 69])
        objs.append(o)
    if rng.random() < 0.15:
        objs = [o for o in objs if "end" not in o]
    elif rng.random() < 0.15:
        objs = [o for o in objs if "end" in o]
    tps = []
    shape = rng.choice(["mixed"] * 7 + ["none", "svs_only", "tempo_only"])
    for _ in range(0 if shape == "none" else rng.randrange(1, 4)):
        un = rng.random() < 0.5 if shape == "mixed" else shape == "tempo_only"
        v = _bpm(rng) if un else _mult(rng)
        bl = (60000.0 / v) if un else (-100.0 / v)
        t = _time(rng)
        if tps and rng.random() < 0.3:
            t = rng.choice(tps)["t"]  # a tie: two timing points (tempo / SV, any values) at exactly the same time
        tps.append(dict(t=t, bl=rng.choice([repr(bl), repr(bl), f"{bl:.12f}".rstrip("0") + "0"]), meter=rng.choice([4, 3, 7, 1, 16]), ss=rng.randrange(4), si=rng.choice([0, 1, 2, 99]), vol=rng.choice([60, 100, 5, 0]), un=int(un), eff=rng.choice([0, 0, 1, 1] + EDGE["effects"])))
    samples = [dict(t=_time(rng), layer=rng.choice([0, 0, 1, 2, 3]), file=rng.choice(["clap.wav", "é.ogg", "a b.wav", "sb\\Ｓ～.wav"]), quoted=rng.random() < 0.8, vol=rng.choice([70, 100, 0])) for _ in range(rng.randrange(0, 3))]
    tags = _tags(rng)
    sep = rng.choice([" ", " ", "  "])
    meta = dict(
        AudioFilename=rng.choice(["audio.mp3", "a:b.mp3", "é.ogg", "my song.mp3", "ａ　ｂ.mp3"]), AudioLeadIn=rng.choice([0, 500, 99999]), PreviewTime=rng.choice([-1, 0, 86398]),
        Countdown=rng.choice([0, 1, 1] + EDGE["Countdown"]), SampleSet=rng.choice(SAMPLESETS), StackLeniency=rng.choice(["0.7", "0.35", "1"]), Mode=3,
        LetterboxInBreaks=rng.randrange(2), SpecialStyle=rng.randrange(2), WidescreenStoryboard=rng.randrange(2),
        DistanceSpacing=rng.choice(["0.4", "4", "1.5"]), BeatDivisor=rng.choice([4, 8, 16]), GridSize=rng.choice([4, 8, 32]), TimelineZoom=rng.choice(["1.9", "0.3", "2"]),
        Title=_text(rng), TitleUnicode=_text(rng), Artist=_text(rng), ArtistUnicode=_text(rng), Creator=_text(rng), Version=_text(rng),
        Source=_text(rng), Tags=rng.choice(["", "", " ", "  "]) + sep.join(tags) + rng.choice(["", "", " "]), BeatmapID=rng.choice([0, 2062527]), BeatmapSetID=rng.choice([-1, 965664]),
        HPDrainRate=rng.choice(["7.5", "5", "8.25"]), CircleSize=rng.choice([str(K), str(K), f"{K}.0"]), OverallDifficulty=rng.choice(["7.5", "9.3"]), ApproachRate="5", SliderMultiplier=rng.choice(["1.4", "2"]),
        SliderTickRate=rng.choice(["1", "2"]),
    )
    # keys the format allows to be omitted (all but the mode and the key count), and keys in another order
    r = rng.random()
    if r < 0.25:
        for k in rng.sample([k for k in meta if k not in ("Mode", "CircleSize")], rng.choice([1, 1, 3, 8])):
            del meta[k]
    elif r < 0.3:
        for k in [k for k in meta if KEYS[k][0] == "Editor"]:
            del meta[k]  # a text without an [Editor] section at all
    if rng.random() < 0.25:
        ks = list(meta)
        rng.shuffle(ks)
        meta = {k: meta[k] for k in ks}
    spec = dict(kind="text", K=K, meta=meta, bg=rng.choice(["BG.png", "my: bg.png", "é.jpg", "a,b.jpg", "", "ｂｇ　１.png"]), samples=samples, tps=tps, objs=objs, pad=False, layout=gen_layout(rng))
    if rng.random() < 0.25:
        spec["then_edit"] = gen_edits(rng)  # what was read is written, edited, written again
    if rng.random() < 0.12:  # (16) a text that is a marker elsewhere in the format, as the ordinary value of one or two text keys
        for k in rng.sample([k for k in meta if KEYS[k][1] == "text"], min(2, len([k for k in meta if KEYS[k][1] == "text"]))):
            meta[k] = rng.choice(SPECIAL_TEXTS)
    _more_dimensions(rng, spec, _distinct_text, _order_text)
    return spec


def _objs(spec):
    """the hit objects of a text spec; `sweep` = one hit at EVERY x in 0..511 (time = x), complete for
    "any x inside a column's range" at that key count"""
    if spec.get("sweep"):
        return [dict(x=x, y=192, t=x, type=1, hs=[0, 0, 0, 0, 0, ""]) for x in range(512)]
    return spec["objs"]


def _sample_line(s, with_volume=True):
    f = f'"{s["file"]}"' if s["quoted"] else s["file"]
    return f'Sample,{_fmt_time(s["t"])},{s["layer"]},{f}' + (f',{s["vol"]}' if with_volume else "")


def emit_text(spec, sample_volume=True):
    """The text of a spec.  Old specs (no `layout`) give the text they always gave."""
    m = spec["meta"]
    lay = spec.get("layout") or {}
    colon = lay.get("colon", 1 if spec.get("pad") else 0)
    blank = [""] * lay.get("blank", 1)
    L = ["osu file format v14"] + blank
    for sec in KV_SECTIONS:
        keys = [k for k in m if KEYS[k][0] == sec]
        if not keys and lay:
            continue  # a section without keys is not written at all
        L.append(f"[{sec}]")
        if lay.get("kv_comments"):
            L.append(f"//{keys[0]}:a comment, not a value")
        for i, k in enumerate(keys):
            kind = KEYS[k][1]
            # the editor writes "Key: value" in [General]/[Editor] and "Key:value" in [Metadata]/[Difficulty]
            sp = {0: " " if sec in ("General", "Editor") else "", 1: "  " if sec in ("General", "Editor") else "", 2: " ", 3: ""}[colon]
            L.append(f"{k}:{sp}{m[k]}{'  ' if colon == 1 and kind == 'text' else ''}")
            if lay.get("extra_keys") and i == 0:
                L += EXTRA_KEYS[sec]
        L += blank
    ev = lay.get("events", "editor")
    bg = f'0,0,"{spec["bg"]}",0,0'
    video = 'Video,-150,"intro: a.avi",0,0'
    smp = [_sample_line(s, sample_volume) for s in spec["samples"]]
    if ev == "editor":
        E = ["//Background and Video events", bg, "//Break Periods", "//Storyboard Layer 0 (Background)", "//Storyboard Layer 1 (Fail)",
             "//Storyboard Layer 2 (Pass)", "//Storyboard Layer 3 (Foreground)", "//Storyboard Layer 4 (Overlay)", "//Storyboard Sound Samples"] + smp
    elif ev == "video_after":
        E = ["//Background and Video events", bg, video, "//Break Periods", "2,1000,2000", "//Storyboard Layer 0 (Background)", "//Storyboard Layer 1 (Fail)",
             "//Storyboard Layer 2 (Pass)", "//Storyboard Layer 3 (Foreground)", "//Storyboard Layer 4 (Overlay)", "//Storyboard Sound Samples"] + smp
    elif ev == "breaks_sprites":
        E = ["//Background and Video events", bg, "//Break Periods", "2,1000,2000", "2,50000,61000", "//Storyboard Layer 0 (Background)",
             'Sprite,Background,Centre,"sb\\flash.png",320,240', " F,0,1000,2000,0,1", "_M,0,1000,,320,240", "//Storyboard Layer 1 (Fail)", "//Storyboard Layer 2 (Pass)",
             'Animation,Pass,Centre,"sb\\a.png",320,240,4,100,LoopForever', "//Storyboard Layer 3 (Foreground)", "//Storyboard Layer 4 (Overlay)", "//Storyboard Sound Samples"] + smp
    elif ev == "video_first":  # a video event before the background event
        E = ["//Background and Video events", video, bg, "//Break Periods", "//Storyboard Layer 0 (Background)", "//Storyboard Layer 1 (Fail)",
             "//Storyboard Layer 2 (Pass)", "//Storyboard Layer 3 (Foreground)", "//Storyboard Layer 4 (Overlay)", "//Storyboard Sound Samples"] + smp
    elif ev == "no_comments":  # the same events without the editor's comment lines
        E = [bg] + smp
    else:
        raise ValueError(ev)
    L += ["[Events]"] + E + blank
    colours = ["[Colours]", "Combo1 : 255,128,0", "Combo2 : 0,202,0"] + blank
    if lay.get("colours") == "before_tp":
        L += colours
    L += ["[TimingPoints]"]
    for t in spec["tps"]:
        L.append(f'{_fmt_time(t["t"])},{t["bl"]},{t["meter"]},{t["ss"]},{t["si"]},{t["vol"]},{t["un"]},{t["eff"]}')
    L += blank if lay else ["", ""]
    if lay.get("colours") == "after_tp":
        L += colours
    L += blank[:1] if lay else []
    L += ["[HitObjects]"]
    for o in _objs(spec):
        hs, rest = o["hs"][0], ":".join(str(v) for v in o["hs"][1:])
        if "end" in o:
            L.append(f'{o["x"]},{o["y"]},{_fmt_time(o["t"])},{o["type"]},{hs},{_fmt_time(o["end"])}:{rest}')
        else:
            L.append(f'{o["x"]},{o["y"]},{_fmt_time(o["t"])},{o["type"]},{hs},{rest}')
    return lay.get("eol", "\n").join(L) + lay.get("tail", "\n").replace("\n", lay.get("eol", "\n"))


# ----------------------------------------------------------------------------- dimensions 14 / 16 / 17 (generator only)
# 14: every metadata key and every column of every record non-default, non-empty and different from every sibling of its type
D_TEXTS = ["alpha: one", "beta b", "gamma.g", "delta-4", "epsilon e", "zeta: z", "eta 7", "theta", "iota_i", "kappa k", "lambda", "mu m"]
D_INTS = [2, 3, 6, 12, 16, 250, 1999, 31337, 77777, 99998]
D_DECS = ["0.2", "0.9", "1.1", "1.6", "2.3", "2.7", "3.3", "3.9", "6.1", "6.6", "8.2", "9.4"]
D_TEXT_KEYS = ("AudioFilename", "Title", "TitleUnicode", "Artist", "ArtistUnicode", "Creator", "Version", "Source")
D_INT_KEYS = ("AudioLeadIn", "PreviewTime", "BeatDivisor", "GridSize", "BeatmapID", "BeatmapSetID")
D_DEC_KEYS = ("StackLeniency", "DistanceSpacing", "TimelineZoom", "HPDrainRate", "OverallDifficulty", "ApproachRate", "SliderMultiplier", "SliderTickRate")
# 16: texts that are markers ELSEWHERE in the format, as ordinary values of a key (a value is whatever follows the first ':')
SPECIAL_TEXTS = ["[HitObjects]", "[Events]", "osu file format v14", 'Sample,0,0,"a.wav",100', '0,0,"bg.png",0,0', "Title:other", "Mode: 0", "CircleSize:4", "-1", "0", "None", "256,192,0,1,0,0:0:0:0:", "100,-100,4,1,0,100,0,0"]


def _d_note_fields(rng):
    ns, ad = rng.sample([1, 2, 3], 2)
    return [rng.choice([4, 8, 10, 12, 14]), ns, ad, rng.choice([5, 6, 7, 99]), rng.choice([20, 35, 61]), rng.choice(["hit.wav", "é.ogg", "a b.wav"])]


def _d_point_fields(rng):
    """meter, sampleSet, sampleIndex, volume: pairwise different, none the value of a new point"""
    return rng.choice([3, 5, 7]), rng.choice([1, 2, 3]), rng.choice([8, 9, 11]), rng.choice([20, 35, 61])


def _distinct_text(rng, spec):
    K, m = spec["K"], spec["meta"]
    if not any("end" in o for o in spec["objs"]):
        spec["objs"].append(dict(x=_x_in_column(rng, K - 1, K, "centre"), y=192, t=_time(rng), type=128, hs=None))
        spec["objs"][-1]["end"] = spec["objs"][-1]["t"] + 50
    if not any("end" not in o for o in spec["objs"]):
        spec["objs"].append(dict(x=_x_in_column(rng, 0, K, "centre"), y=192, t=_time(rng), type=1, hs=None))
    for o in spec["objs"]:
        o["hs"] = _d_note_fields(rng)
    for un in (1, 0):
        if not any(t["un"] == un for t in spec["tps"]):
            v = _bpm(rng) if un else _mult(rng)
            spec["tps"].append(dict(t=_time(rng), bl=repr((60000.0 / v) if un else (-100.0 / v)), meter=4, ss=0, si=0, vol=100, un=un, eff=0))
    for t in spec["tps"]:
        t["meter"], t["ss"], t["si"], t["vol"] = _d_point_fields(rng)
        t["eff"] = 1
    if not spec["samples"]:
        spec["samples"].append(dict(t=_time(rng), layer=0, file="clap.wav", quoted=True, vol=70))
    for i, s_ in enumerate(spec["samples"]):
        s_["vol"], s_["layer"] = [33, 70, 45][i % 3], [1, 2, 3][i % 3]
    texts = rng.sample(D_TEXTS, len(D_TEXT_KEYS) + 1)
    for k, v in zip(D_TEXT_KEYS, texts):
        m[k] = v + (".mp3" if k == "AudioFilename" else "")
    spec["bg"] = texts[-1] + ".png"
    for k, v in zip(D_INT_KEYS, rng.sample(D_INTS, len(D_INT_KEYS))):
        m[k] = v
    for k, v in zip(D_DEC_KEYS, rng.sample(D_DECS, len(D_DEC_KEYS))):
        m[k] = v
    m.update(Countdown=1, SampleSet=rng.choice(SAMPLESETS[1:]), Mode=3, LetterboxInBreaks=1, SpecialStyle=1, WidescreenStoryboard=0, Tags=" ".join(rng.sample(TAGS, 3)), CircleSize=str(K))


def _distinct_chart(rng, spec):
    K, m = spec["K"], spec["meta"]
    if not spec["hits"]:
        spec["hits"].append([_time(rng), 0])
    if not spec["holds"]:
        spec["holds"].append([_time(rng), K - 1, 50.5])
    if not spec["bpms"]:
        spec["bpms"].append([_time(rng), _bpm(rng)])
    if not spec["svs"]:
        spec["svs"].append([_time(rng), _mult(rng)])
    if not spec["samples"]:
        spec["samples"].append([_time(rng), "clap.wav", 70])
    spec["hits"] = [h[:2] + _d_note_fields(rng) for h in spec["hits"]]
    spec["holds"] = [h[:3] + _d_note_fields(rng) for h in spec["holds"]]
    for rows, n in ((spec["bpms"], 2), (spec["svs"], 2)):
        for i, r in enumerate(rows):
            meter, ss, si, vol = _d_point_fields(rng)
            rows[i] = r[:2] + ([meter] if rows is spec["bpms"] else []) + [ss, si, vol, True]
    for i, s_ in enumerate(spec["samples"]):
        s_[2] = [33, 70, 45][i % 3]
    texts = rng.sample(D_TEXTS, 9)
    for k, v in zip(("audio_file_name", "title", "title_unicode", "artist", "artist_unicode", "creator", "version", "source"), texts):
        m[k] = v + (".mp3" if k == "audio_file_name" else "")
    m["background_file_name"] = texts[-1] + ".png"
    for k, v in zip(("audio_lead_in", "preview_time", "beat_divisor", "grid_size", "beatmap_id", "beatmap_set_id", "slider_tick_rate"), rng.sample(D_INTS, 7)):
        m[k] = v
    for k, v in zip(("stack_leniency", "distance_spacing", "timeline_zoom", "hp_drain_rate", "overall_difficulty", "approach_rate", "slider_multiplier"), rng.sample(D_DECS, 7)):
        m[k] = float(v)
    m.update(countdown=True, sample_set=rng.choice([1, 2, 3]), mode=3, letterbox_in_breaks=True, special_style=True, widescreen_storyboard=False, tags=rng.sample(TAGS, 3), circle_size=float(K))


# 17: which KIND of element (object, tempo point, SV point, sample event) is the earliest / the latest of the whole chart
ORDER_MODES = ("first", "first_tied", "last", "last_tied")


def _reorder_kinds(rng, kinds, get, put):
    """kinds: name -> list of elements.  One element of one kind is moved strictly before / exactly onto the earliest element of
    ALL kinds, or strictly after / exactly onto the latest.  -> label or None"""
    present = [k for k, v in kinds.items() if v]
    if len(present) < 2:
        return None
    allt = [get(e) for v in kinds.values() for e in v]
    k, mode = rng.choice(present), rng.choice(ORDER_MODES)
    e = rng.choice(kinds[k])
    new = {"first": min(allt) - rng.choice([1, 250, 1000.5]), "first_tied": min(allt), "last": max(allt) + rng.choice([1, 250, 1000.5]), "last_tied": max(allt)}[mode]
    put(e, new)
    return f"{k}_{mode}"


def _order_text(rng, spec):
    def put(e, t):
        if "end" in e:
            e["end"] = t + (e["end"] - e["t"])
        e["t"] = t

    return _reorder_kinds(rng, dict(object=spec["objs"], tempo=[t for t in spec["tps"] if t["un"]], sv=[t for t in spec["tps"] if not t["un"]], sample=spec["samples"]), lambda e: e["t"], put)


def _order_chart(rng, spec):
    return _reorder_kinds(rng, dict(hit=spec["hits"], hold=spec["holds"], tempo=spec["bpms"], sv=spec["svs"], sample=spec["samples"]), lambda e: e[0], lambda e, t: e.__setitem__(0, t))


def _more_dimensions(rng, spec, distinct, order):
    dims = []
    if rng.random() < 0.2:
        distinct(rng, spec)
        dims.append("all_fields_distinct")
    if rng.random() < 0.3:
        lab = order(rng, spec)
        if lab:
            dims.append(lab)
    spec["dims"] = dims


LABEL_MODES = [None, None, None, "gappy", "rev", "perm", "sorted", "filtered", "dup"]
LIST_NAMES = ("hits", "holds", "bpms", "svs", "samples")


def gen_chart_case(rng, K):
    """JSON-able spec of one in-memory chart (build_chart rebuilds it through the real constructors)."""
    def nf():
        return [rng.choice([0, 0, 2, 8, 14, 1, 15]), rng.randrange(4), rng.randrange(4), rng.choice([0, 0, 3, 99, 2147483647]), rng.choice([0, 0, 40, 100]), rng.choice(FILES)]

    def tf():
        return [rng.randrange(4), rng.choice([0, 1, 99]), rng.choice([50, 100, 5, 0]), rng.random() < 0.3]

    def tie(rows, t):
        return rng.choice(rows)[0] if rows and rng.random() < 0.25 else t  # two rows of a list at exactly the same time

    shape = rng.choice(["both", "both", "both", "hits_only", "holds_only", "empty"])
    hits, holds, bpms, svs = [], [], [], []
    for _ in range(0 if shape in ("holds_only", "empty") else rng.randrange(1, 5)):
        hits.append([tie(hits, _time(rng)), rng.randrange(K)] + nf())
    for _ in range(0 if shape in ("hits_only", "empty") else rng.randrange(1, 3)):
        holds.append([tie(hits + holds, _time(rng)), rng.randrange(K), rng.choice([0.2, 1, 50.5, 500, 99999.9, 0, 0.001, 0.999, 1234567.75])] + nf())  # 0: a hold that ends where it starts
    for _ in range(rng.choice([1, 1, 1, 2, 2, 3, 0])):  # 0: a chart without any tempo point
        bpms.append([tie(bpms, _time(rng)), _bpm(rng), rng.choice([4, 3, 7, 1, 16])] + tf())
    for _ in range(rng.randrange(0, 3)):
        svs.append([tie(svs + bpms, _time(rng)), _mult(rng)] + tf())
    samples = [[_time(rng), rng.choice(["clap.wav", '"clap.wav"', "é.ogg", '"sb\\Ｓ～　１.wav"']), rng.choice([70, 100, 0])] for _ in range(rng.randrange(0, 3))]
    meta = dict(
        audio_file_name=rng.choice(["audio.mp3", "a:b.mp3", "é.ogg", "ａ　ｂ.mp3"]), audio_lead_in=rng.choice([0, 0, 500, 500, 99999, 99999, 0, 500, 99999] + EDGE["audio_lead_in"]), preview_time=rng.choice([-1, 0, 123456]), countdown=rng.random() < 0.5,
        sample_set=rng.randrange(4), stack_leniency=rng.choice([0.7, 0.35, 1.0]), mode=3, letterbox_in_breaks=rng.random() < 0.5, special_style=rng.random() < 0.5,
        widescreen_storyboard=rng.random() < 0.5, distance_spacing=rng.choice([4, 1.5, 0.8]), beat_divisor=rng.choice([4, 8, 16]), grid_size=rng.choice([4, 8, 32]),
        timeline_zoom=rng.choice([0.3, 1.5, 2]), title=_text(rng), title_unicode=_text(rng), artist=_text(rng), artist_unicode=_text(rng),
        creator=_text(rng), version=_text(rng), source=_text(rng), tags=_tags(rng), beatmap_id=rng.choice([0, 2062527]),
        beatmap_set_id=rng.choice([-1, 965664]), hp_drain_rate=rng.choice([5.0, 7.5, 8.25]), circle_size=rng.choice([float(K), float(K), int(K)]), overall_difficulty=rng.choice([5.0, 9.3]), approach_rate=5.0,
        slider_multiplier=rng.choice([1.4, 2.0]), slider_tick_rate=rng.choice([1, 2, 4]), background_file_name=rng.choice(["bg.jpg", "my: bg.png", "", "é.png", "ｂｇ　１.png"]),
    )
    if rng.random() < 0.25:  # fields left at the defaults of a new OsuMap() (the tag list's default is the empty string)
        for k in rng.sample([k for k in meta if k != "circle_size"], rng.choice([1, 3, 10])):
            del meta[k]
    spec = dict(kind="chart", K=K, hits=hits, holds=holds, bpms=bpms, svs=svs, samples=samples, meta=meta)
    # row labels / row order of every list the writer receives, each list on its own
    if rng.random() < 0.5:
        spec["labels"] = {n: rng.choice(LABEL_MODES) for n in LIST_NAMES}
    spec["numbers"] = rng.choice(["py", "py", "py", "numpy", "float"])  # python numbers as generated / numpy scalars / every time a float
    spec["file"] = dict(on=rng.random() < 0.2, path=rng.choice(["str", "Path"]), over_existing=rng.random() < 0.5)
    spec["second_chart"] = rng.random() < 0.3
    spec["file"]["existing"] = rng.choice(["longer", "shorter", "other_chart"])  # what the path holds when over_existing
    if rng.random() < 0.3:
        spec["then_edit"] = gen_edits(rng)
    if rng.random() < 0.12:  # (16)
        for k in rng.sample([k for k in meta if k in ("title", "title_unicode", "artist", "artist_unicode", "creator", "version", "source", "audio_file_name", "background_file_name")] or ["title"], 1):
            meta[k] = rng.choice(SPECIAL_TEXTS)
    _more_dimensions(rng, spec, _distinct_chart, _order_chart)
    return spec


def _relabel(lst, mode, n_seed):
    """the same rows under other row labels / in another row order (what filters, sorts and appends leave behind)"""
    n = len(lst.df)
    if mode is None or n == 0:
        return lst
    cls = type(lst)
    if mode == "sorted":
        return lst.sorted()                        # rows in time order, labels permuted
    if mode == "filtered":                          # built with a row in front that a filter removes: labels 1..n
        first = lst.df.iloc[[0]].copy()
        first["offset"] = float(lst.df["offset"].min()) - 1000.0
        big = cls(__import__("pandas").concat([first, lst.df], ignore_index=True).astype(lst.df.dtypes.to_dict()))
        out = big.after(float(lst.df["offset"].min()) - 500.0, include_end=True)
        assert len(out.df) == n
        return out
    df = lst.df.copy()
    if mode == "gappy":
        df.index = [3 + 2 * i + i * i for i in range(n)]
    elif mode == "rev":
        df.index = list(range(n - 1, -1, -1))
    elif mode == "dup":                            # what concatenating two lists without re-indexing leaves behind
        df.index = [i // 2 for i in range(n)]
    elif mode == "perm":                           # rows AND labels permuted
        import random as _r

        p = list(range(n))
        _r.Random(n_seed).shuffle(p)
        df = df.iloc[p]
    else:
        raise ValueError(mode)
    return cls(df)


def build_chart(spec):
    from reamber.osu.OsuMap import OsuMap
    from reamber.osu.OsuHit import OsuHit
    from reamber.osu.OsuHold import OsuHold
    from reamber.osu.OsuBpm import OsuBpm
    from reamber.osu.OsuSv import OsuSv
    from reamber.osu.OsuSample import OsuSample
    from reamber.osu.lists.OsuBpmList import OsuBpmList
    from reamber.osu.lists.OsuSvList import OsuSvList
    from reamber.osu.lists.OsuSampleList import OsuSampleList
    from reamber.osu.lists.notes.OsuHitList import OsuHitList
    from reamber.osu.lists.notes.OsuHoldList import OsuHoldList

    numbers = spec.get("numbers", "py")
    if numbers == "numpy":
        import numpy as np

        def f(v):
            return np.int64(v) if isinstance(v, int) else np.float64(v)
    elif numbers == "float":
        f = float
    else:
        def f(v):
            return v

    nk = ("hitsound_set", "sample_set", "addition_set", "custom_set", "volume", "hitsound_file")
    tk = ("sample_set", "sample_set_index", "volume", "kiai")
    m = OsuMap()
    for k, v in spec["meta"].items():
        setattr(m, k, list(v) if isinstance(v, list) else v)
    m.hits = OsuHitList([OsuHit(offset=f(h[0]), column=h[1], **dict(zip(nk, h[2:]))) for h in spec["hits"]])
    m.holds = OsuHoldList([OsuHold(offset=f(h[0]), column=h[1], length=f(h[2]), **dict(zip(nk, h[3:]))) for h in spec["holds"]])
    m.bpms = OsuBpmList([OsuBpm(offset=f(b[0]), bpm=f(b[1]), metronome=b[2], **dict(zip(tk, b[3:]))) for b in spec["bpms"]])
    m.svs = OsuSvList([OsuSv(offset=f(s[0]), multiplier=f(s[1]), **dict(zip(tk, s[2:]))) for s in spec["svs"]])
    m.samples = OsuSampleList([OsuSample(offset=f(s[0]), sample_file=s[1], volume=s[2]) for s in spec["samples"]])
    for i, name in enumerate(LIST_NAMES):
        mode = (spec.get("labels") or {}).get(name)
        if mode:
            setattr(m, name, _relabel(getattr(m, name), mode, 7 * i + len(spec[name])))
    return m


@contextlib.contextmanager
def _quiet():
    prev = logging.root.manager.disable
    logging.disable(logging.CRITICAL)
    try:
        with warnings.catch_warnings():
            warnings.simplefilter("ignore")
            yield
    finally:
        logging.disable(prev)


def _exc(ex):
    return f"{type(ex).__name__}: {str(ex)[:300]}"


def _read_text(text, how="split"):
    """The ways a caller hands a text to OsuMap.read (a static method): the list that read_file makes of the file's
    content (split at '\\n'; CR of a CRLF text stays on the line), the lines with their terminators as readlines()
    gives them, and the call through an instance instead of the class."""
    from reamber.osu.OsuMap import OsuMap

    if how == "keepends":
        parts = text.split("\n")
        return OsuMap.read([p + "\n" for p in parts[:-1]] + ([parts[-1]] if parts[-1] else []))
    if how == "instance":
        return OsuMap().read(text.split("\n"))
    return OsuMap.read(text.split("\n"))  # what read_file does with the file's content


def _write_text(m):
    return "\n".join(m.write())  # what write_file puts into the file


def _uniq(out):
    seen, u = set(), []
    for w, d in out:
        if w not in seen:
            seen.add(w)
            u.append((w, d))
    return u


def _edit_chart(m):
    """edit every list and every mutable metadata value of a chart in place"""
    for lst in (m.hits, m.holds, m.bpms, m.svs, m.samples):
        if len(lst.df):
            lst.offset += 1000.5
    if len(m.hits.df):
        m.hits.column = 0
        m.hits.volume = 99
    if isinstance(m.tags, list):
        m.tags.append("edited")
    m.title = "edited"
    m.background_file_name = "edited.png"


EDIT_OPS = ("shift", "stack_shift", "columns", "values", "append", "assign_lists", "empty_lists", "meta", "rate", "samples")


def gen_edits(rng):
    """1..3 public operations applied to a chart object between two writes (each keeps the chart inside the property's domain)"""
    return rng.sample(EDIT_OPS, rng.choice([1, 1, 2, 3]))


def apply_edits(m, ops, K):
    """-> the object to write next (the same object; for 'rate' what rate() returns).  Public operations only."""
    from reamber.osu.OsuHit import OsuHit
    from reamber.osu.OsuHold import OsuHold
    from reamber.osu.OsuBpm import OsuBpm
    from reamber.osu.OsuSv import OsuSv
    from reamber.osu.OsuSample import OsuSample
    from reamber.osu.lists.OsuBpmList import OsuBpmList
    from reamber.osu.lists.OsuSvList import OsuSvList
    from reamber.osu.lists.OsuSampleList import OsuSampleList
    from reamber.osu.lists.notes.OsuHoldList import OsuHoldList
    from reamber.osu.lists.notes.OsuHitList import OsuHitList

    for op in ops:
        if op == "shift":          # every list's offsets through the list property
            for lst in (m.hits, m.holds, m.bpms, m.svs, m.samples):
                if len(lst.df):
                    lst.offset += 250.25
        elif op == "stack_shift":  # the same through the stack
            st = m.stack()
            st.offset += 4000.5
        elif op == "columns":
            if len(m.hits.df):
                m.hits.column = (m.hits.column + 1) % K
            if len(m.holds.df):
                m.holds.column = (K - 1) - m.holds.column
                m.holds.length += 33.5
        elif op == "values":
            if len(m.bpms.df):
                m.bpms.bpm *= 1.5
                m.bpms.metronome = 5
            if len(m.svs.df):
                m.svs.multiplier *= 0.5
            if len(m.hits.df):
                m.hits.volume = 42
        elif op == "append":
            m.hits = m.hits.append(OsuHit(offset=4321.0, column=K - 1))
            m.holds = m.holds.append(OsuHold(offset=-4321.5, column=0, length=10.5))
            m.bpms = m.bpms.append(OsuBpm(offset=98765.0, bpm=111.0))
        elif op == "assign_lists":
            m.bpms = OsuBpmList([OsuBpm(offset=-10.0, bpm=222.0), OsuBpm(offset=5000.0, bpm=60.5, metronome=3)])
            m.svs = OsuSvList([OsuSv(offset=12.0, multiplier=0.75)])
            m.hits = OsuHitList([OsuHit(offset=float(100 * c), column=c) for c in range(K)])
        elif op == "empty_lists":
            m.holds = OsuHoldList([])
            m.svs = OsuSvList([])
        elif op == "meta":
            m.title, m.version, m.tags = "edited: title", "v2 [edited]", ["new", "tag:s"]
            m.background_file_name = "new bg.png"
        elif op == "rate":
            m = m.rate(1.25)
        elif op == "samples":
            m.samples = OsuSampleList([OsuSample(offset=5.0, sample_file='"late.wav"', volume=33)])
        else:
            raise ValueError(op)
    return m


def write_after_edit(spec, m, d_before):
    """m has been written (d_before = what that text denotes).  Edit it, write it again: the text denotes the chart as it is NOW."""
    out = []
    try:
        with _quiet():
            m2 = apply_edits(m, spec["then_edit"], spec["K"])
            now = chart_of(m2)
    except Exception as ex:
        return [], f"edit refused: {_exc(ex)}"  # what an edit does is not this property's business
    try:
        with _quiet():
            t2 = _write_text(m2)
    except Exception as ex:
        return [("write_after_edit.succeeds", _exc(ex))], "written"
    try:
        d2 = den_osu(t2)
    except DenError as ex:
        return [("write_after_edit.well_formed", str(ex))], "written"
    for a, d in compare(now, d2, 1.0):
        out.append((f"write_after_edit.{a}", f"after {spec['then_edit']}: " + d))
    for k, d in compare_meta_text_vs_memory(d2["meta"], now["meta"], "write"):
        if k in ("Title", "Version", "Tags", "TitleUnicode", "Creator"):
            out.append((f"write_after_edit.metadata[{k}]", f"after {spec['then_edit']}: " + d))
    changed = bool(compare(d_before, d2, 0, exact_time=True)) or d_before["meta"] != d2["meta"]
    return out, "written, text changed" if changed else "written, text unchanged"


OTHER_TEXT = "\n".join(["osu file format v14", "", "[General]", "AudioFilename: other.mp3", "Mode: 3", "", "[Metadata]", "Title:other", "Version:other", "Tags:o t h e r", "", "[Difficulty]", "CircleSize:7", "",
                        "[Events]", '0,0,"other.png",0,0', "", "[TimingPoints]", "-500,400,4,1,0,100,1,0", "100,-50,4,1,0,100,0,1", "", "[HitObjects]"] + [f"{36 + 73 * c},192,{1000 + c},1,0,0:0:0:0:" for c in range(7)] + [""])


def _prior_text(text, how, eol="\n"):
    """ANOTHER .osu text for a path: the text with 50 more hit objects (longer), or a seven-key text of 30 lines (shorter)"""
    if how == "shorter":
        return OTHER_TEXT
    return text.rstrip("\r\n \t") + eol + eol.join(["256,192,%d,1,0,0:0:0:0:" % (777000 + i) for i in range(50)]) + eol


# ----------------------------------------------------------------------------- read vs denotation (+ write after read)


class NotInDialect(Exception):
    pass


def _clause(spec, what):
    """Clause id of a failing aspect.  Background / sample events of a text whose [Events] section is laid out
    differently from the editor's (OWN_CLAUSE_EVENTS) report under ids of their own."""
    ev = (spec.get("layout") or {}).get("events")
    if ev in OWN_CLAUSE_EVENTS and what.rsplit(".", 1)[-1] in ("background", "samples"):
        return f"{what}[events:{ev}]"
    if what.endswith(".well_formed") and any(ch in str((spec.get("meta") or {}).get(k, "")) for k in ("Title", "Artist", "title", "artist") for ch in "\u2028\u2029"):
        # Title / Artist are the romanised fields; U+2028 / U+2029 (inside a line as far as the format goes) are in them
        return f"{what}[line_separator_in_romanised_field]"
    return what


def run_text_case(spec, files=False):
    """text (generated, or a fixture file) -> REAL read vs den_osu; then REAL write of what was read vs
    den_osu(text), < 1 ms; then generations 2..3."""
    lay = spec.get("layout") or {}
    files = files or bool(lay.get("file"))
    if spec.get("kind") == "file":
        with open(os.path.join(REPO, spec["file"]), encoding="utf8") as fh:
            text = fh.read()
        try:
            want = den_osu(text)
            if want["first"] != "osu file format v14":
                raise DenError(f"{want['first']!r}: the property is about the v14 dialect")
        except DenError as ex:  # a real-world file outside the A5 dialect has no denotation to compare with
            raise NotInDialect(str(ex))
    else:
        text = emit_text(spec)
        want = den_osu(text)  # the generator's own text must be in the dialect: an exception here is a checker error
        assert want["keys"] == spec["K"] and len(want["hits"]) + len(want["holds"]) == len(_objs(spec))
        assert len(want["bpms"]) + len(want["svs"]) == len(spec["tps"]) and len(want["samples"]) == len(spec["samples"]) and want["background"] == spec["bg"]
        assert all(want["meta"][k] == str(v).strip() for k, v in spec["meta"].items())
        if spec.get("sweep"):
            assert sorted(c for c, _, _ in want["hits"]) == sorted(max(0, min(spec["K"] - 1, x * spec["K"] // 512)) for x in range(512))
    out = []
    try:
        with _quiet():
            m = _read_text(text, lay.get("read_as", "split"))
            got = chart_of(m)
    except Exception as ex:
        return [("read.accepts", _exc(ex))]
    for a, d in compare(want, got, 1e-6):
        out.append((_clause(spec, f"read.{'kiai_is_effects_bit0' if a == 'kiai' else a}"), d))
    for k, d in compare_meta_text_vs_memory(want["meta"], got["meta"], "read"):
        out.append((f"read.metadata[{k}]", d))
    if lay.get("read_as", "split") != "split":
        # every way of handing the same text over gives the same chart
        try:
            with _quiet():
                g2 = chart_of(_read_text(text))
            if compare(got, g2, 0, exact_time=True) or g2["meta"] != got["meta"]:
                out.append(("read.same_for_every_way_of_passing_the_lines", f"{lay['read_as']}: {compare(got, g2, 0, exact_time=True) or 'metadata differs'}"))
        except Exception as ex:
            out.append(("read.same_for_every_way_of_passing_the_lines", _exc(ex)))
    if lay.get("second_reader"):
        # two results alive at once: editing one leaves the other alone (no shared lists / defaults)
        try:
            with _quiet():
                m2 = _read_text(text)
                _edit_chart(m2)
                again = chart_of(m)
            if again != got:
                out.append(("read.results_are_independent", f"a second chart read from the same text was edited; the first one changed: {[k for k in got if got[k] != again[k]]}"))
        except Exception as ex:
            out.append(("read.results_are_independent", _exc(ex)))
    if lay.get("again"):
        # the text alone determines the chart: a result edited in place and another text read in between change nothing
        try:
            with _quiet():
                m_e = _read_text(text)
                _edit_chart(m_e)
                _read_text(OTHER_TEXT)
                g3 = chart_of(_read_text(text, lay.get("read_as", "split")))
            if g3 != got:
                out.append(("read.same_text_read_again_after_an_edit", f"an earlier result was edited in place and a seven-key text was read; the same text read again differs in {[k for k in got if got[k] != g3[k]]}"))
        except Exception as ex:
            out.append(("read.same_text_read_again_after_an_edit", _exc(ex)))
    if files:
        from pathlib import Path
        from reamber.osu.OsuMap import OsuMap

        with tempfile.TemporaryDirectory(prefix="c01_") as td:
            p = os.path.join(td, "in é.osu")
            arg = Path(p) if lay.get("path") == "Path" else p
            prior = lay.get("prior_file")
            what = "file.read_file_of_a_path_that_held_another_file" if prior else "file.read_file_is_read"
            if prior:
                with open(p, "w", encoding="utf8", newline="") as fh:
                    fh.write(_prior_text(text, prior, lay.get("eol", "\n")))
                try:
                    with _quiet():
                        OsuMap.read_file(arg)
                except Exception:  # noqa  (the other file is not this case's business)
                    pass
            with open(p, "w", encoding="utf8", newline="") as fh:
                fh.write(text)
            try:
                with _quiet():
                    gf = chart_of(OsuMap.read_file(arg))
                if compare(got, gf, 1e-9) or gf["meta"] != got["meta"]:
                    out.append((what, (f"the path held another ({prior}) file, which was read first: " if prior else "") + str(compare(got, gf, 1e-9) or "metadata differs")))
            except Exception as ex:
                out.append((what, _exc(ex)))
    # writing what was read
    try:
        with _quiet():
            t1 = _write_text(m)
    except Exception as ex:
        return _uniq(out + [("write_after_read.succeeds", _exc(ex))])
    try:
        d1 = den_osu(t1)
    except DenError as ex:
        return _uniq(out + [(_clause(spec, "write_after_read.well_formed"), str(ex))])
    for a, d in compare(want, d1, 1.0):
        out.append((_clause(spec, f"write_after_read.{a}"), d))
    for k, d in compare_meta_text_vs_text(want["meta"], d1["meta"]):
        out.append((f"write_after_read.metadata[{k}]", d))
    out += _drift(t1, d1)
    if spec.get("then_edit") and not out:
        more, _note = write_after_edit(spec, m, d1)
        out += more
    return _uniq(out)


def _drift(t1, d1, gens=3):
    """generations 2.. of write/read cycles against the first written text"""
    out, t = [], t1
    for g in range(2, gens + 1):
        try:
            with _quiet():
                t = _write_text(_read_text(t))
            dg = den_osu(t)
        except Exception as ex:
            out.append((f"drift.gen{g}.accepts", _exc(ex)))
            break
        for a, d in compare(d1, dg, 0, exact_time=True):
            out.append((f"drift.gen{g}.{a}", d))
        for k, d in compare_meta_text_vs_text(d1["meta"], dg["meta"], dec_rel=1e-12):
            out.append((f"drift.gen{g}.metadata[{k}]", d))
    return out


def _unix(spec):
    return dict(spec, layout=dict(spec.get("layout") or {}, eol="\n")) if spec.get("layout") else spec


def explore_dialect_boundary(spec):
    """Not asserted (A5 'dialect boundary'): the same text with the hit-sample suffix omitted.  -> label"""
    text = emit_text(_unix(spec))
    lines = text.split("\n")
    i = lines.index("[HitObjects]")
    cut = []
    for l in lines[i + 1:]:
        f = l.split(",")
        if len(f) == 6:
            ex = f[5].split(":")
            f[5] = ex[0] if len(ex) == 6 else ""
            l = ",".join(f).rstrip(",")
        cut.append(l)
    try:
        with _quiet():
            m = _read_text("\n".join(lines[: i + 1] + cut))
        return "objects_dropped" if len(m.hits) + len(m.holds) < len(spec["objs"]) else "objects_kept"
    except Exception as ex:
        return "raises " + type(ex).__name__


def explore_sample_volume_omitted(spec):
    """Not asserted (same boundary: the editor always writes the field): `Sample,time,layer,"file"` without the
    volume, which the public description gives a default of 100.  -> label"""
    try:
        with _quiet():
            m = _read_text(emit_text(spec, sample_volume=False))
        vols = [int(v) for v in m.samples.df["volume"].tolist()] if len(m.samples.df) else []
        return "read, volume 100" if vols == [100] * len(spec["samples"]) else f"read as {len(vols)} samples, volumes {sorted(set(vols))}"
    except Exception as ex:
        return "raises " + type(ex).__name__


@bounded("C01", note="whole generated .osu v14 mania texts, every key count 1..18 -> REAL OsuMap.read (and read_file) vs the independent denotation den_osu; then REAL write of what was read vs den_osu(text) < 1 ms, and generations 2..3 against the first written text")
def wholemap_read_vs_denotation(rep):
    rng = rep.rng
    N = rep.n(300, 5000)
    rep.bound = (f"18 x-sweep texts (one per key count 1..18 with a hit at EVERY x in 0..511) + {N} generated texts: key counts 1..18 cycled (each at least {N // 18} times); 0..6 objects (hits / holds, hits only, holds only, none) "
                 f"on a time grid of {len(TIMES)} + {len(TIMES2)} values incl. negative, fractional (x.5, x.999, x.001), 7-digit and 1e9, a fifth of the objects tied with an earlier one, holds with end == start; x at the column centre, at both edges of the "
                 f"column's range and anywhere inside; type bits 1/5/21/69/128/132; all hitsound fields varied (hitSound incl. bit 0); 0..3 timing points (none / SVs only / tempo only / mixed, a third tied with an earlier point, kiai bit, values needing > 6 digits); "
                 f"0..2 sample events (layers 0..3, quoted / bare, non-ASCII file); all 30 metadata keys, text values from pools of {len(TEXTS)} + {len(WS_TEXTS)} incl. ':' ',' '#' '//' non-ASCII, full-width and Unicode white space (U+3000, U+00A0, U+2003, U+2028, tab) INSIDE the value, "
                 f"0..4 tags from pools of {len(TAGS)} + {len(WS_TAGS)} (such white space inside a tag; one or two spaces between tags, spaces at the ends); a quarter of the texts omit 1..8 keys or the whole [Editor] section, a quarter have the keys in another order. "
                 f"LAYOUT of the same content: LF / CRLF; no / one / several trailing blank lines; 0..2 blank lines between sections; 'Key: v' / 'Key:v' / padded; '//' lines and unknown keys in the key-value sections; a [Colours] section before / after [TimingPoints]; "
                 f"[Events] as the editor writes it, with a video event after / BEFORE the background, with break periods and storyboard sprites, and without the comment lines; handed to read() as split lines, as lines with terminators, through an instance; "
                 f"read_file with str and Path (a third of the cases), two thirds of those from a path that held another - 50 objects longer / 30-line seven-key - file which was read first; "
                 f"a second result of the same text edited afterwards (30 %); the same text read again after a result was edited in place and a seven-key text was read (20 %); what was read is written, edited through 1..3 of {len(EDIT_OPS)} public operations "
                 f"({', '.join(EDIT_OPS)}) and written again (25 %); value range: hit-sample index up to 2^31-1, sample index 99, volume 0, meters 1 and 16; "
                 f"(14) in a fifth of the texts EVERY metadata key and every field of every hit / hold / timing point / sample is non-default, non-empty and different from every sibling of its type (at least one hit, hold, tempo point, SV point and sample each); "
                 f"(16) in 12 % one or two text keys hold a text that is a marker elsewhere in the format ({len(SPECIAL_TEXTS)} such: section headers, the format line, event / timing-point / hit-object lines, 'Key:value', -1, 0, None); "
                 f"(17) in 30 % one element of one kind (object, tempo point, SV point, sample) is moved strictly before / exactly onto the earliest, or strictly after / onto the latest element of ALL kinds (spec['dims'])")
    rep.rule = "a case is one whole text and its layout; non-trivial when it has at least one object; each text is first parsed by the oracle itself (must be in the dialect, and must denote what the spec says)"
    explored, explored2, layouts = {}, {}, {}
    for i in range(-18, N):
        if rep.out_of_time(40, 320):
            break
        if i < 0:  # first, for every key count, one text with a hit at every x in 0..511
            spec = gen_text_case(rng, 19 + i)
            spec.update(sweep=True, objs=[])
        else:
            spec = gen_text_case(rng, 1 + i % 18)
        rep.case(spec, nontrivial=bool(_objs(spec)))
        layouts[spec["layout"]["events"]] = layouts.get(spec["layout"]["events"], 0) + 1
        for what, d in run_text_case(spec, files=(i % 10 == 0)):
            rep.fail(what, spec, d)
        if i % 10 == 5 and spec["objs"]:
            lab = explore_dialect_boundary(spec)
            explored[lab] = explored.get(lab, 0) + 1
        if i % 10 == 6 and spec["samples"]:
            lab = explore_sample_volume_omitted(spec)
            explored2[lab] = explored2.get(lab, 0) + 1
    rep.extra["[Events] layouts generated"] = layouts
    rep.extra["not asserted - hit objects without the hit-sample suffix (A5 dialect boundary)"] = explored
    rep.extra["not asserted - sample events without the volume field (same boundary)"] = explored2
    rep.extra["not asserted"] = "storyboard layer of sample events (the in-memory sample has no layer field; a written sample always has layer 0); defaults of omitted metadata keys"


@bounded("C01", note="the .osu fixture files of the repository that are inside the A5 dialect -> REAL read_file-equivalent read vs den_osu, write of what was read < 1 ms, generations 2..3 (real-world texts: whole charts with thousands of objects)")
def wholemap_fixture_files(rep):
    import glob

    files = sorted(glob.glob(os.path.join(REPO, "rsc/maps/osu/*.osu")) + glob.glob(os.path.join(REPO, "tests/unit_tests/osu/*.osu")), key=os.path.getsize)
    files = files[: rep.n(4, 999)]
    rep.bound = f"{len(files)} fixture files (rsc/maps/osu, tests/unit_tests/osu; quick: the 4 smallest)"
    rep.rule = "a case is one file; files that den_osu rejects (outside the dialect) are listed in extra and not compared"
    outside = {}
    for f in files:
        if rep.out_of_time(45, 320):
            break
        case = dict(kind="file", file=os.path.relpath(f, REPO))
        try:
            failed = run_text_case(case, files=False)
        except NotInDialect as ex:
            outside[case["file"]] = str(ex)[:160]
            continue
        rep.case(case, nontrivial=True)
        for what, d in failed:
            rep.fail(what, case, d)
    rep.extra["fixtures outside the dialect (not compared)"] = outside


@replayer("wholemap_fixture_files")
def _replay_fixture(case, what):
    hit = [d for w, d in run_text_case(case) if w == what]
    return (bool(hit), hit[0] if hit else "passes")


@replayer("wholemap_read_vs_denotation")
def _replay_text(case, what):
    hit = [d for w, d in run_text_case(case, files=what.startswith("file.")) if w == what]
    return (bool(hit), hit[0] if hit else "passes")


# ----------------------------------------------------------------------------- write vs denotation (+ read after write, no drift)


def run_chart_case(spec, files=False):
    from pathlib import Path
    from reamber.osu.OsuMap import OsuMap

    fopt = spec.get("file") or {}
    files = files or bool(fopt.get("on"))
    with _quiet():
        m = build_chart(spec)
        chart = chart_of(m)
    assert sorted(h[0] for h in spec["hits"]) == sorted(t for _, t, _ in chart["hits"]) and len(chart["holds"]) == len(spec["holds"]) and len(chart["bpms"]) == len(spec["bpms"]) and len(chart["svs"]) == len(spec["svs"])
    out = []
    try:
        with _quiet():
            t1 = _write_text(m)
    except Exception as ex:
        return [("write.succeeds", _exc(ex))]
    try:
        d1 = den_osu(t1)
        need = ["General", "Editor", "Metadata", "Difficulty", "Events", "TimingPoints", "HitObjects"]
        if d1["first"] != "osu file format v14" or [s for s in d1["sections"] if s in need] != need:
            raise DenError(f"header {d1['first']!r}, sections {d1['sections']}")
    except DenError as ex:
        return [(_clause(spec, "write.well_formed"), str(ex))]
    for a, d in compare(chart, d1, 1.0):
        out.append((f"write.same_{a}", d))
    for k, d in compare_meta_text_vs_memory(d1["meta"], chart["meta"], "write"):
        out.append((f"write.metadata[{k}]", d))
    # the text is a function of the chart: writing the same object again denotes the same chart (times exact)
    try:
        with _quiet():
            t1b = _write_text(m)
        if t1b != t1:
            d1b = den_osu(t1b)
            diff = compare(d1, d1b, 0, exact_time=True) + compare_meta_text_vs_text(d1["meta"], d1b["meta"], dec_rel=1e-12)
            if diff:
                out.append(("write.second_write_denotes_the_same_chart", str(diff[:2])))
    except Exception as ex:
        out.append(("write.second_write_denotes_the_same_chart", _exc(ex)))
    if spec.get("second_chart"):
        # two charts alive at once: editing another chart built from the same spec, and writing it, changes nothing here
        try:
            with _quiet():
                m2 = build_chart(spec)
                _edit_chart(m2)
                m2.write()
                t1c = _write_text(m)
            if t1c != t1:
                out.append(("write.charts_are_independent", "another chart built from the same values was edited and written; this chart's text changed"))
        except Exception as ex:
            out.append(("write.charts_are_independent", _exc(ex)))
    if files:
        with tempfile.TemporaryDirectory(prefix="c01_") as td:
            p = os.path.join(td, "out é.osu")
            existing = fopt.get("existing", "longer") if fopt.get("over_existing") else None
            wf = "file.write_file_text_is_write" if existing in (None, "longer") else "file.write_file_over_another_file"
            if existing == "longer":  # the file exists already and is longer than what will be written
                with open(p, "w", encoding="utf8") as fh:
                    fh.write(t1 + "\n[HitObjects]\n" + "256,192,1,1,0,0:0:0:0:\n" * 50)
            elif existing == "shorter":
                with open(p, "w", encoding="utf8") as fh:
                    fh.write(OTHER_TEXT)
            elif existing == "other_chart":
                # another chart (the seven-key one, with 200 more objects) written to the path by write_file and read back by read_file first
                try:
                    with _quiet():
                        mo = _read_text(_prior_text(OTHER_TEXT, "longer") + "\n".join("36,192,%d,1,0,0:0:0:0:" % (5000 + i) for i in range(150)))
                        mo.write_file(Path(p) if fopt.get("path") == "Path" else p)
                        OsuMap.read_file(Path(p) if fopt.get("path") == "Path" else p)
                except Exception:  # noqa  (the other chart is not this case's business)
                    pass
            try:
                with _quiet():
                    m.write_file(Path(p) if fopt.get("path") == "Path" else p)
                with open(p, encoding="utf8", newline="") as fh:
                    tf = fh.read()
                if tf != t1:
                    out.append((wf, f"file content differs from the joined write() at char {next((i for i, (a, b) in enumerate(zip(tf, t1)) if a != b), min(len(tf), len(t1)))}"))
            except Exception as ex:
                out.append((wf, _exc(ex)))
            try:
                with _quiet():
                    gr = chart_of(_read_text(t1))
            except Exception:
                gr = None  # reported as read_after_write.accepts below
            if gr is not None and os.path.exists(p):
                try:
                    with _quiet():
                        gf = chart_of(OsuMap.read_file(Path(p) if fopt.get("path") == "Path" else p))
                    rf = "file.read_file_is_read" if existing in (None, "longer") else "file.write_file_over_another_file"
                    if compare(gr, gf, 1e-9) or gf["meta"] != gr["meta"]:
                        out.append((rf, str(compare(gr, gf, 1e-9) or "metadata differs")))
                except Exception as ex:
                    out.append((rf, _exc(ex)))
    # reading what was written
    try:
        with _quiet():
            back = chart_of(_read_text(t1))
    except Exception as ex:
        return _uniq(out + [("read_after_write.accepts", _exc(ex))])
    for a, d in compare(chart, back, 1.0):
        out.append((f"read_after_write.{a}", d))
    for k, d in compare_meta_text_vs_memory(d1["meta"], back["meta"], "read"):
        out.append((f"read_after_write.metadata[{k}]", d))
    out += _drift(t1, d1)
    if spec.get("then_edit"):
        more, note = write_after_edit(spec, m, d1)
        out += more
        run_chart_case.edit_notes[note] = run_chart_case.edit_notes.get(note, 0) + 1
    return _uniq(out)


run_chart_case.edit_notes = {}


@bounded("C01", note="whole in-memory charts, every key count 1..18 -> REAL OsuMap.write (and write_file) -> den_osu: well-formed v14 text, same chart < 1 ms; REAL read of the written text gives the chart back; write/read generations 2..3 denote the same chart as the first written text (no drift)")
def wholemap_write_vs_denotation(rep):
    rng = rep.rng
    N = rep.n(300, 5000)
    rep.bound = (f"{N} generated charts: key counts 1..18 cycled (circle_size as float and as int); 0..4 hits and 0..2 holds (both, hits only, holds only, empty) with times from a grid of {len(TIMES)} + {len(TIMES2)} values incl. negative, "
                 f"fractional (x.5, x.999, x.001), 7-digit and 1e9, a quarter of the rows tied with an earlier row, hold lengths 0 (end == start), 0.001..1234567.75; all hitsound fields (hitSound incl. bit 0); 0..3 tempo points (bpm pools of {len(BPMS)} + {len(BPMS2)} "
                 f"incl. 1e-6, 1e6 and 12-digit values), 0..2 SVs (multipliers incl. negative, 0.001 and 100); 0..2 sample events; all metadata fields, texts incl. ':' ',' '#' '//' non-ASCII, full-width and Unicode white space inside the value, 0..4 tags incl. tags with "
                 f"U+3000 / U+00A0 / U+2003 / tab inside; a quarter of the charts leave 1..10 fields at the defaults of OsuMap(). For half of the charts EVERY list (hits, holds, tempo, SV, samples) independently gets other row labels / row order: gappy, reversed, "
                 f"permuted rows, sorted(), filtered (labels 1..n), duplicate labels; numbers as python int / float, all float, or numpy scalars; write_file / read_file with str and Path, onto a new file and over a longer existing one (a quarter of the cases); "
                 f"a second write of the same object; a second chart of the same values edited and written in between (30 %); write_file over a longer file, over a shorter seven-key file, and over the file of another chart that was itself "
                 f"written by write_file and read back (a third each); 30 % of the charts are, after the first write, changed through 1..3 of {len(EDIT_OPS)} public operations ({', '.join(EDIT_OPS)}: offsets through the list property and through the stack, "
                 f"columns / bpm / multipliers in place, items appended, new / empty lists assigned, metadata set, rate(1.25)) and written again: the text must denote the chart as it is then; value range as for the texts; "
                 f"(14) a fifth of the charts have EVERY metadata field and every column of every hit / hold / tempo / SV / sample row non-default, non-empty and different from every sibling of its type; (16) 12 % carry a text that is a marker elsewhere in the format in one text field; "
                 f"(17) in 30 % one row of one list is moved strictly before / onto the earliest or after / onto the latest row of ALL lists (spec['dims'])")
    rep.rule = "a case is one whole chart (finite offsets, non-zero bpm, non-zero SV multipliers) and how it is held in memory; non-trivial when it has at least one object"
    for i in range(N):
        if rep.out_of_time(40, 320):
            break
        spec = gen_chart_case(rng, 1 + i % 18)
        rep.case(spec, nontrivial=bool(spec["hits"] or spec["holds"]))
        for what, d in run_chart_case(spec, files=(i % 10 == 0)):
            rep.fail(what, spec, d)
    rep.extra["charts written again after an edit"] = dict(run_chart_case.edit_notes)


@replayer("wholemap_write_vs_denotation")
def _replay_chart(case, what):
    hit = [d for w, d in run_chart_case(case, files=what.startswith("file.")) if w == what]
    return (bool(hit), hit[0] if hit else "passes")
