"""C13 bounded stand-in: rate change scales time uniformly, composes, and survives a write.

The oracle works on the plain rows of the chart spec: every `offset` / `length` divided by r, every `bpm` multiplied by r,
everything else equal.  The written file is read back with the library's reader and compared with the ORACLE's rated
timeline (not with the library's rated chart).

Dimensions 10-12 (clauses as before, evaluated on the chart AS IT IS when rate() / write() is called):
  change   after rate() the SAME original is changed through public operations (offset / bpm / column through the list
           properties or the stack, a row appended, new lists assigned, file-level time fields set) and rated again; the
           result is changed the same way and rated again (state carried over by the copy);
  history  write -> rate -> write -> rate -> write on the objects of one case (`chain`), the written original moved in place
           before it is rated (`shift`), the rated chart written twice (`twice`);
  files    write_file / read_file of the original and of the rated chart on ONE path, which before held nothing / a longer /
           a shorter file;
  values   rates 1e-6 and 1e6, bpm 0 / negative, columns up to 255, metronomes 1 / 7 / 0.5, volumes 0 / 100."""
from __future__ import annotations

import copy
import dataclasses
import json
import math
import os
import random
import tempfile
import warnings

import numpy as np

from pyvc.dsl import bounded
from pyvc.bounded import replayer

from contracts.C12_bounded import GAMES, build, snapshot, diff, std_spec, chart_lists

warnings.filterwarnings("ignore")

RATES = [0.5, 0.75, 1, 1.1, 1.5, 2]
TIME_COLS = ("offset", "length")
# fields that are times / tempi but are not named by the statement ("preview point, sample events, sample window, file offset"
# of osu and StepMania): nothing is asserted about them, neither that they scale nor that they stay
UNASSERTED = dict(OsuMap={"audio_lead_in"}, QuaMap={"song_preview_time"}, O2JMapSet={"bpm", "duration"})
SCALED_FIELDS = dict(OsuMap={"preview_time": "div"}, SMMapSet={"sample_start": "div", "sample_length": "div", "offset": "div"})
FIELD_CLAUSE = dict(preview_time="osu_preview_scaled", sample_start="sm_sample_window_scaled", sample_length="sm_sample_window_scaled", offset="sm_file_offset_scaled")


def _num(x):
    return isinstance(x, (int, float)) and not isinstance(x, bool)


def _close(a, b, rel=1e-12, abs_=1e-12):
    if _num(a) and _num(b):
        return abs(a - b) <= max(abs_, rel * max(abs(a), abs(b)))
    return a == b


def _cmp_list(name, s0, s1, r, rel, out, prefix=""):
    """s0: snapshot of the original list, s1: snapshot of the rated list"""
    if s0["type"] != s1["type"] or s0["columns"] != s1["columns"] or len(s0["labels"]) != len(s1["labels"]):
        out.append(("list_shape_kept", f"{prefix}{name}: type/columns/rows {s0['type']} {s0['columns']} {len(s0['labels'])} -> {s1['type']} {s1['columns']} {len(s1['labels'])}"))
        return
    for c, v0, v1 in zip(s0["columns"], s0["values"], s1["values"]):
        for i, (a, b) in enumerate(zip(v0, v1)):
            if c in TIME_COLS:
                want, what = (a / r if _num(a) else a), "times_divided"
            elif c == "bpm":
                want, what = (a * r if _num(a) else a), "bpm_multiplied"
            else:
                want, what = a, "other_columns_unchanged"
            ok = _close(b, want, rel) if c in TIME_COLS or c == "bpm" else b == want
            if not ok:
                out.append((what, f"{prefix}{name}.{c}[row {i}]: {a!r} at rate {r} -> {b!r}, expected {want!r}"))
                break


def _cmp_fields(tname, f0, f1, r, rel, out, prefix=""):
    scaled = SCALED_FIELDS.get(tname, {})
    skip = UNASSERTED.get(tname, set())
    for k in f0:
        if k in skip:
            continue
        a, b = f0[k], f1.get(k)
        if isinstance(a, dict) and a.get("kind") == "list":
            # a file-level list (osu sample events)
            sub = []
            _cmp_list(k, a, b, r, rel, sub, prefix)
            out.extend(("osu_samples_scaled" if w in ("times_divided",) else w, d) for w, d in sub)
            continue
        if k in scaled:
            want = a / r if _num(a) else a
            if not _close(b, want, rel):
                out.append((FIELD_CLAUSE[k], f"{prefix}{tname}.{k}: {a!r} at rate {r} -> {b!r}, expected {want!r}"))
            continue
        if diff(a, b):
            out.append(("fields_unchanged", f"{prefix}{tname}.{k}: {a!r} -> {b!r}"))


def _cmp_rated(s0, s1, r, rel=1e-12):
    """snapshot of the original vs snapshot of the rated object -> [(what, detail)]"""
    out = []
    if s0["kind"] != s1["kind"] or s0["type"] != s1["type"]:
        return [("list_shape_kept", f"type {s0['type']} -> {s1['type']}")]
    if s0["kind"] == "mapset":
        if len(s0["maps"]) != len(s1["maps"]):
            return [("list_shape_kept", f"number of charts {len(s0['maps'])} -> {len(s1['maps'])}")]
        for i, (a, b) in enumerate(zip(s0["maps"], s1["maps"])):
            out.extend((w, f"chart {i}: {d}") for w, d in _cmp_rated(a, b, r, rel))
        _cmp_fields(s0["type"], s0["fields"], s1["fields"], r, rel, out)
        return out
    if s0["list_names"] != s1["list_names"]:
        return [("list_shape_kept", f"lists {s0['list_names']} -> {s1['list_names']}")]
    for name in s0["list_names"]:
        _cmp_list(name, s0["lists"][name], s1["lists"][name], r, rel, out)
    _cmp_fields(s0["type"], s0["fields"], s1["fields"], r, rel, out)
    return out


def _cmp_same_numbers(sa, sb, rel, path=""):
    """two snapshots equal up to a relative tolerance on numbers (composition clause); labels and dtypes not compared"""
    if isinstance(sa, dict) and isinstance(sb, dict):
        for k in sa:
            if k in ("labels", "dtypes"):
                continue
            if k not in sb:
                return f"{path}/{k} missing"
            d = _cmp_same_numbers(sa[k], sb[k], rel, f"{path}/{k}")
            if d:
                return d
        return None
    if isinstance(sa, (list, tuple)) and isinstance(sb, (list, tuple)):
        if len(sa) != len(sb):
            return f"{path}: length {len(sa)} vs {len(sb)}"
        for i, (x, y) in enumerate(zip(sa, sb)):
            d = _cmp_same_numbers(x, y, rel, f"{path}[{i}]")
            if d:
                return d
        return None
    if _num(sa) and _num(sb):
        return None if abs(sa - sb) <= rel * max(abs(sa), abs(sb), 1e-300) or sa == sb else f"{path}: {sa!r} vs {sb!r}"
    return None if sa == sb else f"{path}: {sa!r} vs {sb!r}"


_NP_NAMES = {"float64", "float32", "float16", "int64", "int32", "int16", "int8", "uint8", "uint16", "uint32", "uint64", "bool_", "bool", "longdouble"}


def _norm(s):
    """C12's snapshot() shows a numpy scalar held in a dataclass field as (type name, value); a rated field may be a numpy float when the
    rate was one (np.float64 is a float): the statement is about values, so such fields are compared by value"""
    if isinstance(s, dict):
        return {k: _norm(v) for k, v in s.items()}
    if isinstance(s, tuple) and len(s) == 2 and isinstance(s[0], str) and s[0] in _NP_NAMES:
        return s[1]
    if isinstance(s, (list, tuple)):
        return type(s)(_norm(v) for v in s)
    return s


def _snap(obj):
    return _norm(snapshot(obj))


def _rate_arg(r, rate_type):
    """the rate as the caller passes it: python number as generated, numpy scalar"""
    if rate_type == "np_float64":
        return np.float64(r)
    if rate_type == "np_int64":
        return np.int64(r)
    return r


def _call_rate(obj, r, call):
    """the three ways of calling the one observable function: positional, by keyword, through the class"""
    if call == "kw":
        return obj.rate(by=r)
    if call == "class":
        return type(obj).rate(obj, r)
    return obj.rate(r)


def _charts_and_specs(obj, spec):
    return list(zip(obj.maps, spec["maps"])) if "maps" in spec else [(obj, spec)]


def _build(spec):
    """build() of C12 + the chart spec key `post`: {list name: 'sorted' | 'perm'} - the list is replaced by lst.sorted() (rows in time
    order, labels permuted) or by the same rows and labels in a fixed permutation (rows out of time order, labels not 0..n-1 in order)"""
    obj = build(spec)
    for m, cs in _charts_and_specs(obj, spec):
        for name, op in (cs.get("post") or {}).items():
            lst = chart_lists(m)[name]
            n = len(lst.df)
            if n == 0:
                continue
            if op == "sorted":
                new = lst.sorted()
            else:
                p = list(range(n))
                random.Random(n).shuffle(p)
                if p == sorted(p):
                    p = p[::-1]
                new = type(lst)(lst.df.iloc[p])
            setattr(m, name, new)
    return obj


def _edit_fields(x):
    if not dataclasses.is_dataclass(x):
        return
    for f in dataclasses.fields(x):
        if f.name in ("objs", "maps"):
            continue
        v = getattr(x, f.name)
        if isinstance(v, list):
            v.append(v[0] if v else "edited")
        elif isinstance(v, dict):
            v["edited"] = "edited"


def _edit_everything(o):
    """edit, in place, every list (one cell, then the whole time column) and every mutable field of a chart / of every chart of a mapset"""
    is_set = hasattr(o, "maps")
    for m in (list(o.maps) if is_set else [o]):
        for _name, lst in chart_lists(m).items():
            if len(lst.df):
                j = list(lst.df.columns).index("offset")
                lst.df.iloc[0, j] = lst.df.iloc[0, j] + 3
                lst.offset = lst.offset + 7
        _edit_fields(m)
    if is_set:
        _edit_fields(o)
        if o.maps:
            o.maps.append(copy.deepcopy(o.maps[0]))


CHANGES = ("props", "stack", "append", "new_lists")


def _legit_change(o, how):
    """change, in place and through public operations only, what a chart / every chart of a mapset holds: `props` offset, bpm and
    column through the list properties; `stack` offset and bpm through stack(); `append` the first row of every list appended again
    (a new list is assigned); `new_lists` every list replaced by a new list object holding moved rows.  The file-level time fields the
    statement names are set to new values.  Returns False when the change itself could not be made (not rate()'s matter)."""
    try:
        for m in (list(o.maps) if hasattr(o, "maps") else [o]):
            lists = chart_lists(m)  # the lists the chart HAS
            if how == "stack" and any(len(l.df) for l in m.objs.values()):
                st = m.stack()
                st.offset += 7
                if any("bpm" in l.df.columns and len(l.df) for l in m.objs.values()):
                    st.bpm *= 2
                lists = {k: v for k, v in lists.items() if k not in m.objs}
                how_rest = "props"
            else:
                how_rest = "props" if how == "stack" else how
            for name, lst in lists.items():
                if not len(lst.df):
                    continue
                if how_rest == "props":
                    lst.offset += 7
                    if "bpm" in lst.df.columns:
                        lst.bpm *= 2
                    if "column" in lst.df.columns:
                        lst.column += 1
                    if "length" in lst.df.columns:
                        lst.length *= 2
                elif how_rest == "append":
                    setattr(m, name, lst.append(lst.df.iloc[[0]]))
                else:
                    df = lst.df.copy()
                    df["offset"] = df["offset"] + 11
                    setattr(m, name, type(lst)(df))
            for k in SCALED_FIELDS.get(type(m).__name__, {}):
                if _num(getattr(m, k, None)) and getattr(m, k) != -1:
                    setattr(m, k, getattr(m, k) + 250)
        for k in SCALED_FIELDS.get(type(o).__name__, {}) if hasattr(o, "maps") else ():
            if _num(getattr(o, k, None)):
                setattr(o, k, getattr(o, k) + 250)
        return True
    except Exception:
        return False


def _run_rate_case(case):
    """case: dict(spec=chart or mapset spec, rate=r[, rate2=b][, rate_type=, call=, independence=])"""
    obj = _build(case["spec"])
    r = case["rate"]
    arg, call = _rate_arg(r, case.get("rate_type", "py")), case.get("call", "pos")
    s0 = _snap(obj)
    raw0 = snapshot(obj)  # dimension 15: the un-normalised snapshot - column dtypes AND the exact type of every attribute (a numpy scalar stays one)
    out = []
    try:
        res = _call_rate(obj, arg, call)
    except Exception as ex:
        return [("rate_raises", f"rate({arg!r}) [{call}]: {type(ex).__name__}: {ex}")]
    if res is obj:
        out.append(("returns_new_chart", "rate() returned its argument"))
    d = diff(s0, _snap(obj)) or diff(raw0, snapshot(obj))
    if d:
        out.append(("original_untouched", "; ".join(d[:3])))
    s1 = _snap(res)
    out.extend(_cmp_rated(s0, s1, r))
    if r == 1:
        d = _cmp_same_numbers(s0, s1, 0.0)
        if d:
            out.append(("rate_one_identity", d))
    if "rate2" in case:
        b = case["rate2"]
        try:
            two = _call_rate(_call_rate(obj, arg, call), b, call)
            one = _call_rate(obj, r * b, call)
        except Exception as ex:
            return out + [("rate_raises", f"rate({r}).rate({b}): {type(ex).__name__}: {ex}")]
        d = _cmp_same_numbers(_snap(two), _snap(one), 1e-9)
        if d:
            out.append(("rate_composes", f"rate({r}).rate({b}) vs rate({r * b}): {d}"))
        d = diff(s0, _snap(obj))
        if d:
            out.append(("original_untouched", "; ".join(d[:3])))
        # the same original rated a second time gives the same result as the first time
        d = diff(s1, _snap(_call_rate(obj, arg, call)))
        if d:
            out.append(("same_result_when_rated_again", "; ".join(d[:3])))
    if case.get("change"):
        # call - legitimate change of the SAME object - call again: the second result is what the statement says for the chart as it is now
        how = case["change"]
        try:
            for who, target in (("original", obj), ("result", res)):
                before = _snap(target)
                if not _legit_change(target, how) or not diff(before, _snap(target)):
                    continue
                sb = _snap(target)
                if who == "original" and diff(s1, _snap(res)):
                    out.append(("result_independent_of_the_original", f"the original was changed ({how}) after rate(); the rated result changed: " + "; ".join(diff(s1, _snap(res))[:3])))
                rawb = snapshot(target)
                again = _call_rate(target, arg, call)
                out.extend((w, f"the {who} changed ({how}) after rate() and rated again: {d}") for w, d in _cmp_rated(sb, _snap(again), r))
                d = diff(sb, _snap(target)) or diff(rawb, snapshot(target))
                if d:
                    out.append(("original_untouched", f"the {who} changed ({how}) after rate() and rated again: " + "; ".join(d[:3])))
        except Exception as ex:
            out.append(("rate_raises", f"rate({arg!r}) [{call}] of the chart changed ({how}) after an earlier rate(): {type(ex).__name__}: {ex}"))
        if case.get("independence"):
            # the objects of the following clauses are rebuilt: they are about the chart of the spec
            obj = _build(case["spec"])
            res = _call_rate(obj, arg, call)
            s1 = _snap(res)
    if case.get("independence"):
        # "a new chart ... the original is untouched": the two share nothing, whichever of them is edited afterwards
        try:
            d = diff(s1, _snap(res))
            _edit_everything(obj)
            d = d or diff(s1, _snap(res))
            if d:
                out.append(("result_independent_of_the_original", "the original was edited after rate(); the rated result changed: " + "; ".join(d[:3])))
            obj2 = _build(case["spec"])
            res2 = _call_rate(obj2, arg, call)
            _edit_everything(res2)
            d = diff(s0, _snap(obj2))
            if d:
                out.append(("original_untouched_by_edits_of_the_result", "; ".join(d[:3])))
        except Exception as ex:
            out.append(("independence_check_raises", f"{type(ex).__name__}: {ex}"))
    # de-duplicate clause ids, keep first detail
    seen, uniq = set(), []
    for w, dd in out:
        if w not in seen:
            seen.add(w)
            uniq.append((w, dd))
    return uniq


def _intify(spec):
    """the same chart with whole-number times / lengths / tempi given as python ints (integer-typed columns)"""
    sp = copy.deepcopy(spec)
    for name, rows in sp.items():
        if isinstance(rows, list) and rows and isinstance(rows[0], dict):
            for row in rows:
                for k in ("offset", "length", "bpm"):
                    if isinstance(row.get(k), float) and row[k] == int(row[k]):
                        row[k] = int(row[k])
    return sp


_TEXT_META = dict(
    osu=dict(title="東方　アレンジ", title_unicode="～wave〜: dash", artist="Ünï cödé", creator="a:b", version="日本語 [7K]", tags=["東方　x", "a b", "t:a:g"], source="x, y #z //w"),
    qua=dict(title="東方　アレンジ", artist="Ünï cödé", creator="a:b", difficulty_name="日本語 [7K]", tags=["東方　x", "a b"]),
    sm=dict(description="東方　アレンジ", difficulty="Challenge", difficulty_val=12),
    bms=dict(title="〜ＷＡＶＥ　東方".encode("shift_jis"), artist="アーティスト".encode("shift_jis")),
    o2j=dict(),
)


def _distinct_meta(game, of_set=False):
    """dimension 14: {attribute: value} giving EVERY int / float / str / bool / list-of-str attribute of the game's chart (or mapset)
    class a non-default value that differs from every sibling attribute (numbers 1003, 1010, 1017, ...; strings 'f<name>'), so that a
    field scaled although the statement does not name it, or two fields exchanged, cannot hide behind equal or zero values.  The
    names come from the dataclass itself; bytes / dict / other attributes keep the values of the standard charts."""
    from contracts.C12_bounded import game_table
    t = game_table()[game]
    cls = t["mapset"] if of_set else t["map"]
    if cls is None:
        return {}
    o = cls()
    out, k = {}, 0
    for f in dataclasses.fields(o):
        if f.name in ("objs", "maps"):
            continue
        v = getattr(o, f.name)
        k += 1
        if isinstance(v, bool):
            out[f.name] = not v
        elif isinstance(v, int):
            out[f.name] = 1003 + 7 * k
        elif isinstance(v, float):
            out[f.name] = 1003.5 + 7 * k
        elif isinstance(v, str):
            out[f.name] = "f " + f.name
        elif isinstance(v, list) and v and all(isinstance(x, str) for x in v):
            out[f.name] = ["l " + f.name, "m " + f.name]
    return out


def _rate_specs(game):
    beat = 500.0
    sv = dict(svs=[(100, 1.5), (2100, 0.5)]) if game in ("osu", "qua") else {}
    smx = dict(stops=[(1500, 250)], mines=[(750, 1)], rolls=[(5000, 2, 300)], fakes=[(5100, 0)], lifts=[(5200, 1)], keysounds=[(5300, 3)]) if game == "sm" else {}
    osx = dict(samples=[(300, "a.wav", 40), (1234.5, "b.wav", 70)]) if game == "osu" else {}
    full = std_spec(game, hits=[(0, 0), (250, 1), (3 * beat + 125, 2), (-500, 3)], holds=[(4 * beat, 3, beat * 1.5), (7000, 0, 33.3)], bpms=[(0, 120), (8 * beat, 240), (9000, 77.7, 3)], **sv, **smx, **osx)
    out = [("full", full)]
    out.append(("empty_holds_svs_samples", std_spec(game, hits=[(10, 0), (250, 1)], holds=[], bpms=[(10, 150)])))
    out.append(("only_holds", std_spec(game, hits=[], holds=[(100, 1, 400)], bpms=[(0, 60)], **sv)))
    out.append(("all_empty", std_spec(game, hits=[], holds=[], bpms=[])))
    out.append(("labels", std_spec(game, hits=[(0, 0), (250, 1), (600, 2)], holds=[(700, 3, 100), (900, 1, 50)], bpms=[(0, 120), (1000, 90)],
                                   labels=dict(hits="mask", holds="gappy", bpms="after", **({"svs": "gappy"} if sv else {})), **sv)))
    if game == "osu":
        out.append(("preview_sentinel", dict(std_spec(game, hits=[(0, 0)], holds=[], bpms=[(0, 120)]), meta=dict(preview_time=-1))))
    # --- each list empty on its own
    out.append(("no_bpms", std_spec(game, hits=[(0, 0), (250, 1)], holds=[(500, 2, 125)], bpms=[], **sv, **osx)))
    out.append(("no_hits_no_svs", std_spec(game, hits=[], holds=[(100, 1, 400), (100, 2, 0)], bpms=[(0, 60)], **osx)))
    out.append(("one_row_each", std_spec(game, hits=[(0, 0)], holds=[(0, 1, 1)], bpms=[(0, 100)], **({"svs": [(0, 2.0)]} if sv else {}), **({"samples": [(0, "a.wav", 10)]} if osx else {}),
                                         **({"stops": [(0, 1)]} if game == "sm" else {}))))
    if sv:
        out.append(("only_svs", std_spec(game, hits=[], holds=[], bpms=[], **sv)))
    if game == "osu":
        out.append(("only_samples", std_spec(game, hits=[], holds=[], bpms=[], **osx)))
        out.append(("preview_float_int_zero", dict(std_spec(game, hits=[(0, 0)], holds=[], bpms=[(0, 120)], **osx), meta=dict(preview_time=0))))
        out.append(("preview_fraction", dict(std_spec(game, hits=[(0, 0)], holds=[], bpms=[(0, 120)]), meta=dict(preview_time=12345.6))))
    if game == "sm":
        # lists that carry a `length` without being hold lists (stops), with the hold and roll lists empty
        out.append(("stops_no_holds", std_spec(game, hits=[(0, 0), (500, 1)], holds=[], bpms=[(0, 120)], stops=[(250, 125), (250, 60), (1000, 0)])))
    # --- ties, boundaries, extremes: two rows of a list at exactly the same time with different values, time 0, zero-length hold, huge / negative times
    out.append(("ties_extremes", std_spec(game, hits=[(0, 0), (0, 1), (1e9, 2), (-1e6, 3), (0, 0)], holds=[(0, 2, 0), (500, 1, 0.001), (500, 1, 1e7), (-0.5, 3, 0.5)],
                                          bpms=[(0, 120), (0, 240), (1e7, 0.001), (-1e6, 1e6)], **({"svs": [(0, 1.0), (0, 2.0), (-5, -1.0)]} if sv else {}),
                                          **({"samples": [(0, "a.wav", 1), (0, "b.wav", 2), (1e9 + 0.5, "c.wav", 3)]} if osx else {}), **({"stops": [(0, 0), (0, 5)]} if game == "sm" else {}))))
    # --- row labels and row order of EVERY list (notes, tempo, SV, samples, the .sm lists): reversed time order under reversed labels,
    #     sorted() of an unsorted list (labels permuted), permuted rows and labels
    rows = dict(hits=[(900, 0), (600, 1), (250, 2), (0, 3)], holds=[(800, 3, 50), (700, 1, 100), (-100, 0, 10)], bpms=[(2000, 90), (1000, 180), (0, 120)])
    if sv:
        rows["svs"] = [(2100, 0.5), (1100, 2.0), (100, 1.5)]
    if osx:
        rows["samples"] = [(1234.5, "b.wav", 70), (300, "a.wav", 40), (-20, "c.wav", 5)]
    if game == "sm":
        rows.update(stops=[(1500, 250), (500, 100)], mines=[(750, 1), (50, 2)], rolls=[(5000, 2, 300), (4000, 1, 30)], fakes=[(5100, 0), (100, 1)], lifts=[(5200, 1), (20, 0)], keysounds=[(5300, 3), (10, 2)])
    names = [k for k in rows]
    out.append(("unsorted_rev_labels", std_spec(game, labels={k: "rev" for k in names}, **rows)))
    out.append(("sorted_after_unsorted", dict(std_spec(game, **rows), post={k: "sorted" for k in names})))
    out.append(("permuted_rows_and_labels", dict(std_spec(game, **rows), post={k: "perm" for k in names})))
    out.append(("masked_every_list", std_spec(game, labels={k: "mask" for k in names}, **rows)))
    # --- integer-typed columns (charts written in code with whole numbers)
    out.append(("int_typed", _intify(std_spec(game, hits=[(0, 0), (1001, 1), (333, 2)], holds=[(2000, 3, 501), (7, 0, 1)], bpms=[(0, 123), (1001, 175)], **({"svs": [(100, 2)]} if sv else {}),
                                              **({"samples": [(301, "a.wav", 40)]} if osx else {}), **({"stops": [(1501, 251)]} if game == "sm" else {})))))
    # --- the whole range of the numeric columns: tempo 0 / negative / tiny / huge, metronomes 1 / 7 / 0.5, columns 0..255, lengths 0 / huge,
    #     SV multipliers 0 / negative / huge, volumes 0 / 100
    vr = std_spec(game, hits=[(0, 0), (1, 9), (2, 17), (3, 255)], holds=[(10, 0, 0), (20, 255, 1e9), (-1e9, 9, 2e9)], bpms=[(0, 0.0, 1), (100, -120, 7), (200, 1e-6, 0.5), (300, 1e9, 16)],
                  **({"svs": [(0, 0.0), (1, -1e6), (2, 1e6), (3, 1e-9)]} if sv else {}), **({"samples": [(0, "a.wav", 0), (1, "b.wav", 100)]} if osx else {}),
                  **({"stops": [(0, 0), (1, 1e9), (2, -5)]} if game == "sm" else {}))
    out.append(("value_range", vr))
    # --- dimension 15: the dtype states the library itself leaves a chart in: the result of an earlier rate() (integer / bool columns
    #     re-typed), a list that got an item appended, a chart edited through stack(); the original must keep values AND types
    st = dict(hits=[(0, 0), (250, 1), (600, 2)], holds=[(700, 3, 100)], bpms=[(0, 120), (1000, 90)], **sv, **osx)
    out.append(("state_after_rate", std_spec(game, pre=[["rate", 1.25]], **st)))
    out.append(("state_after_append", std_spec(game, pre=[["append", "hits"], ["append", "bpms"]], **st)))
    out.append(("state_after_stack_edit", std_spec(game, pre=[["stack_edit"]], **st)))
    # --- dimension 14: every attribute of the chart non-default and different from every other attribute
    out.append(("all_fields_distinct", dict(std_spec(game, **st), meta=_distinct_meta(game))))
    # --- text fields that must come through unchanged
    out.append(("text_meta", dict(std_spec(game, hits=[(0, 0), (250, 1)], holds=[(500, 2, 125)], bpms=[(0, 120)], **sv), meta=_TEXT_META[game])))
    return out


def _rate_objects(game):
    specs = _rate_specs(game)
    out = [(f"{game}:{lab}", sp) for lab, sp in specs]
    d = dict(specs)
    out.append((f"{game}:set1", dict(game=game, maps=[d["full"]])))
    out.append((f"{game}:set2", dict(game=game, maps=[d["labels"], d["empty_holds_svs_samples"]])))
    out.append((f"{game}:set_with_empty", dict(game=game, maps=[d["all_empty"], d["only_holds"]])))
    out.append((f"{game}:set0", dict(game=game, maps=[])))
    # an empty chart / a chart lacking one kind of object in the MIDDLE of a set; charts of different shapes side by side
    out.append((f"{game}:set_empty_in_the_middle", dict(game=game, maps=[d["full"], d["all_empty"], d["permuted_rows_and_labels"]])))
    out.append((f"{game}:set_kind_missing_in_the_middle", dict(game=game, maps=[d["full"], d["no_bpms"], d["no_hits_no_svs"], d["ties_extremes"]])))
    out.append((f"{game}:set_int_and_text", dict(game=game, maps=[d["int_typed"], d["text_meta"], d["unsorted_rev_labels"]])))
    if _distinct_meta(game, True):
        out.append((f"{game}:set_all_fields_distinct", dict(game=game, maps=[d["all_fields_distinct"], d["full"]], meta=_distinct_meta(game, True))))
    out.append((f"{game}:set_dtype_states", dict(game=game, maps=[d["state_after_rate"], d["state_after_append"], d["state_after_stack_edit"], d["int_typed"]])))
    if game == "osu":
        out.append((f"{game}:set_previews", dict(game=game, maps=[d["preview_sentinel"], d["full"], d["only_samples"], d["preview_fraction"]])))
    if game == "sm":
        out.append((f"{game}:set_offset", dict(game=game, maps=[dict(std_spec(game, hits=[(1000, 0), (1500, 1)], holds=[(2000, 2, 500)], bpms=[(1000, 120)]))])))
        out.append((f"{game}:set_neg_offset", dict(game=game, maps=[dict(std_spec(game, hits=[(-250, 0), (250, 1)], holds=[], bpms=[(-250, 120)]))], meta=dict(sample_start=0.0, sample_length=12345.6))))
        out.append((f"{game}:set_stops_int_fields", dict(game=game, maps=[d["stops_no_holds"], d["full"]], meta=dict(offset=1000, sample_start=2000, sample_length=8001))))
        out.append((f"{game}:set_default_fields", dict(game=game, maps=[d["one_row_each"]], meta=dict(offset=0.0, sample_start=0.0, sample_length=10000.0))))
    return out


RATES_MORE = [1.0, 3, 1 / 3, 0.1, 10, 0.9, 4 / 3, 0.001, 1000.0, 0.999999, 7, 1.0000001]
RATES_EXTREME = [1e-6, 1e6, 5e-324 ** 0.25, 12345.678]  # r > 0: far from 1 (5e-324 ** 0.25 is about 4.7e-81)


def _rate_plan(rng, quick):
    """[(round, label, case)]: for every object of every game - round 0: one rate != 1; round 1: rate 1 (int or float); round 2..: the other
    rates.  The plan is run round by round (objects shuffled inside a round), so a run that is cut short by the time budget still has seen
    every object of every game."""
    plan = []
    for game in GAMES:
        for label, spec in _rate_objects(game):
            pool = [r for r in RATES if r != 1]
            rng.shuffle(pool)
            more = rng.sample(RATES_MORE, 2 if quick else len(RATES_MORE))
            rnd = [round(rng.uniform(0.3, 3.0), 6) for _ in range(1 if quick else 40)]
            rates = [pool[0], rng.choice([1, 1.0]), more[0], pool[1], rnd[0]] + more[1:] + pool[2:] + rnd[1:]
            for k, r in enumerate(rates):
                case = dict(spec=spec, rate=r, rate2=rng.choice(RATES + RATES_MORE[:7] + [round(rng.uniform(0.3, 3.0), 6)]))
                integral = isinstance(r, int) or float(r).is_integer()
                case["rate_type"] = rng.choice(["py", "py", "py", "np_float64", "np_int64" if integral else "np_float64"])
                case["call"] = rng.choice(["pos", "pos", "kw", "class"])
                case["independence"] = k == 0 or rng.random() < 0.25
                # dimensions 11 / 12, drawn from a generator of their own (seeded by the case drawn so far) so that the cases above stay what they were
                sub = random.Random(json.dumps([label, k, case["rate"], case["rate2"]], default=str))
                nth = len(plan) // len(rates)  # every object: changed between two calls of rate() in round 0 or in round 1
                if (k < 2 and nth % 2 == k) or (k >= 2 and sub.random() < 0.3):
                    case["change"] = CHANGES[(nth // 2) % len(CHANGES)] if k < 2 else sub.choice(CHANGES)
                if k >= 2 and sub.random() < 0.08:
                    case["rate"] = sub.choice(RATES_EXTREME)
                    case["rate_type"] = "py"
                # the dimension 14 / 15 objects take their first turn right AFTER the first turn of all earlier objects (round 0.5), so that a
                # run cut short on a busy machine has still seen every earlier object once
                late = k == 0 and any(tag in label for tag in (":state_", ":all_fields_distinct", ":set_dtype_states", ":set_all_fields_distinct"))
                plan.append((0.5 if late else k, rng.random(), label, case))
    plan.sort(key=lambda x: (x[0], x[1]))
    return [(k, label, case) for k, _, label, case in plan]


@bounded("C13", note="rate(by) on in-memory charts and mapsets of all five games: times / r, bpm * r, the rest equal, original untouched, rate(1) identity, composition; osu and SM file-level fields")
def rate_in_memory(rep):
    rng = rep.rng
    quick = rep.n(True, False)
    plan = _rate_plan(rng, quick)
    n, rounds, games = 0, set(), {}
    for k, label, case in plan:
        if rep.out_of_time(40, 300):
            break
        rep.case(case, nontrivial=(case["rate"] != 1))
        n += 1
        rounds.add(k)
        games[label.split(":")[0]] = games.get(label.split(":")[0], 0) + 1
        for what, d in _run_rate_case(case):
            rep.fail(what, case, f"{label}: {d}")
    nobj = len({label for _, label, _ in plan})
    rep.bound = (f"5 games x (17-22 charts: full, each list empty on its own (holds+SVs+samples / hits / tempo / all), one row per list, SVs only, samples only, ties (two rows of a list at one time with different values, time 0, "
                 f"zero-length holds, +-1e6..1e9 ms), EVERY list under reversed / masked / gappy / sorted() / permuted row labels and out of time order, integer-typed columns, non-ASCII text fields, osu preview -1 / 0 / fractional, "
                 f".sm stops without holds, EVERY int / float / str / bool attribute of the chart and of the mapset non-default and distinct from its siblings, charts in the dtype states left by an earlier rate() / append of an item / stack edit (original compared incl. column dtypes and exact attribute types); 9-13 mapsets incl. an empty one, an empty chart and a chart lacking one kind in the MIDDLE, osu charts with samples inside a generic MapSet, .sm file offsets 1000 / -250 / int-typed) "
                 f"= {nobj} objects x rates {RATES} + {RATES_MORE} + random in [0.3, 3] ({len(plan)} planned, run round by round: every object first with one rate != 1, then with rate 1, then the rest; {n} run, rounds {sorted(rounds)[:1]}..{sorted(rounds)[-1:]}); "
                 f"the rate passed as python number / numpy float64 / numpy int64, positionally / by keyword / through the class; each with a second rate for the composition clause and a repeated rate() of the same original; "
                 f"for the first round and a quarter of the rest, original and result are edited afterwards (independence); for every object in one of the first two rounds and for 30% of the later cases the ORIGINAL is changed in place after rate() "
                 f"({list(CHANGES)}: offset / bpm / column / length through the list properties, offset / bpm through stack(), a row appended, new list objects assigned; preview point / file offset / sample window set) and rated AGAIN, "
                 f"then the RESULT is changed the same way and rated again; 8% of the later rounds with a rate from {RATES_EXTREME}; one chart per game with tempo 0 / negative / 1e-6 / 1e9, metronomes 1 / 7 / 0.5 / 16, columns 0..255, "
                 f"lengths 0 / 2e9, SV multipliers 0 / +-1e6 / 1e-9, volumes 0 / 100")
    rep.rule = "a case is (chart or mapset, rate, second rate, how the rate is passed, what is changed between two calls of rate()); non-trivial when rate != 1"
    rep.extra["fields_not_asserted"] = {k: sorted(v) for k, v in UNASSERTED.items()}
    rep.extra["cases_per_game"] = games


@replayer("rate_in_memory")
def _replay_rate(case, what):
    bad = _run_rate_case(case)
    hit = [d for w, d in bad if w == what]
    return (bool(hit), hit[0] if hit else "passes")


# ---------------------------------------------------------------------------------------------------------------- write -> read
WRITABLE = ["osu", "qua", "sm", "bms"]


def _grid_chart(game, rng, kind):
    """A chart whose objects sit on the beat grid of its own tempo list (so that the .sm / .bms grids can hold it at every
    rate), as plain rows.  kind: 'full' | 'no_holds' | 'no_sv_samples' | 'hits_only' | 'one'."""
    t0 = 0.0 if game == "bms" else rng.choice([0.0, 1000.0, -250.0, 37.5, 500.0])
    n_sections = rng.choice([1, 2, 3])
    pool = [60.0, 90.0, 120.0, 150.0, 180.0, 240.0]
    bpms, sections, t = [], [], t0
    for i in range(n_sections):
        bpm = rng.choice(pool)
        measures = rng.choice([1, 2, 3])
        bpms.append((t, bpm))
        sections.append((t, bpm, measures))
        t += measures * 4 * 60000.0 / bpm
    cols = 4
    first_col = 1 if game == "bms" else 0
    hits, holds, extra = [], [], {}
    used = set()
    div = rng.choice([2, 4, 4, 3])
    for (ts, bpm, measures) in sections:
        beat = 60000.0 / bpm
        slots = measures * 4 * div
        free_from = {c: 0 for c in range(cols)}
        for k in range(slots):
            for c in range(cols):
                if k < free_from[c] or rng.random() > 0.22:
                    continue
                tt = ts + k * beat / div
                if kind in ("full", "no_sv_samples") and rng.random() < 0.3 and k + 2 < slots:
                    ln = rng.choice([1, 2, 3])
                    ln = min(ln, slots - 1 - k)
                    holds.append((tt, c + first_col, ln * beat / div))
                    free_from[c] = k + ln + 1
                else:
                    if game == "sm" and kind == "full" and rng.random() < 0.2:
                        extra.setdefault(rng.choice(["mines", "fakes", "lifts", "keysounds"]), []).append((tt, c))
                    else:
                        hits.append((tt, c + first_col))
                    free_from[c] = k + 1
        # nothing may straddle a tempo change in the same column: free_from is reset per section and holds end inside it
    if kind == "one":
        hits, holds, extra = [(t0, first_col)], [], {}
    if kind == "hits_only" or kind == "no_holds":
        holds = []
    if not hits and not holds:
        hits = [(t0, first_col)]
    kw = {}
    if game in ("osu", "qua") and kind in ("full", "no_holds"):
        kw["svs"] = [(t0 + 125.0 * i, rng.choice([0.5, 1.0, 1.5, 2.0])) for i in range(rng.choice([1, 3]))]
    if game == "osu" and kind in ("full", "no_holds"):
        kw["samples"] = [(t0 + 333.0 * (i + 1), "s%d.wav" % i, 10 * (i + 1)) for i in range(rng.choice([1, 2]))]
    kw.update(extra)
    return dict(hits=hits, holds=holds, bpms=bpms, **kw)


def _rows_to_spec(game, rows):
    rows = dict(rows)
    sp = std_spec(game, hits=[tuple(x) for x in rows.pop("hits")], holds=[tuple(x) for x in rows.pop("holds")], bpms=[tuple(x) for x in rows.pop("bpms")],
                  **{k: [tuple(x) for x in v] for k, v in rows.items()})
    return sp


def _pairs(kind, want, got, tol, out, clause):
    """want / got: lists of tuples (column-like key..., time[, time2]); compared as multisets after sorting"""
    if len(want) != len(got):
        out.append((clause, f"{kind}: {len(want)} objects expected, {len(got)} read back: expected {_b(want)} read {_b(got)}"))
        return
    want, got = sorted(want), sorted(got)
    for w, g in zip(want, got):
        if w[0] != g[0] or any(abs(a - b) > tol for a, b in zip(w[1:], g[1:])):
            out.append((clause, f"{kind}: expected {w} (column/key, time...), read back {g}; tolerance {tol:g} ms"))
            return


def _b(x, n=160):
    s = repr(x)
    return s if len(s) < n else s[:n] + "..."


def _expected(rows, r):
    e = {}
    e["hits"] = [(int(c), t / r) for t, c in rows["hits"]]
    e["holds"] = [(int(c), t / r, (t + l) / r) for t, c, l in rows["holds"]]
    e["bpms"] = [(b[0] / r, b[1] * r) for b in rows["bpms"]]
    for k in ("mines", "fakes", "lifts", "keysounds"):
        e[k] = [(int(c), t / r) for t, c in rows.get(k, [])]
    e["svs"] = [(t / r, x) for t, x in rows.get("svs", [])]
    e["samples"] = [(f, t / r) for t, f, v in rows.get("samples", [])]
    return e


def _got(m):
    g = {}
    ls = chart_lists(m)
    g["hits"] = [(int(c), float(t)) for t, c in zip(ls["hits"].offset, ls["hits"].column)]
    g["holds"] = [(int(c), float(t), float(t) + float(l)) for t, c, l in zip(ls["holds"].offset, ls["holds"].column, ls["holds"].length)]
    g["bpms"] = [(float(t), float(b)) for t, b in zip(ls["bpms"].offset, ls["bpms"].bpm)]
    for k in ("mines", "fakes", "lifts", "keysounds"):
        g[k] = [(int(c), float(t)) for t, c in zip(ls[k].offset, ls[k].column)] if k in ls else []
    g["svs"] = [(float(t), float(x)) for t, x in zip(ls["svs"].offset, ls["svs"].multiplier)] if "svs" in ls else []
    g["samples"] = [(str(f), float(t)) for t, f in zip(ls["samples"].offset, ls["samples"].sample_file)] if "samples" in ls else []
    return g


def _reorder(rows, order, seed):
    """the same rows with every list in another ROW order (time order / reversed / shuffled); the chart is the same"""
    if order in (None, "time"):
        return rows
    out = {}
    for i, (k, v) in enumerate(rows.items()):
        v = list(v)
        if order == "reversed":
            v.reverse()
        else:
            random.Random(seed * 31 + i).shuffle(v)
        out[k] = v
    return out


def _as_bytes(data):
    if isinstance(data, (list, tuple)):  # a text given as its lines
        data = "\n".join(data)
    return data if isinstance(data, bytes) else data.encode("utf8")


def _write_read(game, obj, via="mem", td=None, before=None):
    """write -> read through the in-memory entry points, or through write_file / read_file (path as str or as Path).  `td`: the
    directory to use (the same path is then used by every call of one case); `before`: what the path holds when write_file is called -
    None: whatever an earlier call left there (nothing, the first time), 'longer' / 'shorter': a longer / shorter file."""
    from pathlib import Path

    if via != "mem":
        own = None
        if td is None:
            own = tempfile.TemporaryDirectory(prefix="c13_")
            td = own.name
        try:
            p = os.path.join(td, "rated é." + game)
            if before:
                data = _as_bytes(obj.write())
                with open(p, "wb") as f:
                    f.write(data + b"\n" + data + b"\n" + data[: len(data) // 2] if before == "longer" else data[: len(data) // 3])
            p = Path(p) if via == "file_path" else p
            obj.write_file(p)
            if game == "osu":
                from reamber.osu.OsuMap import OsuMap

                return OsuMap.read_file(p), None
            if game == "qua":
                from reamber.quaver.QuaMap import QuaMap

                return QuaMap.read_file(p), None
            if game == "sm":
                from reamber.sm.SMMapSet import SMMapSet

                back_set = SMMapSet.read_file(p)
                return back_set.maps[0], back_set
            from reamber.bms.BMSMap import BMSMap

            return BMSMap.read_file(p), None
        finally:
            if own:
                own.cleanup()
    if game == "osu":
        from reamber.osu.OsuMap import OsuMap

        return OsuMap.read(obj.write()), None
    if game == "qua":
        from reamber.quaver.QuaMap import QuaMap

        return QuaMap.read(obj.write()), None
    if game == "sm":
        from reamber.sm.SMMapSet import SMMapSet

        back_set = SMMapSet.read(obj.write())
        return back_set.maps[0], back_set
    from reamber.bms.BMSMap import BMSMap

    return BMSMap.read(obj.write().decode("shift_jis").split("\r\n")), None


def _cmp_timeline(game, rows, r, back, back_set, file0, clause):
    """the chart read back vs the oracle's timeline of `rows` at rate r"""
    out = []
    want, got = _expected(rows, r), _got(back)
    if game in ("osu", "qua"):
        tol = 1.0 + 1e-6  # both formats store integer milliseconds
    else:
        fastest = max(b[1] for b in rows["bpms"]) * r
        last = max([abs(t) for t, *_ in rows["hits"]] + [abs(t) + l for t, c, l in rows["holds"]] + [1.0]) / r
        tol = 60000.0 / fastest * 4 / 192 + 1e-5 * last  # one 192nd of a measure + the 3-decimal bpm of .bms
    for k in ("hits", "holds", "mines", "fakes", "lifts", "keysounds", "samples"):
        _pairs(k, want[k], got[k], tol, out, clause)
    for k, vtol in (("bpms", 1e-3), ("svs", 1e-6)):  # (time, value): time within the format's resolution, value as written (.bms keeps 3 decimals)
        w_, g_ = sorted(want[k]), sorted(got[k])
        if len(w_) != len(g_):
            out.append((clause, f"{k}: {len(w_)} rows expected, {len(g_)} read back: expected {_b(w_)} read {_b(g_)}"))
            continue
        for a, b in zip(w_, g_):
            if abs(a[0] - b[0]) > tol or abs(a[1] - b[1]) > vtol * max(1.0, abs(a[1])):
                out.append((clause, f"{k}: expected (time, value) {a}, read back {b}; tolerance {tol:g} ms"))
                break
    if game == "sm":
        off0, ss0, sl0 = file0
        if abs(float(back_set.offset) - off0 / r) > 1e-6 * max(1.0, abs(off0)):
            out.append((clause, f"#OFFSET read back as {back_set.offset} ms, rated file offset is {off0 / r} ms"))
        if abs(float(back_set.sample_start) - ss0 / r) > 1e-6 * max(1.0, ss0) or abs(float(back_set.sample_length) - sl0 / r) > 1e-6 * max(1.0, sl0):
            out.append((clause, f"sample window read back as {(back_set.sample_start, back_set.sample_length)}, rated window is {(ss0 / r, sl0 / r)}"))
    if game == "osu":
        p0 = file0
        if abs(float(back.preview_time) - p0 / r) > tol:
            out.append((clause, f"PreviewTime read back as {back.preview_time}, rated preview point is {p0 / r}"))
    return out


def _shift_in_place(game, obj, d, how):
    """every time of the chart moved by d ms through public operations, together with the .sm file offset"""
    m = obj.maps[0] if game == "sm" else obj
    lists = chart_lists(m)
    if how == "stack" and any(len(l.df) for l in m.objs.values()):
        st = m.stack()
        st.offset += d
        lists = {k: v for k, v in lists.items() if k not in m.objs}
    for lst in lists.values():
        if len(lst.df):
            lst.offset += d
    if game == "sm":
        obj.offset = obj.offset + d


def _run_write_case(case):
    """case: dict(game=, rows=plain rows on the grid, rate=r[, meta=..., order=, order_seed=, via=, through_set=, rate_type=, call=,
    same_path=, file_before=, shift=, shift_how=, twice=, chain=]).
    Returns [(what, detail)]; what == 'skipped_format_round_trip' (never reported as a failure) when the UNRATED chart does not
    survive write -> read either: that is a matter of the writer / reader properties (C01-C06), not of rate()."""
    if case.get("same_path") and case.get("via", "mem") != "mem":
        with tempfile.TemporaryDirectory(prefix="c13_") as td:
            return _run_write_case_in(case, td)
    return _run_write_case_in(case, None)


def _run_write_case_in(case, td):
    game, r, rows = case["game"], case["rate"], case["rows"]
    arg, call, via = _rate_arg(r, case.get("rate_type", "py")), case.get("call", "pos"), case.get("via", "mem")
    spec = _rows_to_spec(game, _reorder(rows, case.get("order"), case.get("order_seed", 0)))
    clause = f"{game}_write_read_rated"
    meta = case.get("meta") or {}
    if game == "sm":
        obj = build(dict(game="sm", maps=[spec], meta=meta))
        file0 = (float(obj.offset), float(obj.sample_start), float(obj.sample_length))
    else:
        obj = build(dict(spec, meta=meta)) if meta else build(spec)
        file0 = float(obj.preview_time) if game == "osu" else None
    try:
        b0, bs0 = _write_read(game, obj, via, td, case.get("file_before"))
        base = _cmp_timeline(game, rows, 1, b0, bs0, file0, clause)
    except Exception as ex:
        base = [(clause, f"{type(ex).__name__}: {ex}")]
    if base:
        return [("skipped_format_round_trip", f"unrated chart does not survive write -> read: {base[0][1]}")]
    note = ""
    if case.get("shift") and game != "bms":
        # the chart that has been written is moved in place, then rated: the rated timeline is the one of the chart as it is now
        d = case["shift"]
        try:
            _shift_in_place(game, obj, d, case.get("shift_how", "props"))
        except Exception as ex:
            return [("skipped_format_round_trip", f"moving the chart in place raised {type(ex).__name__}: {ex}")]
        rows = dict(rows, **{k: [[v[0] + d] + list(v[1:]) for v in vs] for k, vs in rows.items()})
        if game == "sm":
            file0 = (file0[0] + d, file0[1], file0[2])
        note = f" [the chart was written, then moved by {d} ms in place ({case.get('shift_how', 'props')}), then rated]"
    try:
        if case.get("through_set") and game != "sm":
            from reamber.base.MapSet import MapSet

            rated = _call_rate(MapSet([obj]), arg, call).maps[0]  # the chart rated as a member of a generic mapset
        else:
            rated = _call_rate(obj, arg, call)
        back, back_set = _write_read(game, rated, via, td, case.get("file_before") if td is None else None)
    except Exception as ex:
        return [(clause, f"rate({r}) -> write -> read raised {type(ex).__name__}: {ex}{note}")]
    out = [(w, d + note) for w, d in _cmp_timeline(game, rows, r, back, back_set, file0, clause)[:1]]
    if out:
        return out
    try:
        if case.get("twice"):
            # the same rated chart written a second time: that text, too, reads back as the rated timeline
            w1, w2 = rated.write(), rated.write()
            if w1 != w2:
                back, back_set = _write_read(game, rated, "mem")
                out = [(w, d + " [second write() of the rated chart]") for w, d in _cmp_timeline(game, rows, r, back, back_set, file0, clause)[:1]]
        if case.get("chain") and not out:
            # write -> rate -> write -> rate -> write: the chart rated again after it has been written
            b = case["chain"]
            again = _call_rate(rated, b, call)
            back, back_set = _write_read(game, again, via, td)
            # rate a then b equals rate a*b; the grid tolerance of .sm / .bms is the one at that rate
            out = [(w, d + f" [rate({r}) written, then .rate({b}) of it written]") for w, d in _cmp_timeline(game, rows, r * b, back, back_set, file0, clause)[:1]]
    except Exception as ex:
        return [(clause, f"rate({r}) -> write -> (write | rate({case.get('chain')}) -> write) -> read raised {type(ex).__name__}: {ex}")]
    return out


WRITE_RATES_MORE = [0.9, 4 / 3, 1.25, 0.8]
WRITE_RATES_WIDE = [0.05, 0.1, 1 / 3, 3, 10, 20]


def _mk_write_check(game):
    def fn(rep):
        rng = rep.rng
        kinds = ["full", "no_holds", "no_sv_samples", "hits_only", "one"]
        N = rep.n(10, 60)
        n = 0
        skipped = []
        seen = dict(order={}, via={}, through_set=0, kinds={})
        plan = []
        for i in range(N):  # kinds interleaved: a run cut short by the time budget has still seen every kind
            for kind in kinds:
                if kind == "one" and i > 0:
                    continue
                rows = _grid_chart(game, rng, kind)
                rates = list(RATES) + [rng.choice(WRITE_RATES_MORE)] + [round(rng.uniform(0.4, 2.5), 4) for _ in range(rep.n(1, 6))]
                rng.shuffle(rates)
                for r in rates:
                    case = dict(game=game, rows=rows, rate=r)
                    case["order"] = rng.choice(["time", "time", "reversed", "shuffled"])
                    case["order_seed"] = rng.randrange(1000)
                    case["via"] = rng.choice(["mem", "mem", "mem", "file", "file_path"])
                    case["through_set"] = game != "sm" and rng.random() < 0.25
                    integral = isinstance(r, int) or float(r).is_integer()
                    case["rate_type"] = rng.choice(["py", "py", "np_float64", "np_int64" if integral else "np_float64"])
                    case["call"] = rng.choice(["pos", "pos", "kw", "class"])
                    if game == "osu" and rng.random() < 0.5:
                        case["meta"] = dict(preview_time=rng.choice([0, 86398, 12345.6, 250, 999999]))
                    if game == "sm" and rng.random() < 0.5:
                        case["meta"] = dict(sample_start=rng.choice([0.0, 12345.6, 30000, 1.5]), sample_length=rng.choice([10000.0, 12345.6, 15000, 0.5]))
                    # dimensions 10 / 11, drawn from a generator of their own (seeded by the case drawn so far): the cases above stay what they were
                    sub = random.Random(json.dumps(case, sort_keys=True, default=str))
                    if case["via"] != "mem":
                        case["same_path"] = sub.random() < 0.7
                        case["file_before"] = sub.choice([None, "longer", "shorter"])
                    if sub.random() < 0.1:
                        case["rate"], case["rate_type"] = sub.choice(WRITE_RATES_WIDE), "py"
                    x = sub.random()
                    if x < 0.2 and game != "bms":
                        case["shift"] = sub.choice([250, -1000, 125, 60000])
                        case["shift_how"] = sub.choice(["props", "stack"])
                    elif x < 0.4:
                        case["chain"] = sub.choice([0.5, 2, 1.25, 0.8])
                    elif x < 0.55:
                        case["twice"] = True
                    plan.append((kind, case))
        for kind, case in plan:
            if rep.out_of_time(40, 300):
                break
            rep.case(case, nontrivial=(case["rate"] != 1))
            n += 1
            for k in ("order", "via"):
                seen[k][case[k]] = seen[k].get(case[k], 0) + 1
            seen["through_set"] += bool(case["through_set"])
            for k in ("same_path", "file_before", "shift", "chain", "twice"):
                if case.get(k):
                    seen.setdefault(k, 0)
                    seen[k] += 1
            seen["kinds"][kind] = seen["kinds"].get(kind, 0) + 1
            for what, d in _run_write_case(case):
                if what == "skipped_format_round_trip":
                    skipped.append(d)
                else:
                    rep.fail(what, case, d)
        rep.bound = (f"{game}: {len(kinds) - 1} chart kinds (full, empty hold list, empty SV/sample lists, hits only; interleaved) x {N} random charts on their own beat grid "
                     f"(1-3 tempo sections on measure lines, 4 columns, objects on 1/2, 1/3 or 1/4 beats"
                     f"{', file offset in {0, 1000, -250, 37.5, 500}, sample window varied incl. sub-ms values' if game == 'sm' else ''}{', preview point varied incl. 0 and a sub-ms value' if game == 'osu' else ''}) + a one-note chart; "
                     f"rates {RATES} + one of {WRITE_RATES_MORE} + {rep.n(1, 6)} random; rows of every list in time order / reversed / shuffled; written and read in memory or through write_file / read_file (str / Path); "
                     f"{'the chart rated on its own or as a member of a generic MapSet; ' if game != 'sm' else ''}rate as python / numpy number, positional / keyword / through the class; "
                     f"of the file cases 70% write and read the original and the rated chart on ONE path, 2/3 onto a longer / shorter file; every case writes the ORIGINAL before it is rated; "
                     f"{'20%: the written original is moved in place (250 / -1000 / 125 / 60000 ms, list properties / stack(), with the file offset) before rate(); ' if game != 'bms' else ''}"
                     f"10% with a rate from {[round(x, 4) for x in WRITE_RATES_WIDE]}; 20%: the rated chart, once written, is rated again (0.5 / 2 / 1.25 / 0.8) and written; 15%: the rated chart written twice; {n} cases")
        rep.extra["cases_skipped_because_the_unrated_chart_does_not_survive_write_read"] = len(skipped)
        rep.extra["skipped_example"] = skipped[:1]
        rep.extra["dimensions_seen"] = seen
        rep.rule = ("a case is (chart rows, rate, how it is held / written): chart.rate(r) is written, read back with the library's reader and compared as multisets with the oracle's rated timeline "
                    "(1 ms for osu/Quaver; one 192nd of a measure for .sm/.bms); non-trivial when rate != 1")

    fn.__name__ = f"rate_write_read_{game}"
    return fn


for _g in WRITABLE:
    _f = _mk_write_check(_g)
    globals()[_f.__name__] = bounded("C13", note=f"write the rated {_g} chart, read it back: the timeline read equals the oracle's rated timeline")(_f)

    def _mk_replay(_name=_f.__name__):
        @replayer(_name)
        def _replay(case, what):
            bad = _run_write_case(case)
            hit = [d for w, d in bad if w == what]
            return (bool(hit), hit[0] if hit else ("passes" if not bad else bad[0][1]))

        return _replay

    _mk_replay()
