"""C13 bounded stand-in: rate change scales time uniformly, composes, and survives a write.

The oracle works on the plain rows of the chart spec: every `offset` / `length` divided by r, every `bpm` multiplied by r,
everything else equal.  The written file is read back with the library's reader and compared with the ORACLE's rated
timeline (not with the library's rated chart)."""
from __future__ import annotations

import copy
import math
import warnings

from pyvc.dsl import bounded
from pyvc.bounded import replayer

from contracts.C12_bounded import GAMES, build, snapshot, diff, std_spec, chart_lists

warnings.filterwarnings("ignore")

RATES = [0.5, 0.75, 1, 1.1, 1.5, 2]
TIME_COLS = ("offset", "length")
# fields that are times / tempi but are not named by the statement ("preview point, sample events, sample window, file offset"
# of osu and StepMania): nothing is asserted about them, neither that they scale nor that they stay
UNASSERTED = dict(OsuMap={"audio_lead_in"}, QuaMap={"song_preview_time"}, O2JMapSet={"bpm", "duration"})
SCALED_FIELDS = dict(OsuMap={"preview_time": "div"}, SMMapSet={"sample_start": "div", "sample_length": "div", "offset": "div"})
FIELD_CLAUSE = dict(preview_time="osu_preview_scaled", sample_start="sm_sample_window_scaled", sample_length="sm_sample_window_scaled", offset="sm_file_offset_scaled")


def _num(x):
    return isinstance(x, (int, float)) and not isinstance(x, bool)


def _close(a, b, rel=1e-12, abs_=1e-12):
    if _num(a) and _num(b):
        return abs(a - b) <= max(abs_, rel * max(abs(a), abs(b)))
    return a == b


def _cmp_list(name, s0, s1, r, rel, out, prefix=""):
    """s0: snapshot of the original list, s1: snapshot of the rated list"""
    if s0["type"] != s1["type"] or s0["columns"] != s1["columns"] or len(s0["labels"]) != len(s1["labels"]):
        out.append(("list_shape_kept", f"{prefix}{name}: type/columns/rows {s0['type']} {s0['columns']} {len(s0['labels'])} -> {s1['type']} {s1['columns']} {len(s1['labels'])}"))
        return
    for c, v0, v1 in zip(s0["columns"], s0["values"], s1["values"]):
        for i, (a, b) in enumerate(zip(v0, v1)):
            if c in TIME_COLS:
                want, what = (a / r if _num(a) else a), "times_divided"
            elif c == "bpm":
                want, what = (a * r if _num(a) else a), "bpm_multiplied"
            else:
                want, what = a, "other_columns_unchanged"
            ok = _close(b, want, rel) if c in TIME_COLS or c == "bpm" else b == want
            if not ok:
                out.append((what, f"{prefix}{name}.{c}[row {i}]: {a!r} at rate {r} -> {b!r}, expected {want!r}"))
                break


def _cmp_fields(tname, f0, f1, r, rel, out, prefix=""):
    scaled = SCALED_FIELDS.get(tname, {})
    skip = UNASSERTED.get(tname, set())
    for k in f0:
        if k in skip:
            continue
        a, b = f0[k], f1.get(k)
        if isinstance(a, dict) and a.get("kind") == "list":
            # a file-level list (osu sample events)
            sub = []
            _cmp_list(k, a, b, r, rel, sub, prefix)
            out.extend(("osu_samples_scaled" if w in ("times_divided",) else w, d) for w, d in sub)
            continue
        if k in scaled:
            want = a / r if _num(a) else a
            if not _close(b, want, rel):
                out.append((FIELD_CLAUSE[k], f"{prefix}{tname}.{k}: {a!r} at rate {r} -> {b!r}, expected {want!r}"))
            continue
        if diff(a, b):
            out.append(("fields_unchanged", f"{prefix}{tname}.{k}: {a!r} -> {b!r}"))


def _cmp_rated(s0, s1, r, rel=1e-12):
    """snapshot of the original vs snapshot of the rated object -> [(what, detail)]"""
    out = []
    if s0["kind"] != s1["kind"] or s0["type"] != s1["type"]:
        return [("list_shape_kept", f"type {s0['type']} -> {s1['type']}")]
    if s0["kind"] == "mapset":
        if len(s0["maps"]) != len(s1["maps"]):
            return [("list_shape_kept", f"number of charts {len(s0['maps'])} -> {len(s1['maps'])}")]
        for i, (a, b) in enumerate(zip(s0["maps"], s1["maps"])):
            out.extend((w, f"chart {i}: {d}") for w, d in _cmp_rated(a, b, r, rel))
        _cmp_fields(s0["type"], s0["fields"], s1["fields"], r, rel, out)
        return out
    if s0["list_names"] != s1["list_names"]:
        return [("list_shape_kept", f"lists {s0['list_names']} -> {s1['list_names']}")]
    for name in s0["list_names"]:
        _cmp_list(name, s0["lists"][name], s1["lists"][name], r, rel, out)
    _cmp_fields(s0["type"], s0["fields"], s1["fields"], r, rel, out)
    return out


def _cmp_same_numbers(sa, sb, rel, path=""):
    """two snapshots equal up to a relative tolerance on numbers (composition clause); labels and dtypes not compared"""
    if isinstance(sa, dict) and isinstance(sb, dict):
        for k in sa:
            if k in ("labels", "dtypes"):
                continue
            if k not in sb:
                return f"{path}/{k} missing"
            d = _cmp_same_numbers(sa[k], sb[k], rel, f"{path}/{k}")
            if d:
                return d
        return None
    if isinstance(sa, (list, tuple)) and isinstance(sb, (list, tuple)):
        if len(sa) != len(sb):
            return f"{path}: length {len(sa)} vs {len(sb)}"
        for i, (x, y) in enumerate(zip(sa, sb)):
            d = _cmp_same_numbers(x, y, rel, f"{path}[{i}]")
            if d:
                return d
        return None
    if _num(sa) and _num(sb):
        return None if abs(sa - sb) <= rel * max(abs(sa), abs(sb), 1e-300) or sa == sb else f"{path}: {sa!r} vs {sb!r}"
    return None if sa == sb else f"{path}: {sa!r} vs {sb!r}"


def _run_rate_case(case):
    """case: dict(spec=chart or mapset spec, rate=r[, rate2=b])"""
    obj = build(case["spec"])
    r = case["rate"]
    s0 = snapshot(obj)
    out = []
    try:
        res = obj.rate(r)
    except Exception as ex:
        return [("rate_raises", f"rate({r}): {type(ex).__name__}: {ex}")]
    if res is obj:
        out.append(("returns_new_chart", "rate() returned its argument"))
    d = diff(s0, snapshot(obj))
    if d:
        out.append(("original_untouched", "; ".join(d[:3])))
    s1 = snapshot(res)
    out.extend(_cmp_rated(s0, s1, r))
    if r == 1:
        d = _cmp_same_numbers(s0, s1, 0.0)
        if d:
            out.append(("rate_one_identity", d))
    if "rate2" in case:
        b = case["rate2"]
        try:
            two = obj.rate(r).rate(b)
            one = obj.rate(r * b)
        except Exception as ex:
            return out + [("rate_raises", f"rate({r}).rate({b}): {type(ex).__name__}: {ex}")]
        d = _cmp_same_numbers(snapshot(two), snapshot(one), 1e-9)
        if d:
            out.append(("rate_composes", f"rate({r}).rate({b}) vs rate({r * b}): {d}"))
        d = diff(s0, snapshot(obj))
        if d:
            out.append(("original_untouched", "; ".join(d[:3])))
    # de-duplicate clause ids, keep first detail
    seen, uniq = set(), []
    for w, dd in out:
        if w not in seen:
            seen.add(w)
            uniq.append((w, dd))
    return uniq


def _rate_specs(game):
    beat = 500.0
    sv = dict(svs=[(100, 1.5), (2100, 0.5)]) if game in ("osu", "qua") else {}
    smx = dict(stops=[(1500, 250)], mines=[(750, 1)], rolls=[(5000, 2, 300)], fakes=[(5100, 0)], lifts=[(5200, 1)], keysounds=[(5300, 3)]) if game == "sm" else {}
    osx = dict(samples=[(300, "a.wav", 40), (1234.5, "b.wav", 70)]) if game == "osu" else {}
    full = std_spec(game, hits=[(0, 0), (250, 1), (3 * beat + 125, 2), (-500, 3)], holds=[(4 * beat, 3, beat * 1.5), (7000, 0, 33.3)], bpms=[(0, 120), (8 * beat, 240), (9000, 77.7, 3)], **sv, **smx, **osx)
    out = [("full", full)]
    out.append(("empty_holds_svs_samples", std_spec(game, hits=[(10, 0), (250, 1)], holds=[], bpms=[(10, 150)])))
    out.append(("only_holds", std_spec(game, hits=[], holds=[(100, 1, 400)], bpms=[(0, 60)], **sv)))
    out.append(("all_empty", std_spec(game, hits=[], holds=[], bpms=[])))
    out.append(("labels", std_spec(game, hits=[(0, 0), (250, 1), (600, 2)], holds=[(700, 3, 100), (900, 1, 50)], bpms=[(0, 120), (1000, 90)],
                                   labels=dict(hits="mask", holds="gappy", bpms="after", **({"svs": "gappy"} if sv else {})), **sv)))
    if game == "osu":
        out.append(("preview_sentinel", dict(std_spec(game, hits=[(0, 0)], holds=[], bpms=[(0, 120)]), meta=dict(preview_time=-1))))
    return out


def _rate_objects(game):
    specs = _rate_specs(game)
    out = [(f"{game}:{lab}", sp) for lab, sp in specs]
    d = dict(specs)
    out.append((f"{game}:set1", dict(game=game, maps=[d["full"]])))
    out.append((f"{game}:set2", dict(game=game, maps=[d["labels"], d["empty_holds_svs_samples"]])))
    out.append((f"{game}:set_with_empty", dict(game=game, maps=[d["all_empty"], d["only_holds"]])))
    out.append((f"{game}:set0", dict(game=game, maps=[])))
    if game == "sm":
        out.append((f"{game}:set_offset", dict(game=game, maps=[dict(std_spec(game, hits=[(1000, 0), (1500, 1)], holds=[(2000, 2, 500)], bpms=[(1000, 120)]))])))
        out.append((f"{game}:set_neg_offset", dict(game=game, maps=[dict(std_spec(game, hits=[(-250, 0), (250, 1)], holds=[], bpms=[(-250, 120)]))], meta=dict(sample_start=0.0, sample_length=12345.6))))
    return out


@bounded("C13", note="rate(by) on in-memory charts and mapsets of all five games: times / r, bpm * r, the rest equal, original untouched, rate(1) identity, composition; osu and SM file-level fields")
def rate_in_memory(rep):
    rng = rep.rng
    n = 0
    for game in GAMES:
        for label, spec in _rate_objects(game):
            rates = list(RATES) + [round(rng.uniform(0.3, 3.0), 6) for _ in range(rep.n(3, 40))]
            for r in rates:
                if rep.out_of_time(40, 300):
                    break
                case = dict(spec=spec, rate=r)
                if r != 1 or True:
                    case["rate2"] = rng.choice(RATES + [round(rng.uniform(0.3, 3.0), 6)])
                rep.case(case, nontrivial=(r != 1))
                n += 1
                for what, d in _run_rate_case(case):
                    rep.fail(what, case, f"{label}: {d}")
    rep.bound = (f"5 games x (5-6 charts: full, empty hold/SV/sample lists, holds only, all empty, gappy / filtered labels, osu preview sentinel; 4-6 mapsets incl. an empty one and .sm file offsets "
                 f"1000 / -250) x rates {RATES} + {rep.n(3, 40)} random in [0.3, 3]; each with a second rate for the composition clause; {n} cases")
    rep.rule = "a case is (chart or mapset, rate, second rate); non-trivial when rate != 1"
    rep.extra["fields_not_asserted"] = {k: sorted(v) for k, v in UNASSERTED.items()}


@replayer("rate_in_memory")
def _replay_rate(case, what):
    bad = _run_rate_case(case)
    hit = [d for w, d in bad if w == what]
    return (bool(hit), hit[0] if hit else "passes")


# ---------------------------------------------------------------------------------------------------------------- write -> read
WRITABLE = ["osu", "qua", "sm", "bms"]


def _grid_chart(game, rng, kind):
    """A chart whose objects sit on the beat grid of its own tempo list (so that the .sm / .bms grids can hold it at every
    rate), as plain rows.  kind: 'full' | 'no_holds' | 'no_sv_samples' | 'hits_only' | 'one'."""
    t0 = 0.0 if game == "bms" else rng.choice([0.0, 1000.0, -250.0, 37.5, 500.0])
    n_sections = rng.choice([1, 2, 3])
    pool = [60.0, 90.0, 120.0, 150.0, 180.0, 240.0]
    bpms, sections, t = [], [], t0
    for i in range(n_sections):
        bpm = rng.choice(pool)
        measures = rng.choice([1, 2, 3])
        bpms.append((t, bpm))
        sections.append((t, bpm, measures))
        t += measures * 4 * 60000.0 / bpm
    cols = 4
    first_col = 1 if game == "bms" else 0
    hits, holds, extra = [], [], {}
    used = set()
    div = rng.choice([2, 4, 4, 3])
    for (ts, bpm, measures) in sections:
        beat = 60000.0 / bpm
        slots = measures * 4 * div
        free_from = {c: 0 for c in range(cols)}
        for k in range(slots):
            for c in range(cols):
                if k < free_from[c] or rng.random() > 0.22:
                    continue
                tt = ts + k * beat / div
                if kind in ("full", "no_sv_samples") and rng.random() < 0.3 and k + 2 < slots:
                    ln = rng.choice([1, 2, 3])
                    ln = min(ln, slots - 1 - k)
                    holds.append((tt, c + first_col, ln * beat / div))
                    free_from[c] = k + ln + 1
                else:
                    if game == "sm" and kind == "full" and rng.random() < 0.2:
                        extra.setdefault(rng.choice(["mines", "fakes", "lifts", "keysounds"]), []).append((tt, c))
                    else:
                        hits.append((tt, c + first_col))
                    free_from[c] = k + 1
        # nothing may straddle a tempo change in the same column: free_from is reset per section and holds end inside it
    if kind == "one":
        hits, holds, extra = [(t0, first_col)], [], {}
    if kind == "hits_only" or kind == "no_holds":
        holds = []
    if not hits and not holds:
        hits = [(t0, first_col)]
    kw = {}
    if game in ("osu", "qua") and kind in ("full", "no_holds"):
        kw["svs"] = [(t0 + 125.0 * i, rng.choice([0.5, 1.0, 1.5, 2.0])) for i in range(rng.choice([1, 3]))]
    if game == "osu" and kind in ("full", "no_holds"):
        kw["samples"] = [(t0 + 333.0 * (i + 1), "s%d.wav" % i, 10 * (i + 1)) for i in range(rng.choice([1, 2]))]
    kw.update(extra)
    return dict(hits=hits, holds=holds, bpms=bpms, **kw)


def _rows_to_spec(game, rows):
    rows = dict(rows)
    sp = std_spec(game, hits=[tuple(x) for x in rows.pop("hits")], holds=[tuple(x) for x in rows.pop("holds")], bpms=[tuple(x) for x in rows.pop("bpms")],
                  **{k: [tuple(x) for x in v] for k, v in rows.items()})
    return sp


def _pairs(kind, want, got, tol, out, clause):
    """want / got: lists of tuples (column-like key..., time[, time2]); compared as multisets after sorting"""
    if len(want) != len(got):
        out.append((clause, f"{kind}: {len(want)} objects expected, {len(got)} read back: expected {_b(want)} read {_b(got)}"))
        return
    want, got = sorted(want), sorted(got)
    for w, g in zip(want, got):
        if w[0] != g[0] or any(abs(a - b) > tol for a, b in zip(w[1:], g[1:])):
            out.append((clause, f"{kind}: expected {w} (column/key, time...), read back {g}; tolerance {tol:g} ms"))
            return


def _b(x, n=160):
    s = repr(x)
    return s if len(s) < n else s[:n] + "..."


def _expected(rows, r):
    e = {}
    e["hits"] = [(int(c), t / r) for t, c in rows["hits"]]
    e["holds"] = [(int(c), t / r, (t + l) / r) for t, c, l in rows["holds"]]
    e["bpms"] = [(b[0] / r, b[1] * r) for b in rows["bpms"]]
    for k in ("mines", "fakes", "lifts", "keysounds"):
        e[k] = [(int(c), t / r) for t, c in rows.get(k, [])]
    e["svs"] = [(t / r, x) for t, x in rows.get("svs", [])]
    e["samples"] = [(f, t / r) for t, f, v in rows.get("samples", [])]
    return e


def _got(m):
    g = {}
    ls = chart_lists(m)
    g["hits"] = [(int(c), float(t)) for t, c in zip(ls["hits"].offset, ls["hits"].column)]
    g["holds"] = [(int(c), float(t), float(t) + float(l)) for t, c, l in zip(ls["holds"].offset, ls["holds"].column, ls["holds"].length)]
    g["bpms"] = [(float(t), float(b)) for t, b in zip(ls["bpms"].offset, ls["bpms"].bpm)]
    for k in ("mines", "fakes", "lifts", "keysounds"):
        g[k] = [(int(c), float(t)) for t, c in zip(ls[k].offset, ls[k].column)] if k in ls else []
    g["svs"] = [(float(t), float(x)) for t, x in zip(ls["svs"].offset, ls["svs"].multiplier)] if "svs" in ls else []
    g["samples"] = [(str(f), float(t)) for t, f in zip(ls["samples"].offset, ls["samples"].sample_file)] if "samples" in ls else []
    return g


def _write_read(game, obj):
    if game == "osu":
        from reamber.osu.OsuMap import OsuMap

        return OsuMap.read(obj.write()), None
    if game == "qua":
        from reamber.quaver.QuaMap import QuaMap

        return QuaMap.read(obj.write()), None
    if game == "sm":
        from reamber.sm.SMMapSet import SMMapSet

        back_set = SMMapSet.read(obj.write())
        return back_set.maps[0], back_set
    from reamber.bms.BMSMap import BMSMap

    return BMSMap.read(obj.write().decode("shift_jis").split("\r\n")), None


def _cmp_timeline(game, rows, r, back, back_set, file0, clause):
    """the chart read back vs the oracle's timeline of `rows` at rate r"""
    out = []
    want, got = _expected(rows, r), _got(back)
    if game in ("osu", "qua"):
        tol = 1.0 + 1e-6  # both formats store integer milliseconds
    else:
        fastest = max(b[1] for b in rows["bpms"]) * r
        last = max([abs(t) for t, *_ in rows["hits"]] + [abs(t) + l for t, c, l in rows["holds"]] + [1.0]) / r
        tol = 60000.0 / fastest * 4 / 192 + 1e-5 * last  # one 192nd of a measure + the 3-decimal bpm of .bms
    for k in ("hits", "holds", "mines", "fakes", "lifts", "keysounds", "samples"):
        _pairs(k, want[k], got[k], tol, out, clause)
    for k, vtol in (("bpms", 1e-3), ("svs", 1e-6)):  # (time, value): time within the format's resolution, value as written (.bms keeps 3 decimals)
        w_, g_ = sorted(want[k]), sorted(got[k])
        if len(w_) != len(g_):
            out.append((clause, f"{k}: {len(w_)} rows expected, {len(g_)} read back: expected {_b(w_)} read {_b(g_)}"))
            continue
        for a, b in zip(w_, g_):
            if abs(a[0] - b[0]) > tol or abs(a[1] - b[1]) > vtol * max(1.0, abs(a[1])):
                out.append((clause, f"{k}: expected (time, value) {a}, read back {b}; tolerance {tol:g} ms"))
                break
    if game == "sm":
        off0, ss0, sl0 = file0
        if abs(float(back_set.offset) - off0 / r) > 1e-6 * max(1.0, abs(off0)):
            out.append((clause, f"#OFFSET read back as {back_set.offset} ms, rated file offset is {off0 / r} ms"))
        if abs(float(back_set.sample_start) - ss0 / r) > 1e-6 * max(1.0, ss0) or abs(float(back_set.sample_length) - sl0 / r) > 1e-6 * max(1.0, sl0):
            out.append((clause, f"sample window read back as {(back_set.sample_start, back_set.sample_length)}, rated window is {(ss0 / r, sl0 / r)}"))
    if game == "osu":
        p0 = file0
        if abs(float(back.preview_time) - p0 / r) > tol:
            out.append((clause, f"PreviewTime read back as {back.preview_time}, rated preview point is {p0 / r}"))
    return out


def _run_write_case(case):
    """case: dict(game=, rows=plain rows on the grid, rate=r[, meta=...]).
    Returns [(what, detail)]; what == 'skipped_format_round_trip' (never reported as a failure) when the UNRATED chart does not
    survive write -> read either: that is a matter of the writer / reader properties (C01-C06), not of rate()."""
    game, r, rows = case["game"], case["rate"], case["rows"]
    spec = _rows_to_spec(game, rows)
    clause = f"{game}_write_read_rated"
    meta = case.get("meta") or {}
    if game == "sm":
        obj = build(dict(game="sm", maps=[spec], meta=meta))
        file0 = (float(obj.offset), float(obj.sample_start), float(obj.sample_length))
    else:
        obj = build(dict(spec, meta=meta)) if meta else build(spec)
        file0 = float(obj.preview_time) if game == "osu" else None
    try:
        b0, bs0 = _write_read(game, obj)
        base = _cmp_timeline(game, rows, 1, b0, bs0, file0, clause)
    except Exception as ex:
        base = [(clause, f"{type(ex).__name__}: {ex}")]
    if base:
        return [("skipped_format_round_trip", f"unrated chart does not survive write -> read: {base[0][1]}")]
    try:
        rated = obj.rate(r)
        back, back_set = _write_read(game, rated)
    except Exception as ex:
        return [(clause, f"rate({r}) -> write -> read raised {type(ex).__name__}: {ex}")]
    return _cmp_timeline(game, rows, r, back, back_set, file0, clause)[:1]


def _mk_write_check(game):
    def fn(rep):
        rng = rep.rng
        kinds = ["full", "no_holds", "no_sv_samples", "hits_only", "one"]
        N = rep.n(10, 60)
        n = 0
        skipped = []
        for kind in kinds:
            for i in range(N if kind != "one" else 1):
                rows = _grid_chart(game, rng, kind)
                rates = list(RATES) + [round(rng.uniform(0.4, 2.5), 4) for _ in range(rep.n(1, 6))]
                for r in rates:
                    if rep.out_of_time(40, 300):
                        break
                    case = dict(game=game, rows=rows, rate=r)
                    rep.case(case, nontrivial=(r != 1))
                    n += 1
                    for what, d in _run_write_case(case):
                        if what == "skipped_format_round_trip":
                            skipped.append(d)
                        else:
                            rep.fail(what, case, d)
        rep.bound = (f"{game}: {len(kinds) - 1} chart kinds (full, empty hold list, empty SV/sample lists, hits only) x {N} random charts on their own beat grid "
                     f"(1-3 tempo sections on measure lines, 4 columns, objects on 1/2, 1/3 or 1/4 beats"
                     f"{', file offset in {0, 1000, -250, 37.5, 500}' if game == 'sm' else ''}) + a one-note chart; rates {RATES} + {rep.n(1, 6)} random; {n} cases")
        rep.extra["cases_skipped_because_the_unrated_chart_does_not_survive_write_read"] = len(skipped)
        rep.extra["skipped_example"] = skipped[:1]
        rep.rule = ("a case is (chart rows, rate): chart.rate(r) is written, read back with the library's reader and compared as multisets with the oracle's rated timeline "
                    "(1 ms for osu/Quaver; one 192nd of a measure for .sm/.bms); non-trivial when rate != 1")

    fn.__name__ = f"rate_write_read_{game}"
    return fn


for _g in WRITABLE:
    _f = _mk_write_check(_g)
    globals()[_f.__name__] = bounded("C13", note=f"write the rated {_g} chart, read it back: the timeline read equals the oracle's rated timeline")(_f)

    def _mk_replay(_name=_f.__name__):
        @replayer(_name)
        def _replay(case, what):
            bad = _run_write_case(case)
            hit = [d for w, d in bad if w == what]
            return (bool(hit), hit[0] if hit else ("passes" if not bad else bad[0][1]))

        return _replay

    _mk_replay()
