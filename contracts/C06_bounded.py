"""C06 - Quaver .qua file <-> in-memory chart: bounded stand-ins (REAL QuaMap.read / QuaMap.write vs an
independent denotation of the format).

Oracle (A5, "Quaver .qua", written from the format description, not from reamber's code):
  a .qua document is a YAML mapping; scalar keys AudioFile ... HasScratchKey, list keys EditorLayers,
  CustomAudioSamples, SoundEffects, and the three sections
      TimingPoints:     [{StartTime, Bpm}]
      SliderVelocities: [{StartTime, Multiplier}]
      HitObjects:       [{StartTime, Lane (1-based), EndTime?, KeySounds: [...]}]
  an object with EndTime is a hold of length EndTime - StartTime; omitted StartTime is 0; omitted KeySounds
  is [].  The value of an omitted Bpm is NOT fixed by the format text and is never asserted.  The value of an
  omitted Multiplier is not spelled out by A5 either, but the property names it ("the format's defaults for
  omitted ... Multiplier ... keys"), so it is asserted in a clause of its own (sv_default_multiplier) and only as
  far as the public descriptions agree: the omitted key stands for ONE constant of the format, which is either
  0.0 (Quaver's own serializer leaves out zero-valued fields) or 1.0 (the neutral multiplier, the documented
  default of QuaSv).  Any other value (a tempo, NaN, a per-document value) is not the format's default.
  A written document may contain no other keys and no non-finite numbers; a key outside A5 that the SOURCE
  document itself carried (unknown-but-legal extras such as HitSound / EditorLayer / Bookmarks) may be carried
  through or dropped - A5 is silent - but may not turn into a non-finite number.

Clause ids (`what`)
  read.<aspect>[<feature>]            aspect: accepts, hits, holds, keysounds, timing_points, svs, metadata,
                                      sv_default_multiplier
                                      feature: the ONE thing that distinguishes the document from the plain
                                      base document (fixed vocabulary, see FEATURES), or "mixed"
  <origin>.write.<aspect>             origin: native | converted[osu|sm|bms|o2j]
                                      aspect: succeeds, loads_as_mapping, keys_allowed, value_types,
                                      no_nonfinite, same_hits, same_holds, same_keysounds,
                                      same_timing_points, same_svs, same_metadata
  <origin>.write_again.<aspect>       the SAME chart object written a second time (aspects as for write)
  <origin>.write_after_edit.<aspect>  the SAME chart object changed through public operations after the first write (case field
                                      `edit`), then written again: the document denotes the chart as it is NOW
  <origin>.read_after_write.<aspect>  aspect: accepts, hits, holds, keysounds, timing_points, svs, metadata
  write_after_read.<aspect>[<feature>]
  every family that compares two charts also has the aspects timing_points_in_force_at_equal_times and svs_in_force_at_equal_times
  (write: same_..._in_force_at_equal_times): of several records of one kind at ONE StartTime the one listed last is the one in force;
  both sides must end such a group with the same value (LONG lists with ties: gen_long_ties / long_ties_doc)
Converted charts are clauses of their own, so the native clauses are exercised independently.

Dimensions that do NOT enter the clause id (they are fields of the case): `via` - the entry point the text goes
through (read(str), read(list of lines) in three splittings and read twice from the same list object,
read(..., safe=False), read through an instance, read_file(str path) and read_file(Path), read_file of a path that held
another document - read from it - before, read(str) after an earlier reading of the same text was edited, also in place); `wvia` - write() or write_file(), the latter also onto a path that already holds
a longer / shorter text, another chart's export or an earlier export of the same chart; the text FORM (LF, CRLF, trailing blank lines, no final newline, YAML comment lines); for
in-memory charts `numeric` (python floats / all-int columns / numpy scalars) and `post` (public list operations
applied before writing - sorted, reversed, slices, mask filters - that leave permuted / reversed / offset / gappy
row labels on each of the four lists).
"""
from __future__ import annotations

import contextlib
import glob
import json
import logging
import math
import os
import pathlib
import tempfile
import warnings
from fractions import Fraction

from pyvc.dsl import bounded
from pyvc.bounded import replayer

REPO = os.environ.get("VERIF_REPO", "/repo")

# ----------------------------------------------------------------------------- the format (A5)

TEXT_KEYS = ["AudioFile", "BackgroundFile", "BannerFile", "Mode", "Title", "Artist", "Source", "Tags", "Creator", "DifficultyName", "Description", "Genre"]
INT_KEYS = ["SongPreviewTime", "MapId", "MapSetId"]
BOOL_KEYS = ["BPMDoesNotAffectScrollVelocity", "HasScratchKey"]
NUM_KEYS = ["InitialScrollVelocity"]
LIST_KEYS = ["EditorLayers", "CustomAudioSamples", "SoundEffects"]
META_KEYS = TEXT_KEYS + INT_KEYS + BOOL_KEYS + NUM_KEYS + LIST_KEYS
SECTIONS = dict(
    TimingPoints={"StartTime", "Bpm"},
    SliderVelocities={"StartTime", "Multiplier"},
    HitObjects={"StartTime", "Lane", "EndTime", "KeySounds"},
)
ALLOWED_TOP = set(META_KEYS) | set(SECTIONS)

# in-memory attribute of every metadata key (the public dataclass fields of QuaMap)
ATTR = dict(
    AudioFile="audio_file", SongPreviewTime="song_preview_time", BackgroundFile="background_file", BannerFile="banner_file",
    MapId="map_id", MapSetId="map_set_id", Mode="mode", Title="title", Artist="artist", Source="source", Tags="tags",
    Creator="creator", DifficultyName="difficulty_name", Description="description", Genre="genre",
    BPMDoesNotAffectScrollVelocity="bpm_does_not_affect_scroll_velocity", InitialScrollVelocity="initial_scroll_velocity",
    HasScratchKey="has_scratch_key", EditorLayers="editor_layers", CustomAudioSamples="custom_audio_samples", SoundEffects="sound_effects",
)


class DenError(Exception):
    """The text is not a .qua document at all (no denotation)."""


def _yaml_load(text):
    import yaml

    if len(text) > 40000 and hasattr(yaml, "CSafeLoader"):
        return yaml.load(text, Loader=yaml.CSafeLoader)  # same schema as safe_load, only faster on big fixtures
    return yaml.safe_load(text)


def _is_num(v):
    return isinstance(v, (int, float)) and not isinstance(v, bool)


def _frac(v):
    if isinstance(v, float) and not math.isfinite(v):
        return v
    return Fraction(v)


def den_qua(text):
    """Denotation of a .qua text: dict(hits=[(col, t, keysounds)], holds=[(col, t, length, keysounds)],
    bpms=[(t, bpm | None)], svs=[(t, mult | None)], meta={key: value}).  None = value not fixed by the format."""
    raw = text if isinstance(text, dict) else _yaml_load(text)
    if not isinstance(raw, dict):
        raise DenError(f"top level is {type(raw).__name__}, not a mapping")

    def records(key):
        v = raw.get(key)
        if v is None:
            return []
        if not isinstance(v, list) or not all(isinstance(r, dict) for r in v):
            raise DenError(f"{key} is not a list of mappings")
        return v

    def num(rec, key, default):
        v = rec.get(key, default)
        if v is not None and not _is_num(v):
            raise DenError(f"{key}: {v!r} is not a number")
        return v

    hits, holds = [], []
    for o in records("HitObjects"):
        t = num(o, "StartTime", 0)
        lane = o.get("Lane")
        if not _is_num(lane):
            raise DenError(f"Lane: {lane!r}")
        ks = o.get("KeySounds", [])
        if "EndTime" in o:
            e = num(o, "EndTime", 0)
            d = _frac(e) - _frac(t)
            holds.append((int(lane) - 1, float(t), float(d), ks))
        else:
            hits.append((int(lane) - 1, float(t), ks))
    bpms = [(float(num(r, "StartTime", 0)), num(r, "Bpm", None)) for r in records("TimingPoints")]
    svs = [(float(num(r, "StartTime", 0)), num(r, "Multiplier", None)) for r in records("SliderVelocities")]
    meta = {k: v for k, v in raw.items() if k not in SECTIONS}
    return dict(hits=hits, holds=holds, bpms=bpms, svs=svs, meta=meta)


def _nonfinite_paths(v, path=""):
    if isinstance(v, float) and not math.isfinite(v):
        yield f"{path} = {v!r}"
    elif isinstance(v, dict):
        for k, x in v.items():
            yield from _nonfinite_paths(x, f"{path}.{k}")
    elif isinstance(v, list):
        for i, x in enumerate(v):
            yield from _nonfinite_paths(x, f"{path}[{i}]")


def extras_of(raw):
    """Keys outside A5 that a SOURCE document carries: (top-level keys, {section: record keys}).  A document
    written from the chart read from it may carry them through (A5 is silent on unknown keys)."""
    if not isinstance(raw, dict):
        return set(), {}
    top = {k for k in raw if k not in ALLOWED_TOP}
    rec = {}
    for sec, allowed in SECTIONS.items():
        v = raw.get(sec)
        if isinstance(v, list):
            rec[sec] = {k for r in v if isinstance(r, dict) for k in r if k not in allowed}
    return top, rec


def wf_qua(raw, extra_top=(), extra_rec=None):
    """Well-formedness of a WRITTEN document: [(aspect, detail)] for keys_allowed / value_types / no_nonfinite.
    extra_top / extra_rec: keys outside A5 that the source document declared itself (see extras_of)."""
    out = []
    extra_rec = extra_rec or {}
    if not isinstance(raw, dict):
        return [("loads_as_mapping", f"top level is {type(raw).__name__}")]
    extra = [k for k in raw if k not in ALLOWED_TOP and k not in extra_top]
    if extra:
        out.append(("keys_allowed", f"top-level keys outside the format: {extra[:5]}"))
    for sec, allowed in SECTIONS.items():
        v = raw.get(sec)
        if v is None and sec not in raw:
            continue
        if not isinstance(v, list) or not all(isinstance(r, dict) for r in v):
            out.append(("value_types", f"{sec} is not a list of mappings: {str(v)[:80]}"))
            continue
        for i, r in enumerate(v):
            bad = [k for k in r if k not in allowed and k not in extra_rec.get(sec, ())]
            if bad:
                out.append(("keys_allowed", f"{sec}[{i}] has keys outside the format: {bad} (record {r})"))
                break
        for i, r in enumerate(v):
            bad = []
            for k in ("StartTime", "EndTime", "Bpm", "Multiplier"):
                if k in r and k in allowed and not _is_num(r[k]):
                    bad.append(f"{k}: {r[k]!r}")
            if "Lane" in r and sec == "HitObjects" and not (isinstance(r["Lane"], int) and not isinstance(r["Lane"], bool) and r["Lane"] >= 1):
                bad.append(f"Lane: {r['Lane']!r}")
            if "KeySounds" in r and sec == "HitObjects" and not isinstance(r["KeySounds"], list):
                bad.append(f"KeySounds: {r['KeySounds']!r} is not a list")
            if bad:
                out.append(("value_types", f"{sec}[{i}]: " + "; ".join(bad)))
                break
    bad = []
    for k in TEXT_KEYS:
        if k in raw and not isinstance(raw[k], str):
            bad.append(f"{k}: {raw[k]!r} is not text")
    for k in INT_KEYS:
        if k in raw and not _is_num(raw[k]):
            bad.append(f"{k}: {raw[k]!r} is not a number")
    for k in BOOL_KEYS:
        if k in raw and not isinstance(raw[k], bool):
            bad.append(f"{k}: {raw[k]!r} is not a boolean")
    for k in LIST_KEYS:
        if k in raw and not isinstance(raw[k], list):
            bad.append(f"{k}: {raw[k]!r} is not a list")
    for k in NUM_KEYS:  # A5 only says "scalar": a list / mapping is rejected, the scalar's type is not asserted
        if k in raw and isinstance(raw[k], (list, dict)):
            bad.append(f"{k}: {raw[k]!r} is not a scalar")
    if bad:
        out.append(("value_types", "; ".join(bad[:4])))
    nf = list(_nonfinite_paths(raw))
    if nf:
        out.append(("no_nonfinite", f"{len(nf)} non-finite numbers, first: {nf[0]}"))
    return out


# ----------------------------------------------------------------------------- chart comparison


def _ks_norm(v):
    """keysounds as a comparable value; a non-list (e.g. NaN) is one 'invalid' token on either side, so
    that the type clause - not the sameness clause - reports it."""
    if isinstance(v, (list, tuple)):
        return json.dumps(list(v), sort_keys=True, default=repr)
    return "<not-a-list>"


def chart_of(m):
    """The chart an in-memory QuaMap denotes (public attributes only)."""
    def col(lst, name):
        return lst.df[name].tolist()

    hits = [(int(c), float(t), k) for c, t, k in zip(col(m.hits, "column"), col(m.hits, "offset"), col(m.hits, "keysounds"))]
    holds = [(int(c), float(t), float(d), k) for c, t, d, k in zip(col(m.holds, "column"), col(m.holds, "offset"), col(m.holds, "length"), col(m.holds, "keysounds"))]
    bpms = [(float(t), float(b)) for t, b in zip(col(m.bpms, "offset"), col(m.bpms, "bpm"))]
    svs = [(float(t), float(x)) for t, x in zip(col(m.svs, "offset"), col(m.svs, "multiplier"))]
    meta = {}
    for k, a in ATTR.items():
        v = getattr(m, a)
        meta[k] = " ".join(v) if k == "Tags" and isinstance(v, (list, tuple)) else v
    return dict(hits=hits, holds=holds, bpms=bpms, svs=svs, meta=meta)


def _match(A, B, compat):
    """Perfect matching between two small/medium lists under `compat`; returns (ok, detail).  Items are
    tuples whose element [1] is the sort / window time."""
    if len(A) != len(B):
        return False, f"{len(A)} items vs {len(B)}"
    sa, sb = sorted(A, key=lambda x: (x[0], x[1])), sorted(B, key=lambda x: (x[0], x[1]))
    if all(compat(a, b) for a, b in zip(sa, sb)):
        return True, ""
    # Kuhn's augmenting paths, candidates restricted to the same key and a 1 ms window
    import bisect

    keys = [(b[0], b[1]) for b in sb]
    cand = []
    for a in sa:
        lo = bisect.bisect_left(keys, (a[0], a[1] - 1.5))
        hi = bisect.bisect_right(keys, (a[0], a[1] + 1.5))
        cand.append([j for j in range(lo, hi) if compat(a, sb[j])])
    owner = {}

    def augment(i, seen):
        for j in cand[i]:
            if j in seen:
                continue
            seen.add(j)
            if j not in owner or augment(owner[j], seen):
                owner[j] = i
                return True
        return False

    for i, a in enumerate(sa):
        if not augment(i, set()):
            near = [sb[j] for j in range(max(0, bisect.bisect_left(keys, (a[0], a[1])) - 1), min(len(sb), bisect.bisect_left(keys, (a[0], a[1])) + 2))]
            return False, f"no partner for {a}; nearest on the other side: {near}"
    return True, ""


def _veq(a, b):
    if a is None or b is None:  # value not fixed by the format
        return True
    if isinstance(a, float) and isinstance(b, float) and math.isnan(a) and math.isnan(b):
        return True
    try:
        return math.isclose(float(a), float(b), rel_tol=1e-12, abs_tol=0.0) or float(a) == float(b)
    except (TypeError, ValueError):
        return a == b


def in_force_at_equal_times(W, G, tol, name):
    """W, G: [(time, value)] in row / document order.  For every time at which W lists several records with different values: the records G
    lists at that time (moved by less than tol) end with the same value as W's.  Groups that are not clearly apart from W's other times
    (2 * tol), or whose size differs in G, are left to the plain clause.  -> detail | None"""
    by = {}
    for t, v in W:
        if isinstance(t, (int, float)) and math.isfinite(t):
            by.setdefault(float(t), []).append(v)
    times = sorted(by)
    n_bad, first = 0, None
    for i, t in enumerate(times):
        vs = by[t]
        if len(vs) < 2 or vs[-1] is None or all(_veq(v, vs[-1]) for v in vs):
            continue
        if (i and t - times[i - 1] <= 2 * tol) or (i + 1 < len(times) and times[i + 1] - t <= 2 * tol):
            continue
        g = [v for tt, v in G if isinstance(tt, (int, float)) and abs(tt - t) < tol]
        if len(g) != len(vs) or g[-1] is None:
            continue
        if not _veq(vs[-1], g[-1]):
            n_bad += 1
            first = first or f"at time {t} the chart lists {name} values {vs} in that order (in force: {vs[-1]}), the other side lists {g} (in force: {g[-1]})"
    return f"{first}; {n_bad} time(s) affected" if n_bad else None


def compare_charts(want, got, tol):
    """[(aspect, detail)] where the two denotations differ.  Times may differ by less than `tol` ms
    (tol = 1 for anything that went through write; 1e-6 for read)."""
    out = []

    def lt(x, y):
        return abs(x - y) < tol

    ok, d = _match([(c, t) for c, t, _ in want["hits"]], [(c, t) for c, t, _ in got["hits"]], lambda a, b: a[0] == b[0] and lt(a[1], b[1]))
    if not ok:
        out.append(("hits", d))
    # a hold's two times are its start and its end (start + length): both may move by less than tol
    ok, d = _match(
        [(c, t, t + ln) for c, t, ln, _ in want["holds"]], [(c, t, t + ln) for c, t, ln, _ in got["holds"]],
        lambda a, b: a[0] == b[0] and lt(a[1], b[1]) and lt(a[2], b[2]),
    )
    if not ok:
        out.append(("holds", "(column, start, end): " + d))
    wk = [(c, t, _ks_norm(k)) for c, t, k in want["hits"]] + [(c, t, _ks_norm(k)) for c, t, _, k in want["holds"]]
    gk = [(c, t, _ks_norm(k)) for c, t, k in got["hits"]] + [(c, t, _ks_norm(k)) for c, t, _, k in got["holds"]]
    ok, d = _match(wk, gk, lambda a, b: a[0] == b[0] and lt(a[1], b[1]) and a[2] == b[2])
    if not ok and not any(a in ("hits", "holds") for a, _ in out):
        out.append(("keysounds", "(column, time, keysounds): " + d))
    ok, d = _match([(0, t, b) for t, b in want["bpms"]], [(0, t, b) for t, b in got["bpms"]], lambda a, b: lt(a[1], b[1]) and _veq(a[2], b[2]))
    if not ok:
        out.append(("timing_points", "(time, bpm): " + d))
    ok, d = _match([(0, t, b) for t, b in want["svs"]], [(0, t, b) for t, b in got["svs"]], lambda a, b: lt(a[1], b[1]) and _veq(a[2], b[2]))
    if not ok:
        out.append(("svs", "(time, multiplier): " + d))
    # records of one kind that share a StartTime: the one listed LAST is the one in force from that time on, so a document / chart that lists
    # the same records but ends the group with another value denotes another timeline (asserted only where the plain clause found the same records)
    for aspect, key, name in (("timing_points", "bpms", "bpm"), ("svs", "svs", "multiplier")):
        if not any(a == aspect for a, _ in out):
            d = in_force_at_equal_times(want[key], got[key], tol, name)
            if d:
                out.append((f"{aspect}_in_force_at_equal_times", d))
    bad = []
    for k, v in want["meta"].items():
        if k not in ATTR:
            continue
        if k not in got["meta"]:
            if isinstance(v, (str, list)) and len(v) > 0:  # a writer may omit a key that has its default; a non-empty text / list is never a default
                bad.append(f"{k}: missing, want {v!r}")
            continue
        g = got["meta"][k]
        if k == "Tags":
            v = " ".join(str(v).split(" ")) if isinstance(v, str) else v
            same = (isinstance(g, str) and isinstance(v, str) and [x for x in g.split(" ") if x] == [x for x in v.split(" ") if x]) or g == v
        elif _is_num(v) and _is_num(g):
            same = _veq(v, g)
        else:
            same = type(g) is type(v) and g == v
        if not same:
            bad.append(f"{k}: got {g!r} want {v!r}")
    if bad:
        out.append(("metadata", "; ".join(bad[:4])))
    return out


DEFAULT_MULTIPLIERS = (0.0, 1.0)  # see the module docstring: the two public readings of an omitted Multiplier


def sv_default_clause(want, got, tol):
    """Clause sv_default_multiplier: None when it holds / does not apply, else the detail.  `want` has None for
    every omitted Multiplier.  Holds when ONE constant d of DEFAULT_MULTIPLIERS, put in place of every omitted
    Multiplier (on both sides: a re-written document may omit the key again), makes the SV lists equal.  When
    the lists differ even with the omitted values left open, the plain svs clause reports it, not this one."""
    if not any(x is None for _, x in want["svs"]):
        return None

    def sub(svs, d):
        return [(0, t, d if x is None else x) for t, x in svs]

    def compat(a, b):
        return abs(a[1] - b[1]) < tol and _veq(a[2], b[2])

    if not _match(sub(want["svs"], None), sub(got["svs"], None), compat)[0]:
        return None
    last = ""
    for d in DEFAULT_MULTIPLIERS:
        ok, last = _match(sub(want["svs"], d), sub(got["svs"], d), compat)
        if ok:
            return None
    omitted = sorted(t for t, x in want["svs"] if x is None)
    return (f"SliderVelocities entries at {omitted[:4]} omit Multiplier; the chart has (time, multiplier) {sorted(got['svs'], key=lambda e: e[0])[:6]}: "
            f"no single default of {DEFAULT_MULTIPLIERS} explains it ({last})")


# ----------------------------------------------------------------------------- document generator (own emitter)

HOSTILE = [
    "a: b", "key: value: more", "# not a comment", "x #y", "x#y", "'single'", "it's", '"double"', 'say "hi"', "- dash", "-dash", "-",
    "日本語のタイトル", "Ünïcödé ♥", "emoji 🎵 song", "{brace}", "[bracket]", "*star", "&anchor", "!tag", "%percent", "@at", "`tick`",
    "yes", "no", "null", "~", "true", "123", "1.5", "1e3", " leading space", "trailing space ", "", "multi\nline", "tab\there",
    "back\\slash", "? question", "| pipe", "> gt", "=", "a, b", "c:\\path\\file.mp3", "Re:Zero", "50% off: now", "...", "---",
    # Unicode whitespace INSIDE and at the ends of values, full-width / double-byte punctuation, comment-like text
    "full\u3000width space", "\u3000lead and trail\u3000", "no\u00a0break", "\u00a0", "wave\u301cdash \uff5e tilde", "\uff21\uff22\uff23\uff1a\uff11", "a // b", "// c",
    "x,y,z", "#", "a #b: c", "key:value", "k:", ":v", "line\r\nbreak", "UPPER lower MiXeD", "keys4", "KEYS7", "0x1F", "0o17", "1_000", ".5", "+1", "1:30", "2001-01-01", "NaN", ".inf", "<<",
]
HOSTILE_TAGS = ["a:b", "#tag", "'q'", '"dq"', "-x", "日本語", "é", "123", "yes", "{x}", "x,y", "no\u00a0break", "wide\u3000space", "\uff5e", "//", "TAG", "tag"]
# (16) texts that are markers elsewhere in the format (mode names, section / record keys, YAML collections, the -1 / 0 sentinels of the id keys) as ordinary values
HOSTILE += ["Keys4", "Keys7", "Keys8", "HitObjects", "StartTime: 5", "[]", "{}", "- StartTime: 0", "-1", "0", "EndTime", "Lane: 1"]
D_TEXTS = ["alpha.mp3", "beta bg.jpg", "gamma banner.png", "Delta Title", "Epsilon Artist", "zeta source", "Eta Creator", "Theta Diff", "iota description", "kappa genre", "lambda", "mu"]
D_LISTS = dict(EditorLayers=[{"Name": "Layer A", "ColorRgb": "255,0,0"}], CustomAudioSamples=[{"Path": "cas one.wav", "UnaffectedByRate": False}], SoundEffects=[{"StartTime": 500, "Sample": 1, "Volume": 80}])
BENIGN = ["song", "artist name", "Evening", "Hard", "audio.mp3", "bg.jpg", "banner.png", "some description", "genre"]

FEATURES = [
    "plain", "lane", "omit_start_time_one_hit", "omit_start_time_all_hits", "omit_start_time_one_hold", "omit_start_time_all_holds",
    "omit_keysounds_some", "omit_keysounds_all", "keysounds_nonempty", "omit_start_time_timing_point", "omit_start_time_all_timing_points",
    "omit_start_time_sv", "omit_start_time_all_svs", "omit_bpm", "omit_multiplier", "empty_hitobjects", "empty_timingpoints", "empty_svs",
    "all_sections_empty", "hits_only", "holds_only", "meta_hostile", "meta_omitted", "float_times", "negative_large_times",
    "flow_records", "key_order",
    # added with the generator audit (empty / one-element / many, ties and boundaries, every omitted key at every position, numerics, extras)
    "omit_multiplier_all", "omit_bpm_all", "single_records", "one_hit_only", "one_hold_only", "many_records", "zero_length_hold", "end_time_zero",
    "ties", "long_decimals", "half_ms_times", "extra_top_keys", "extra_record_keys_all", "extra_record_keys_some",
    # the ends of the value ranges: times around +-2^31 ms, tempo 0.001 .. 1e6, multipliers +-1000 / 0.0001, 32-bit extremes in the integer keys
    "extreme_values",
    # (14) every metadata key and every record key present with a non-default, non-empty value that differs from every sibling of its type;
    # (17) one record of one kind (hit, hold, timing point, SV) strictly before / exactly on the earliest, or after / on the latest record of ALL kinds
    "all_fields_distinct", "kind_order",
    "mixed",
]
# features that never enter a "mixed" document: a class that fails on the unchanged tree must stay in clauses of its own
NOT_IN_MIXED = {"extra_top_keys", "extra_record_keys_all", "extra_record_keys_some"}
# documents in which every key is present: the charts read from them are the "native, read from a document" charts
SAFE_FOR_NATIVE = {"plain", "lane", "keysounds_nonempty", "empty_hitobjects", "empty_timingpoints", "empty_svs", "all_sections_empty", "hits_only", "holds_only", "meta_hostile", "float_times", "negative_large_times", "flow_records", "key_order",
                   "single_records", "one_hit_only", "one_hold_only", "many_records", "zero_length_hold", "end_time_zero", "ties", "long_decimals", "half_ms_times", "extreme_values", "all_fields_distinct", "kind_order"}

KS_POOL = [[], [], ["a.wav"], ["a.wav", "b c.ogg"], [{"Sample": 1, "Volume": 50}], [{"Sample": 2, "Volume": 100}, {"Sample": 3, "Volume": 0}]]


def _emit_scalar(v, style):
    if isinstance(v, bool):
        return "true" if v else "false"
    if isinstance(v, int):
        return str(v)
    if isinstance(v, float):
        s = repr(v)
        assert "e" not in s and "." in s, s  # YAML 1.1 floats need the dot
        return s
    if isinstance(v, (list, dict)):
        return json.dumps(v, ensure_ascii=False)  # flow style; JSON is YAML
    assert isinstance(v, str)
    if style == "s" and not any(ord(ch) < 32 for ch in v):
        return "'" + v.replace("'", "''") + "'"
    if style == "p" and v and v == v.strip(" \t") and not any(ord(ch) < 32 for ch in v):
        return v  # plain: the generator self-check (den == intended) rejects it where YAML reads it differently
    return json.dumps(v, ensure_ascii=False)  # double-quoted; JSON escapes are YAML escapes


def emit_doc(spec):
    """spec: dict(top=[[key, value, style]...] in order, where a section value is [records, 'block'|'flow'] and
    each record is a list of [key, value] pairs in order)."""
    lines = []
    for key, value, style in spec["top"]:
        if key in SECTIONS:
            recs, rstyle = value
            if not recs:
                lines.append(f"{key}: []")
                continue
            lines.append(f"{key}:")
            for r in recs:
                if rstyle == "flow":
                    lines.append("- {" + ", ".join(f"{k}: {_emit_scalar(v, 'd')}" for k, v in r) + "}")
                else:
                    if not r:
                        lines.append("- {}")
                    for i, (k, v) in enumerate(r):
                        lines.append(("- " if i == 0 else "  ") + f"{k}: {_emit_scalar(v, 'd')}")
        else:
            lines.append(f"{key}: {_emit_scalar(value, style)}")
    return "\n".join(lines) + "\n"


def intended_of(spec):
    """The chart the generator MEANT (computed from the spec with the A5 defaults, without YAML)."""
    hits, holds, bpms, svs, meta = [], [], [], [], {}
    for key, value, _ in spec["top"]:
        if key == "HitObjects":
            for r in value[0]:
                d = dict(r)
                t = d.get("StartTime", 0)
                ks = d.get("KeySounds", [])
                if "EndTime" in d:
                    holds.append((d["Lane"] - 1, float(t), float(Fraction(d["EndTime"]) - Fraction(t)), ks))
                else:
                    hits.append((d["Lane"] - 1, float(t), ks))
        elif key == "TimingPoints":
            bpms = [(float(dict(r).get("StartTime", 0)), dict(r).get("Bpm")) for r in value[0]]
        elif key == "SliderVelocities":
            svs = [(float(dict(r).get("StartTime", 0)), dict(r).get("Multiplier")) for r in value[0]]
        else:
            meta[key] = value
    return dict(hits=hits, holds=holds, bpms=bpms, svs=svs, meta=meta)


def _time(rng, kind):
    if kind == "float":
        return rng.choice([0.5, 100.25, 1234.75, 99.999, 2500.001, 7.1])
    if kind == "half":  # values that round differently under half-even / half-up / truncation / floor, on both sides of 0
        return rng.choice([0.5, 1.5, 2.5, -0.5, -1.5, -2.5, 2.999, -2.999, 0.999, -0.001, 1000.5, 1001.5])
    if kind == "long":  # more than 6 significant digits
        return rng.choice([1234567.875, 123456.789, 100000.125, 7654321, 0.015625])
    if kind == "extreme":
        return rng.choice([2147483647, -2147483648, 2147483648.5, -2147483649.25, 86400000, 0, 4294967296])
    if kind == "neglarge":
        return rng.choice([-5000, -1, -250.5, 10**9, 10**9 + 0.5, 3600000])
    return rng.choice([0, 1, 100, 250, 1000, 1500, 123456])


BPM_POOL = [120.0, 177.5, 60, 200, 333.333]
MULT_POOL = [1.0, 0.5, 2, 1.25, -1.0, 0.0, 10.0]
BPM_LONG = [123.456789, 99.9999999, 0.123456789, 1000000.5, 174]
BPM_EXTREME = [0.001, 1, 99999.0, 65535, 1000000]
MULT_EXTREME = [1000.0, -1000.0, 0.0001, 100, 0.0]
MULT_LONG = [1.2345678, 0.3333333333, 9.87654321, 0.0001234, 1]


def gen_spec(rng, feature, lane=None):
    """One document of the A5 grammar.  `feature` names the single deviation from the plain base document."""
    mixed = feature == "mixed"

    def on(f, p=0.35):
        return feature == f or (mixed and f not in NOT_IN_MIXED and rng.random() < p)

    tk = "float" if on("float_times") else ("neglarge" if on("negative_large_times") else "int")
    if on("half_ms_times", 0.15):
        tk = "half"
    long_dec = on("long_decimals", 0.15)
    if long_dec and tk == "int":
        tk = "long"
    extreme = on("extreme_values", 0.06)
    if extreme:
        tk = "extreme"
    fractional = tk in ("float", "half", "long")
    n_hits, n_holds = rng.randrange(2, 5), rng.randrange(2, 4)
    single, many = on("single_records", 0.08), on("many_records", 0.04)
    if single:
        n_hits = n_holds = 1
    elif many:
        n_hits, n_holds = rng.randrange(8, 20), rng.randrange(5, 12)
    if on("hits_only", 0.1):
        n_holds = 0
    elif on("holds_only", 0.1):
        n_hits = 0
    if feature == "one_hit_only":
        n_hits, n_holds = 1, 0
    if feature == "one_hold_only":
        n_hits, n_holds = 0, 1
    if on("empty_hitobjects", 0.1) or feature == "all_sections_empty":
        n_hits = n_holds = 0
    n_rec = (lambda: 1) if single else ((lambda: rng.randrange(5, 12)) if many else (lambda: rng.randrange(1, 4)))
    n_tp = 0 if (on("empty_timingpoints", 0.1) or feature == "all_sections_empty") else n_rec()
    n_sv = 0 if (on("empty_svs", 0.2) or feature == "all_sections_empty") else n_rec()

    ks_pool = KS_POOL if on("keysounds_nonempty", 0.5) else [[]]
    zero_len, end_zero = on("zero_length_hold", 0.15), on("end_time_zero", 0.1)
    objs = []
    for i in range(n_hits + n_holds):
        t = _time(rng, tk)
        r = [["StartTime", t], ["Lane", lane if (lane and i == 0) else rng.randrange(1, 9)]]
        if i >= n_hits:
            e = t + rng.choice([1, 50, 500, 1000.5, 0.5, 0.25] if fractional else [1, 50, 500, 100000])
            if zero_len and (i == n_hits or rng.random() < 0.5):
                e = t  # end == start: a hold of length 0
            r.append(["EndTime", e])
        r.append(["KeySounds", rng.choice(ks_pool)])
        objs.append(r)
    if end_zero and n_holds:  # a hold whose END is exactly 0 (lead-in hold before the audio start, or zero length at 0)
        r = objs[n_hits + rng.randrange(n_holds)]
        r[0][1] = rng.choice([-100, -1, 0, -250.5, -0.5] if fractional else [-100, -1, 0, -5000])
        for kv in r:
            if kv[0] == "EndTime":
                kv[1] = 0
    distinct = on("all_fields_distinct", 0.12)
    if distinct:  # every object with key sounds of its own
        for i, r in enumerate(objs):
            r[-1][1] = [f"ks {i}.wav"] if i % 2 == 0 else [{"Sample": i + 1, "Volume": 10 + 7 * i}]
    hit_ix, hold_ix = list(range(n_hits)), list(range(n_hits, n_hits + n_holds))
    ties = on("ties", 0.2)
    if ties and n_hits >= 2:  # two hits at exactly the same time in the same lane
        objs[1][0][1], objs[1][1][1] = objs[0][0][1], objs[0][1][1]
    if ties and n_hits >= 1 and n_holds >= 1:  # a hit exactly on the head of a hold
        objs[n_hits - 1][0][1], objs[n_hits - 1][1][1] = objs[n_hits][0][1], objs[n_hits][1][1]

    def drop(recs, ixs, key):
        for i in ixs:
            recs[i] = [kv for kv in recs[i] if kv[0] != key]

    if hit_ix:
        if on("omit_start_time_one_hit", 0.2):
            drop(objs, [hit_ix[0]], "StartTime")
        if on("omit_start_time_all_hits", 0.1):
            drop(objs, hit_ix, "StartTime")
    if hold_ix:
        if on("omit_start_time_one_hold", 0.2):
            drop(objs, [hold_ix[0]], "StartTime")
        if on("omit_start_time_all_holds", 0.1):
            drop(objs, hold_ix, "StartTime")
    if objs:
        if on("omit_keysounds_some", 0.2):
            drop(objs, [i for i in range(len(objs)) if i % 2 == 0], "KeySounds")
        if on("omit_keysounds_all", 0.1):
            drop(objs, range(len(objs)), "KeySounds")
    # unknown-but-legal record keys (never in mixed documents)
    if feature in ("extra_record_keys_all", "extra_record_keys_some"):
        some = feature.endswith("some")
        for i, r in enumerate(objs):
            if not some or i % 2 == 0:
                r.append(["HitSound", rng.choice(["Clap", "Whistle, Finish", "Normal"])])
            if not some or i % 2 == 1:
                r.append(["EditorLayer", rng.randrange(1, 4)])
    rng.shuffle(objs)  # hits and holds interleaved in the document

    bpm_pool, mult_pool = (BPM_LONG, MULT_LONG) if long_dec else (BPM_POOL, MULT_POOL)
    if extreme:
        bpm_pool, mult_pool = BPM_EXTREME, MULT_EXTREME
    tps = [[["StartTime", _time(rng, tk)], ["Bpm", rng.choice(bpm_pool)]] for _ in range(n_tp)]
    svs = [[["StartTime", _time(rng, tk)], ["Multiplier", rng.choice(mult_pool)]] for _ in range(n_sv)]
    if on("kind_order", 0.25):
        timed = [r for r in objs if r[0][0] == "StartTime"]  # (objs are interleaved by now; records that lost their StartTime stay where they are)
        kinds = {k: v for k, v in dict(hit=[r for r in timed if all(kv[0] != "EndTime" for kv in r)], hold=[r for r in timed if any(kv[0] == "EndTime" for kv in r)], tp=tps, sv=svs).items() if v}
        if len(kinds) >= 2:
            allt = [r[0][1] for v in kinds.values() for r in v]
            r = rng.choice(kinds[rng.choice(sorted(kinds))])
            step = rng.choice([1, 250, 1000] + ([0.5] if fractional else []))
            new = rng.choice([min(allt) - step, min(allt), max(allt) + step, max(allt)])
            for kv in r:
                if kv[0] == "EndTime":
                    kv[1] = new + (kv[1] - r[0][1])
            r[0][1] = new
    if ties:  # two tempo changes / two SVs at exactly the same time with different values
        for recs, pool in ((tps, bpm_pool), (svs, mult_pool)):
            if recs:
                recs.insert(rng.randrange(len(recs) + 1), [["StartTime", recs[0][0][1]], [recs[0][1][0], rng.choice([v for v in pool if v != recs[0][1][1]])]])
    if feature in ("extra_record_keys_all", "extra_record_keys_some"):
        for i, r in enumerate(tps):
            if feature.endswith("all") or i % 2 == 0:
                r += [["Signature", 3], ["Hidden", True]]
    if tps:
        if on("omit_start_time_timing_point", 0.2):
            drop(tps, [0], "StartTime")
        if on("omit_start_time_all_timing_points", 0.1):
            drop(tps, range(len(tps)), "StartTime")
        if on("omit_bpm", 0.1):
            drop(tps, [rng.randrange(len(tps))], "Bpm")
        if on("omit_bpm_all", 0.04):
            drop(tps, range(len(tps)), "Bpm")
    if svs:
        if on("omit_start_time_sv", 0.2):
            drop(svs, [0], "StartTime")
        if on("omit_start_time_all_svs", 0.1):
            drop(svs, range(len(svs)), "StartTime")
        if on("omit_multiplier", 0.15):  # any position: first / middle / last / the only entry
            drop(svs, [rng.randrange(len(svs))], "Multiplier")
        if on("omit_multiplier_all", 0.05):
            drop(svs, range(len(svs)), "Multiplier")

    hostile = on("meta_hostile", 0.6)

    def text():
        return rng.choice(HOSTILE) if hostile else rng.choice(BENIGN)

    def style():
        return rng.choice("pds") if hostile else rng.choice("pd")

    top = []
    d_texts, d_ints = rng.sample(D_TEXTS, len(TEXT_KEYS)), rng.sample([7, 33, 2001, 12345, 169955], len(INT_KEYS))
    for k in META_KEYS:
        if distinct:
            v = ("Keys7" if k == "Mode" else "t1 tag:2 三" if k == "Tags" else d_texts[TEXT_KEYS.index(k)] if k in TEXT_KEYS else d_ints[INT_KEYS.index(k)] if k in INT_KEYS
                 else False if k in BOOL_KEYS else rng.choice([2.5, 0.75]) if k in NUM_KEYS else D_LISTS[k])
            top.append([k, v, rng.choice("pd")])
            continue
        if k == "Mode":
            v = rng.choice(["Keys4", "Keys7"])
        elif k == "Tags":
            v = " ".join(rng.sample(HOSTILE_TAGS, rng.randrange(0, 4))) if hostile else rng.choice(["", "a", "tag1 tag2"])
        elif k in TEXT_KEYS:
            v = text()
        elif k in INT_KEYS:
            v = rng.choice([2147483647, -2147483648, 0] if extreme else [-1, 0, 12345, 169955])
        elif k in BOOL_KEYS:
            v = rng.random() < 0.5
        elif k in NUM_KEYS:
            v = rng.choice([0.0, 100.0, 0.01] if extreme else [1.0, 0.5, 2.5])
        else:
            v = rng.choice([[], [], [{"Name": "Layer 1", "ColorRgb": "255,0,0"}], [{"Path": text(), "UnaffectedByRate": False}]])
        top.append([k, v, style()])
    if on("meta_omitted", 0.3):
        top = [e for e in top if rng.random() < 0.5]
    if feature == "extra_top_keys":  # keys outside A5 that real documents carry
        top += [["Bookmarks", rng.choice([[], [{"StartTime": 1000, "Note": "drop: here"}]]), "d"], ["LegacyLNRendering", rng.random() < 0.5, "d"], ["CustomNote", text(), style()]]
    rs = "flow" if on("flow_records", 0.3) else "block"
    top += [["TimingPoints", [tps, rs], ""], ["SliderVelocities", [svs, rs], ""], ["HitObjects", [objs, rs], ""]]
    if on("key_order", 0.5):
        rng.shuffle(top)
        for _, value, _s in top:
            if isinstance(value, list) and len(value) == 2 and value[1] in ("flow", "block"):
                for r in value[0]:
                    rng.shuffle(r)
    return dict(top=top)


FORMS = ["crlf", "trailing_blank_lines", "no_final_newline", "comments"]
READ_VIAS = ["lines_split", "lines_splitlines", "lines_keepends", "unsafe", "instance", "file", "file_reused", "after_edited_reading"]
#: write_file onto a path that already holds a file: a longer / shorter old text, the export of another chart, an earlier export of this chart
WRITE_VIAS = ["write", "write_file", "write_file_path", "write_file_over_longer", "write_file_over_shorter", "write_file_over_other_chart", "write_file_twice"]
_OLD_DOC = "Title: 'old export: #1'\nMode: Keys7\nTimingPoints:\n- StartTime: 5\n  Bpm: 99.0\nSliderVelocities:\n- StartTime: 7\n  Multiplier: 3.0\nHitObjects:\n" + "- StartTime: 5\n  Lane: 7\n  KeySounds: []\n- StartTime: 6\n  Lane: 6\n  EndTime: 9\n  KeySounds: []\n"


def _apply_form(rng, text, form):
    """The same YAML document in another textual form (line ends, blank lines, comment lines)."""
    if form == "crlf":
        return text.replace("\n", "\r\n")
    if form == "trailing_blank_lines":
        return text + "\n\n"
    if form == "no_final_newline":
        return text.rstrip("\n")
    if form == "comments":  # comment lines at the top, the bottom and before a top-level key
        lines = text.split("\n")
        tops = [i for i, l in enumerate(lines) if l and l[0] not in " -#"]
        i = rng.choice(tops)
        lines[i:i] = ["# Title: not a key  # nested", "#"]
        return "# a .qua document: comment, 'quotes', [brackets]\n" + "\n".join(lines) + "# end\n"
    return text


def _doc_case(rng, feature, lane=None, vary=0.4):
    """(case, text, intended): the generator checks ITSELF first - its own emitter read through the oracle
    must give the chart it meant, otherwise the checker (not reamber) is wrong.  With probability `vary` each,
    the text FORM, the read entry point (`via`) and the write entry point (`wvia`) are non-default."""
    spec = gen_spec(rng, feature, lane)
    for e in spec["top"]:  # plain style only where YAML reads the bare text as that very string
        if isinstance(e[1], str) and e[2] == "p":
            try:
                ok = _yaml_load(f"k: {_emit_scalar(e[1], 'p')}\n") == {"k": e[1]}
            except Exception:
                ok = False
            if not ok:
                e[2] = "d"
    text = emit_doc(spec)
    form = rng.choice(FORMS) if rng.random() < vary else "lf"
    text = _apply_form(rng, text, form)
    want = intended_of(spec)
    got = den_qua(text)
    diff = compare_charts(want, got, 1e-9) or compare_charts(got, want, 1e-9)
    if diff or set(got["meta"]) != set(want["meta"]):
        raise AssertionError(f"generator/oracle disagreement on its own document:\n{text}\n{diff}")
    case = dict(feature=feature, text=text)
    if rng.random() < vary:
        case["via"] = rng.choice(READ_VIAS)
    if rng.random() < vary:
        case["wvia"] = rng.choice(WRITE_VIAS)
    return case, text, want


def _read_via(text, via):
    """The charts REAL reamber reads from the document through entry point `via` (one chart, or two when the
    same input OBJECT is read twice: the second reading must denote the document like the first)."""
    from reamber.quaver.QuaMap import QuaMap

    if via == "str":
        return [QuaMap.read(text)]
    if via == "unsafe":
        return [QuaMap.read(text, safe=False)]
    if via == "instance":
        return [QuaMap().read(text)]
    if via.startswith("lines_"):
        lines = text.split("\n") if via == "lines_split" else (text.splitlines() if via == "lines_splitlines" else text.splitlines(True))
        return [QuaMap.read(lines), QuaMap.read(lines)]
    if via == "file":
        with tempfile.TemporaryDirectory(prefix="c06_") as d:
            p = os.path.join(d, "chart 譜面.qua")
            with open(p, "wb") as fh:
                fh.write(text.encode("utf-8"))
            return [QuaMap.read_file(p), QuaMap.read_file(pathlib.Path(p))]
    if via == "after_edited_reading":
        # read - the chart read is changed through public operations, its list-valued fields in place - read the same text again:
        # the second reading denotes the document, not the edits
        first = QuaMap.read(text)
        try:
            first.hits.offset += 1000
            first.holds.column += 1
            first.bpms.bpm *= 2
            first.svs = first.svs.append(first.svs[:1])
            first.title, first.mode = "edited", "Keys7" if first.mode == "Keys4" else "Keys4"
            for field in (first.tags, first.editor_layers, first.custom_audio_samples, first.sound_effects):
                if isinstance(field, list):
                    field.append("edited")
            for ks in first.hits.keysounds.tolist() + first.holds.keysounds.tolist():
                if isinstance(ks, list):
                    ks.append("edited.wav")
        except Exception:  # (what the list operations do with this chart is not the reader's matter)
            pass
        return [QuaMap.read(text)]
    if via == "file_reused":  # the path held another (longer) document, which was read from it, before it holds this one
        with tempfile.TemporaryDirectory(prefix="c06_") as d:
            p = os.path.join(d, "chart.qua")
            with open(p, "wb") as fh:
                fh.write((_OLD_DOC + "- StartTime: 5\n  Lane: 1\n" * (len(text) // 20 + 10)).encode("utf-8"))
            QuaMap.read_file(p)
            with open(p, "wb") as fh:
                fh.write(text.encode("utf-8"))
            return [QuaMap.read_file(p)]
    raise ValueError(via)


def _write_via(m, wvia):
    """The document text REAL reamber writes for the chart through write() or write_file()."""
    if wvia == "write":
        return m.write()
    if wvia.startswith("write_file"):
        with tempfile.TemporaryDirectory(prefix="c06_") as d:
            p = os.path.join(d, "out 譜面.qua")
            # what the path holds before: the file afterwards must denote exactly the chart written last
            if wvia == "write_file_over_longer":
                with open(p, "wb") as fh:
                    fh.write((_OLD_DOC + "- StartTime: 5\n  Lane: 1\n" * 12000).encode("utf-8"))  # ~ 300 kB: longer than any generated chart's document
            elif wvia == "write_file_over_shorter":
                with open(p, "wb") as fh:
                    fh.write(b"Title: x")
            elif wvia == "write_file_over_other_chart":
                from reamber.quaver.QuaMap import QuaMap

                QuaMap.read(_OLD_DOC).write_file(p)
            elif wvia == "write_file_twice":
                m.write_file(p)
            m.write_file(pathlib.Path(p) if wvia == "write_file_path" else p)
            with open(p, "rb") as fh:
                return fh.read().decode("utf-8")
    raise ValueError(wvia)


@contextlib.contextmanager
def _quiet():
    prev = logging.root.manager.disable
    logging.disable(logging.CRITICAL)
    try:
        with warnings.catch_warnings():
            warnings.simplefilter("ignore")
            yield
    finally:
        logging.disable(prev)


def _exc(ex):
    return f"{type(ex).__name__}: {str(ex)[:300]}"


# ----------------------------------------------------------------------------- (a) read vs denotation


def run_read_case(case):
    """-> [(what, detail)]"""
    f = case["feature"]
    text = case["text"]
    via = case.get("via", "str")
    want = den_qua(text)
    try:
        with _quiet():
            charts = [chart_of(m) for m in _read_via(text, via)]
    except Exception as ex:
        return [(f"read.accepts[{f}]", f"(via {via}) " + _exc(ex))]
    out, seen = [], set()
    for i, got in enumerate(charts):
        tag = f"(via {via}" + (", SECOND reading of the same input object) " if i else ") ")
        found = compare_charts(want, got, 1e-6)
        d = sv_default_clause(want, got, 1e-6)
        if d:
            found.append(("sv_default_multiplier", d))
        for a, d in found:
            if a not in seen:
                seen.add(a)
                out.append((f"read.{a}[{f}]", (tag if via != "str" else "") + d))
    return out


@bounded("C06", note="generated .qua documents (A5 grammar, own emitter) -> REAL QuaMap.read vs the independent denotation den_qua: lanes 1..8, every optional key present/absent, empty sections, hits only, holds only, YAML-hostile metadata")
def qua_read_vs_denotation(rep):
    rng = rep.rng
    N = rep.n(300, 4000)
    rep.bound = (f"{N} documents: lanes 1..8 enumerated, every single-feature document x seeds ({len(FEATURES) - 2} features), rest random feature mixtures; "
                 "1..4 hits, 1..3 holds, 1..3 timing points, 1..3 SVs per document (exactly one of each / 8..19 hits, 5..11 holds, 5..11 timing points and SVs as features of their own); "
                 "each section empty on its own; StartTime omitted on one / all records of every kind, KeySounds on some / all, Bpm and Multiplier on one record at any position / on all; "
                 "zero-length holds, a hold ending exactly at 0, two hits / hit on hold head / two timing points / two SVs at exactly the same time with different values; "
                 "times: whole, fractional, x.5 and x.999 on both sides of 0, negative, 1e9, > 6 significant digits (also Bpm / Multiplier); unknown top-level keys, unknown record keys on all / on some records (single-feature documents only); "
                 "the ends of the value ranges as a feature of its own (times around +-2^31 and 2^32 ms, tempo 0.001 .. 1e6, multipliers +-1000 / 0.0001 / 0, 32-bit extremes in the integer keys, InitialScrollVelocity 0 / 100); "
                 f"strings from a pool of {len(HOSTILE)} YAML-hostile texts (incl. U+00A0 / U+3000 inside and at the ends, full-width punctuation, wave dash, '//', ',', '#', CR LF, YAML 1.1 number / date look-alikes) in plain/single/double quoting; "
                 f"40% of the documents in another text form ({', '.join(FORMS)}) and 40% through another entry point than read(str) ({', '.join(READ_VIAS)}; list inputs are read twice from the same list object, files through a str path and a Path)")
    rep.bound += ("; (14) feature all_fields_distinct: every one of the 21 metadata keys present with a non-default value different from every sibling of its type (both booleans false, the three list keys non-empty and different), every object with key sounds of its own; "
                  "(16) markers of the format (Keys4 / Keys7 / Keys8, HitObjects, 'StartTime: 5', [], {}, -1, 0 ...) as ordinary text values in the hostile pool; (17) feature kind_order: one record of one kind (hit, hold, timing point, SV) moved strictly before / exactly onto the earliest, "
                  "or after / onto the latest record of ALL kinds; in-memory charts: 20% all fields distinct, 30% such a move (case['dims'])")
    rep.rule = ("a case is one document text + entry point; non-trivial when it has at least one object or timing record; each document is first read through the oracle and compared with the chart the generator meant (self-check); "
                f"an omitted Multiplier must read as one constant out of {DEFAULT_MULTIPLIERS} (clause sv_default_multiplier), an omitted Bpm is not asserted")
    plan = [("lane", l) for l in range(1, 9)]
    singles = [f for f in FEATURES if f not in ("lane", "mixed")]
    per = max(3, (2 * N // 3) // len(singles))
    plan += [(f, None) for _ in range(per) for f in singles]  # round-robin: a run cut short by the time budget still meets every feature
    plan += [("mixed", None)] * max(0, N - len(plan))
    feats, vias = {}, {}
    for f, lane in plan:
        if rep.out_of_time(40, 300):
            break
        case, text, want = _doc_case(rng, f, lane)
        rep.case(case, nontrivial=bool(want["hits"] or want["holds"] or want["bpms"] or want["svs"]))
        feats[f] = feats.get(f, 0) + 1
        vias[case.get("via", "str")] = vias.get(case.get("via", "str"), 0) + 1
        for what, d in run_read_case(case):
            rep.fail(what, case, d)
    rep.extra["documents_per_feature"] = feats
    rep.extra["documents_per_entry_point"] = vias


@replayer("qua_read_vs_denotation")
def _replay_read(case, what):
    hit = [d for w, d in run_read_case(case) if w == what]
    return (bool(hit), hit[0] if hit else "passes")


# ----------------------------------------------------------------------------- in-memory charts

_T_NATIVE = [0, 100, 100.7, 250.25, 999.999, -50.5, -1, 1000000000.5, 3600000, 0.4, -0.4,
             0.5, 1.5, 2.5, -0.5, -1.5, 2.999, 1234567.875,          # x.5 on both sides of 0, x.999, > 6 significant digits
             2147483648.5, -2147483649.25]                            # beyond the 32-bit range on both sides
_T_INT = [0, 1, 100, 250, 999, -50, -1, 1000000000, 3600000, 2147483647, -2147483648, 4294967296]  # all-int charts: int64 columns
_LEN_NATIVE = [0.2, 1, 50.5, 500, 99999.9, 0, 0.5, 0.999]            # incl. zero-length holds (end == start)
_LEN_INT = [0, 1, 50, 500, 100000]
POST_OPS = ["none", "sorted", "sorted_desc", "reversed", "drop_first", "keep_odd", "drop_second"]
#: call - legitimate change - call again: after the first write the SAME chart object is changed through public operations, then written again
EDITS = ["shift_props", "shift_stack", "rate", "columns_props", "columns_stack", "append", "new_lists", "values", "meta"]


def _gen_objects(rng, keys, n_hits, n_holds, with_ks, ints=False):
    T, L = (_T_INT, _LEN_INT) if ints else (_T_NATIVE, _LEN_NATIVE)
    hits = [[rng.choice(T), rng.randrange(keys), rng.choice(KS_POOL) if with_ks else []] for _ in range(n_hits)]
    holds = [[rng.choice(T), rng.randrange(keys), rng.choice(L), rng.choice(KS_POOL) if with_ks else []] for _ in range(n_holds)]
    return hits, holds


LONG_N = [20, 33, 48, 64, 90, 120]


def gen_long_ties(rng, kind, ints=False, n=None):
    """LONG list with ties: 20..120 [time, value] records of one kind (kind: svs | bpms) on a time raster, 1..4 records per time with pairwise
    different values (the 'teleport' idiom: several scroll velocities at one time, the last one listed is the one in force); rows in time
    order (3 of 5), in descending time order with the order inside a time kept, or shuffled."""
    n = n or rng.choice(LONG_N)
    if kind == "svs":
        vals = [1, 2, -1, 0, 10, 3, 5] if ints else [1.0, 0.5, 2.0, 1.25, -1.0, 10.0, 0.0, 100.0, 0.01]
    else:
        vals = [120, 60, 200, 90, 150] if ints else [120.0, 177.5, 60.0, 333.333, 90.5, 240.0]
    t0, step = rng.choice([0, 1000, -2000]), rng.choice([250, 500, 125] if ints else [250, 500, 187.5, 333.5])
    recs, i = [], 0
    while len(recs) < n:
        recs += [[t0 + step * i, v] for v in rng.sample(vals, rng.choice([1, 2, 2, 3, 3, 4]))]
        i += 1
    order = rng.choice(["time", "time", "time", "descending", "shuffled"])
    if order == "descending":
        recs.sort(key=lambda r: -r[0])
    elif order == "shuffled":
        rng.shuffle(recs)
    return recs


def long_ties_doc(rng, n=None):
    """a plain .qua text (own emitter) whose TimingPoints and / or SliderVelocities are LONG lists with ties -> (text, dims)"""
    which = rng.choice(["svs", "svs", "bpms", "both"])
    ints = rng.random() < 0.3
    bpms = gen_long_ties(rng, "bpms", ints, n) if which in ("bpms", "both") else [[0, 120.0]]
    svs = gen_long_ties(rng, "svs", ints, n) if which in ("svs", "both") else [[500, 1.5]]
    text = "AudioFile: audio.mp3\nTitle: long lists with ties\nMode: Keys4\nTimingPoints:\n" + "".join(f"- StartTime: {t!r}\n  Bpm: {b!r}\n" for t, b in bpms)
    text += "SliderVelocities:\n" + "".join(f"- StartTime: {t!r}\n  Multiplier: {x!r}\n" for t, x in svs)
    text += "HitObjects:\n- StartTime: 1000\n  Lane: 1\n  KeySounds: []\n- StartTime: 1500\n  Lane: 4\n  EndTime: 2250\n  KeySounds: []\n"
    return text, ["long_ties_" + which]


def gen_chart_case(rng, origin, long_ties=None, n_long=None):
    """JSON-able description of an in-memory source chart.  origin: lists (native Quaver lists) | osu | sm | bms | o2j."""
    keys = rng.choice([4, 7])
    # (BMSToQua derives the key count from the highest column, so an empty BMS chart cannot be converted at all)
    shape = rng.choice(["both", "both", "both", "hits_only", "holds_only", "many"] + ([] if origin == "bms" else ["empty"]))
    n_hits = 0 if shape in ("holds_only", "empty") else rng.randrange(1, 5)
    n_holds = 0 if shape in ("hits_only", "empty") else rng.randrange(1, 4)
    if shape == "many":
        n_hits, n_holds = rng.randrange(8, 25), rng.randrange(5, 12)
    # numeric types of the item values (native lists only): python numbers of mixed type, all ints (int64 columns), numpy scalars
    numeric = rng.choice(["py", "py", "int", "np"]) if origin == "lists" else "py"
    ints = numeric == "int"
    hits, holds = _gen_objects(rng, keys, n_hits, n_holds, with_ks=(origin == "lists"), ints=ints)
    if origin == "bms" and (hits or holds):  # key count of a BMS chart = highest column + 1
        (hits or holds)[0][1] = keys - 1
    wide = origin == "lists" and not ints and rng.random() < 0.2  # native charts: tempo / multiplier values from the ends of the range
    bpms = [[rng.choice([0, -100, 1000, 2500] if ints else [0, -100.5, 1000, 2500.75]), rng.choice([120, 60, 200] if ints else BPM_EXTREME if wide else [120, 177.5, 60.0, 333.333, 123.456789])]
            for _ in range(rng.randrange(0 if origin == "lists" else 1, 4))]
    svs = [[rng.choice(_T_INT if ints else _T_NATIVE), rng.choice([1, 2, -1, 0, 10] if ints else MULT_EXTREME if wide else [1.0, 0.5, 2.0, 1.25, -1.0, 10.0, 0.0, 1.2345678, 0.3333333333])]
           for _ in range(rng.randrange(0, 4))] if origin in ("lists", "osu") else []
    hostile = rng.random() < 0.7
    pool = HOSTILE if hostile else BENIGN
    meta = dict(title=rng.choice(pool), artist=rng.choice(pool), creator=rng.choice(pool), version=rng.choice(pool), audio=rng.choice(pool), background=rng.choice(pool),
                tags=rng.sample(HOSTILE_TAGS, rng.randrange(0, 4)), preview=rng.choice([-1, 0, 12345]))
    if origin == "lists":
        meta.update(source=rng.choice(pool), description=rng.choice(pool), genre=rng.choice(pool), banner=rng.choice(pool), map_id=rng.choice([-1, 77]), isv=rng.choice([1.0, 2.5]),
                    scratch=rng.random() < 0.5, bpm_sv=rng.random() < 0.5, layers=rng.choice([[], [{"Name": "L: 1", "ColorRgb": "1,2,3"}]]))
    dims = []
    if long_ties is None:
        long_ties = origin in ("lists", "osu") and rng.random() < 0.08
    if long_ties and origin in ("lists", "osu"):
        # LONG lists with ties (20..120 records, several records per StartTime with different values); converted charts: SVs of an osu! chart
        which = rng.choice(["svs", "svs", "bpms", "both"]) if origin == "lists" else "svs"
        if which in ("svs", "both"):
            svs = gen_long_ties(rng, "svs", ints, n_long)
        if which in ("bpms", "both"):
            bpms = gen_long_ties(rng, "bpms", ints, n_long)
    if rng.random() < 0.2:  # (14) every metadata field / key-sound list non-default and different from its siblings
        texts = rng.sample(D_TEXTS, 10)
        meta.update(title=texts[0], artist=texts[1], creator=texts[2], version=texts[3], audio=texts[4], background=texts[5], tags=["t1", "tag:2", "三"], preview=4321)
        if origin == "lists":
            meta.update(source=texts[6], description=texts[7], genre=texts[8], banner=texts[9], map_id=77, isv=2.5, scratch=False, bpm_sv=False, layers=[{"Name": "L: 1", "ColorRgb": "1,2,3"}])
            for i, r in enumerate(hits + holds):
                r[-1] = [f"ks {i}.wav"] if i % 2 == 0 else [{"Sample": i + 1, "Volume": 10 + 7 * i}]
        dims.append("all_fields_distinct")
    if rng.random() < 0.3:  # (17) which kind of row is the earliest / latest of the chart
        kinds = {k: v for k, v in dict(hits=hits, holds=holds, bpms=bpms, svs=svs).items() if v}
        if len(kinds) >= 2:
            allt = [r[0] for v in kinds.values() for r in v]
            k = rng.choice(sorted(kinds))
            step = rng.choice([1, 250, 1000] + ([] if ints else [0.5]))
            how = rng.choice(["first", "first_tied", "last", "last_tied"])
            rng.choice(kinds[k])[0] = {"first": min(allt) - step, "first_tied": min(allt), "last": max(allt) + step, "last_tied": max(allt)}[how]
            dims.append(f"{k}_{how}")
    if long_ties and origin in ("lists", "osu"):
        dims.append("long_ties_" + which)
    case = dict(origin=origin, keys=keys, hits=hits, holds=holds, bpms=bpms, svs=svs, meta=meta)
    if dims:
        case["dims"] = dims
    if numeric != "py":
        case["numeric"] = numeric
    if rng.random() < 0.4:  # public list operations before writing: row labels permuted / reversed / offset / gappy, per list kind
        case["post"] = {k: rng.choice(POST_OPS) for k in ("hits", "holds", "bpms", "svs")}
    if rng.random() < 0.35:
        case["wvia"] = rng.choice(WRITE_VIAS[1:])
    if rng.random() < 0.5:
        case["edit"] = rng.choice(EDITS)
    if rng.random() < 0.3:  # entry point of the read-after-write (not lines_keepends: a written document may hold multi-line scalars, in which doubled line ends are another text)
        case["rvia"] = rng.choice([v for v in READ_VIAS if v != "lines_keepends"])
    return case


def _post_op(lst, op):
    """A public list operation that leaves other row labels than 0..n-1 (and possibly fewer / reordered rows)."""
    import numpy as np

    n = len(lst)
    if op == "sorted":
        return lst.sorted()
    if op == "sorted_desc":
        return lst.sorted(reverse=True)
    if op == "reversed":
        return lst[::-1]
    if op == "drop_first":
        return lst[1:]
    if op == "keep_odd":
        return lst[np.arange(n) % 2 == 1]
    if op == "drop_second":
        return lst[np.arange(n) != 1]
    return lst


def _apply_post(charts, post):
    for m in charts:
        for k, op in (post or {}).items():
            if op != "none":
                setattr(m, k, _post_op(getattr(m, k), op))
    return charts


_FIXTURES = dict(osu="rsc/maps/osu/*.osu", sm="rsc/maps/sm/*.sm", bms="rsc/maps/bms/*", o2j="rsc/maps/o2jam/*.ojn", qua="rsc/maps/qua/*.qua")


def fixture_cases(origin, limit):
    files = sorted(glob.glob(os.path.join(REPO, _FIXTURES[origin])))
    files.sort(key=os.path.getsize)
    return [dict(origin=origin, file=os.path.relpath(f, REPO), limit=limit) for f in files]


def _cut(m, limit):
    if limit:
        m.hits = m.hits[:limit]
        m.holds = m.holds[: max(1, limit // 3)]
    return m


def build_charts(case):
    """case -> [QuaMap] through the REAL constructors / converters (a converter may give several charts), then
    the public list operations of case['post'] on each of its four lists."""
    return _apply_post(_build_charts(case), case.get("post"))


def _build_charts(case):
    o = case["origin"]
    if o == "doc":
        from reamber.quaver.QuaMap import QuaMap

        return _read_via(case["text"], case.get("via", "str"))[-1:]
    if "file" in case:
        path = os.path.join(REPO, case["file"])
        lim = case.get("limit")
        if o == "qua":
            from reamber.quaver.QuaMap import QuaMap

            return [_cut(QuaMap.read_file(path), lim)]
        if o == "osu":
            from reamber.osu.OsuMap import OsuMap
            from reamber.algorithms.convert import OsuToQua

            return [OsuToQua.convert(_cut(OsuMap.read_file(path), lim), raise_bad_mode=False)]
        if o == "sm":
            from reamber.sm.SMMapSet import SMMapSet
            from reamber.algorithms.convert import SMToQua

            ms = SMMapSet.read_file(path)
            for m in ms:
                _cut(m, lim)
            return SMToQua.convert(ms, raise_bad_mode=False)
        if o == "bms":
            from reamber.bms.BMSMap import BMSMap
            from reamber.algorithms.convert import BMSToQua

            return [BMSToQua.convert(_cut(BMSMap.read_file(path), lim), raise_bad_mode=False)]
        if o == "o2j":
            from reamber.o2jam.O2JMapSet import O2JMapSet
            from reamber.algorithms.convert import O2JToQua

            ms = O2JMapSet.read_file(path)
            for m in ms:
                _cut(m, lim)
            return O2JToQua.convert(ms)
        raise ValueError(o)
    me = case["meta"]
    H, L, B, S = case["hits"], case["holds"], case["bpms"], case["svs"]
    if o == "lists":
        from reamber.quaver.QuaMap import QuaMap
        from reamber.quaver.QuaHit import QuaHit
        from reamber.quaver.QuaHold import QuaHold
        from reamber.quaver.QuaBpm import QuaBpm
        from reamber.quaver.QuaSv import QuaSv
        from reamber.quaver.lists.QuaBpmList import QuaBpmList
        from reamber.quaver.lists.QuaSvList import QuaSvList
        from reamber.quaver.lists.notes.QuaHitList import QuaHitList
        from reamber.quaver.lists.notes.QuaHoldList import QuaHoldList

        if case.get("numeric") == "np":  # numpy scalars as item values
            import numpy as np

            def N(v):
                return np.int64(v) if isinstance(v, int) else np.float64(v)
        else:
            def N(v):
                return v

        m = QuaMap()
        m.hits = QuaHitList([QuaHit(offset=N(t), column=N(c), keysounds=list(k)) for t, c, k in H])
        m.holds = QuaHoldList([QuaHold(offset=N(t), column=N(c), length=N(d), keysounds=list(k)) for t, c, d, k in L])
        m.bpms = QuaBpmList([QuaBpm(offset=N(t), bpm=N(b)) for t, b in B])
        m.svs = QuaSvList([QuaSv(offset=N(t), multiplier=N(x)) for t, x in S])
        m.title, m.artist, m.creator, m.difficulty_name = me["title"], me["artist"], me["creator"], me["version"]
        m.audio_file, m.background_file, m.banner_file = me["audio"], me["background"], me["banner"]
        m.tags, m.song_preview_time, m.source, m.description, m.genre = list(me["tags"]), me["preview"], me["source"], me["description"], me["genre"]
        m.map_id, m.initial_scroll_velocity, m.has_scratch_key, m.bpm_does_not_affect_scroll_velocity = me["map_id"], me["isv"], me["scratch"], me["bpm_sv"]
        m.editor_layers = list(me["layers"])
        m.mode = "Keys4" if case["keys"] == 4 else "Keys7"
        return [m]
    if o == "osu":
        from reamber.osu.OsuMap import OsuMap
        from reamber.osu.OsuHit import OsuHit
        from reamber.osu.OsuHold import OsuHold
        from reamber.osu.OsuBpm import OsuBpm
        from reamber.osu.OsuSv import OsuSv
        from reamber.osu.lists.OsuBpmList import OsuBpmList
        from reamber.osu.lists.OsuSvList import OsuSvList
        from reamber.osu.lists.notes.OsuHitList import OsuHitList
        from reamber.osu.lists.notes.OsuHoldList import OsuHoldList
        from reamber.algorithms.convert import OsuToQua

        s = OsuMap()
        s.circle_size = float(case["keys"])
        s.hits = OsuHitList([OsuHit(offset=t, column=c) for t, c, _ in H])
        s.holds = OsuHoldList([OsuHold(offset=t, column=c, length=d) for t, c, d, _ in L])
        s.bpms = OsuBpmList([OsuBpm(offset=t, bpm=b) for t, b in B])
        s.svs = OsuSvList([OsuSv(offset=t, multiplier=x) for t, x in S])
        s.title, s.artist, s.creator, s.version, s.audio_file_name, s.background_file_name = me["title"], me["artist"], me["creator"], me["version"], me["audio"], me["background"]
        s.tags, s.preview_time = list(me["tags"]), me["preview"]
        return [OsuToQua.convert(s)]
    if o == "sm":
        from reamber.sm.SMMapSet import SMMapSet
        from reamber.sm.SMMap import SMMap
        from reamber.sm.SMHit import SMHit
        from reamber.sm.SMHold import SMHold
        from reamber.sm.SMBpm import SMBpm
        from reamber.sm.lists.SMBpmList import SMBpmList
        from reamber.sm.lists.notes import SMHitList, SMHoldList
        from reamber.algorithms.convert import SMToQua

        s = SMMap()
        s.chart_type = "dance-single" if case["keys"] == 4 else "kb7-single"
        s.hits = SMHitList([SMHit(offset=t, column=c) for t, c, _ in H])
        s.holds = SMHoldList([SMHold(offset=t, column=c, length=d) for t, c, d, _ in L])
        s.bpms = SMBpmList([SMBpm(offset=t, bpm=b) for t, b in B])
        ms = SMMapSet()
        ms.maps = [s]
        ms.title, ms.artist, ms.credit, ms.music, ms.background, ms.sample_start = me["title"], me["artist"], me["creator"], me["audio"], me["background"], float(max(0, me["preview"]))
        return SMToQua.convert(ms)
    if o == "bms":
        from reamber.bms.BMSMap import BMSMap
        from reamber.bms.BMSHit import BMSHit
        from reamber.bms.BMSHold import BMSHold
        from reamber.bms.BMSBpm import BMSBpm
        from reamber.bms.lists.BMSBpmList import BMSBpmList
        from reamber.bms.lists.notes import BMSHitList, BMSHoldList
        from reamber.algorithms.convert import BMSToQua

        s = BMSMap()
        s.hits = BMSHitList([BMSHit(offset=t, column=c) for t, c, _ in H])
        s.holds = BMSHoldList([BMSHold(offset=t, column=c, length=d) for t, c, d, _ in L])
        s.bpms = BMSBpmList([BMSBpm(offset=t, bpm=b) for t, b in B])
        s.title, s.artist, s.version = (me[k].encode("sjis", errors="replace") for k in ("title", "artist", "version"))
        return [BMSToQua.convert(s, raise_bad_mode=False)]
    if o == "o2j":
        from reamber.o2jam.O2JMapSet import O2JMapSet
        from reamber.o2jam.O2JMap import O2JMap
        from reamber.o2jam.O2JHit import O2JHit
        from reamber.o2jam.O2JHold import O2JHold
        from reamber.o2jam.O2JBpm import O2JBpm
        from reamber.o2jam.lists.O2JBpmList import O2JBpmList
        from reamber.o2jam.lists.notes import O2JHitList, O2JHoldList
        from reamber.algorithms.convert import O2JToQua

        s = O2JMap()
        s.hits = O2JHitList([O2JHit(offset=t, column=c) for t, c, _ in H])
        s.holds = O2JHoldList([O2JHold(offset=t, column=c, length=d) for t, c, d, _ in L])
        s.bpms = O2JBpmList([O2JBpm(offset=t, bpm=b) for t, b in B])
        ms = O2JMapSet()
        ms.maps = [s]
        ms.level = [7]
        ms.title, ms.artist, ms.creator = me["title"], me["artist"], me["creator"]
        return O2JToQua.convert(ms)
    raise ValueError(o)


class _EditStepError(Exception):
    """the public list / stack / rate operation of an edit raised: not an observation of QuaMap.write"""


def _apply_edit(m, edit, chart):
    """One legitimate public change of the chart object `m`, whose chart before was `chart` (chart_of).  -> (the chart object to
    write next, the chart it must denote now - computed from `chart` and the DESCRIPTION of the edit, not from the object - or
    None for rate(), where the new chart is read off the public attributes of the chart rate() returns)."""
    from reamber.quaver.QuaHit import QuaHit
    from reamber.quaver.QuaHold import QuaHold
    from reamber.quaver.QuaBpm import QuaBpm
    from reamber.quaver.QuaSv import QuaSv
    from reamber.quaver.lists.QuaBpmList import QuaBpmList
    from reamber.quaver.lists.QuaSvList import QuaSvList
    from reamber.quaver.lists.notes.QuaHitList import QuaHitList
    from reamber.quaver.lists.notes.QuaHoldList import QuaHoldList

    want = dict(hits=list(chart["hits"]), holds=list(chart["holds"]), bpms=list(chart["bpms"]), svs=list(chart["svs"]), meta=dict(chart["meta"]))
    if edit not in EDITS:
        raise ValueError(edit)
    try:
        if edit in ("shift_props", "shift_stack"):
            if edit == "shift_props":
                m.hits.offset += 1000
                m.holds.offset += 1000
                m.bpms.offset += 1000
                m.svs.offset += 1000
            else:
                s = m.stack()
                s.offset += 1000
            want.update(hits=[(c, t + 1000, k) for c, t, k in chart["hits"]], holds=[(c, t + 1000, d, k) for c, t, d, k in chart["holds"]],
                        bpms=[(t + 1000, b) for t, b in chart["bpms"]], svs=[(t + 1000, x) for t, x in chart["svs"]])
        elif edit in ("columns_props", "columns_stack"):
            if edit == "columns_props" or not (chart["hits"] or chart["holds"]):
                m.hits.column += 1
                m.holds.column += 1
            else:
                s = m.stack()
                s.column += 1
            want.update(hits=[(c + 1, t, k) for c, t, k in chart["hits"]], holds=[(c + 1, t, d, k) for c, t, d, k in chart["holds"]])
        elif edit == "values":  # (the library's own page on Quaver shows this edit)
            m.svs.multiplier *= 1.5
            m.bpms.bpm *= 1.5
            want.update(bpms=[(t, b * 1.5) for t, b in chart["bpms"]], svs=[(t, x * 1.5) for t, x in chart["svs"]])
        elif edit == "append":  # append gives a new list, which is assigned
            m.hits = m.hits.append(QuaHit(offset=777.25, column=0, keysounds=[]))
            m.holds = m.holds.append(QuaHold(offset=-12.5, column=1, length=40.25, keysounds=["b c.ogg"]))
            m.bpms = m.bpms.append(QuaBpm(offset=5000.5, bpm=222.5))
            m.svs = m.svs.append(QuaSv(offset=-3.5, multiplier=0.75))
            want.update(hits=want["hits"] + [(0, 777.25, [])], holds=want["holds"] + [(1, -12.5, 40.25, ["b c.ogg"])], bpms=want["bpms"] + [(5000.5, 222.5)], svs=want["svs"] + [(-3.5, 0.75)])
        elif edit == "new_lists":
            m.hits = QuaHitList([QuaHit(offset=10.5, column=2, keysounds=[]), QuaHit(offset=2000, column=0, keysounds=["a.wav"])])
            m.holds = QuaHoldList([QuaHold(offset=300, column=1, length=0.5, keysounds=[])])
            m.bpms = QuaBpmList([QuaBpm(offset=-20, bpm=90.5)])
            m.svs = QuaSvList([])
            want.update(hits=[(2, 10.5, []), (0, 2000.0, ["a.wav"])], holds=[(1, 300.0, 0.5, [])], bpms=[(-20.0, 90.5)], svs=[])
        elif edit == "meta":
            m.title, m.tags, m.song_preview_time = "changed: title #2", ["x", "y:z"], 4321
            m.has_scratch_key = not bool(chart["meta"].get("HasScratchKey"))
            m.mode = "Keys4" if chart["meta"].get("Mode") == "Keys7" else "Keys7"
            want["meta"].update(Title="changed: title #2", Tags="x y:z", SongPreviewTime=4321, HasScratchKey=not bool(chart["meta"].get("HasScratchKey")),
                                Mode="Keys4" if chart["meta"].get("Mode") == "Keys7" else "Keys7")
        elif edit == "rate":
            return m.rate(2.0), None
    except Exception as ex:  # (also a ValueError out of pandas: the edit step raised, not the writer)
        raise _EditStepError(_exc(ex)) from ex
    return m, want


def _origin_class(case):
    o = case["origin"]
    return "native" if o in ("lists", "doc", "qua") else f"converted[{o}]"


def _finite_chart(ch):
    ts = [t for _, t, _ in ch["hits"]] + [x for _, t, d, _ in ch["holds"] for x in (t, d)] + [x for t, b in ch["bpms"] + ch["svs"] for x in (t, b)]
    return all(math.isfinite(x) for x in ts)


# ----------------------------------------------------------------------------- (b) write vs denotation, (c) read after write


def run_write_case(case):
    """-> ([(what, detail)], info)   info: dict(built=bool, skipped=reason|None, objects=int)"""
    from reamber.quaver.QuaMap import QuaMap

    oc = _origin_class(case)
    try:
        with _quiet():
            charts = build_charts(case)
    except Exception as ex:  # the SOURCE could not be built / read / converted: not an observation of QuaMap.write
        return [], dict(built=False, skipped=_exc(ex), objects=0)
    out, nobj, isv, edits = [], 0, 0, {}
    for i, m in enumerate(charts):
        tag = f" (chart {i})" if len(charts) > 1 else ""
        try:
            chart = chart_of(m)
        except Exception as ex:
            return [], dict(built=False, skipped="chart_of: " + _exc(ex), objects=0)
        if not _finite_chart(chart):
            continue  # outside the property's domain (non-finite times in the source)
        nobj += len(chart["hits"]) + len(chart["holds"])
        wvia = case.get("wvia", "write")
        wtag = tag + ("" if wvia == "write" else f" (written via {wvia})")
        try:
            with _quiet():
                text = _write_via(m, wvia)
        except Exception as ex:
            out.append((f"{oc}.write.succeeds", _exc(ex) + wtag))
            continue
        try:
            raw = _yaml_load(text)
            if not isinstance(raw, dict):
                raise DenError(f"top level is {type(raw).__name__}")
        except Exception as ex:
            out.append((f"{oc}.write.loads_as_mapping", _exc(ex) + wtag + "\n" + text[:400]))
            continue
        for a, d in wf_qua(raw):
            out.append((f"{oc}.write.{a}", d + wtag))
        isv += int("InitialScrollVelocity" in raw and not _is_num(raw["InitialScrollVelocity"]))
        try:
            den = den_qua(raw)
            for a, d in compare_charts(chart, den, 1.0):
                out.append((f"{oc}.write.same_{a}", d + wtag))
        except DenError as ex:
            out.append((f"{oc}.write.value_types", "no denotation: " + str(ex) + wtag))
        # the SAME chart object written a second time: that document, too, denotes the chart as it was handed over
        try:
            with _quiet():
                text_again = m.write()
            if text_again != text:
                raw2 = _yaml_load(text_again)
                if not isinstance(raw2, dict):
                    raise DenError(f"top level is {type(raw2).__name__}")
                for a, d in wf_qua(raw2):
                    out.append((f"{oc}.write_again.{a}", d + tag))
                for a, d in compare_charts(chart, den_qua(raw2), 1.0):
                    out.append((f"{oc}.write_again.same_{a}", d + tag))
        except Exception as ex:
            out.append((f"{oc}.write_again.succeeds", _exc(ex) + tag))
        # (c) read after write: the chart read back is the chart written, < 1 ms
        try:
            with _quiet():
                back = chart_of(_read_via(text, case.get("rvia", "str"))[-1])
        except Exception as ex:
            out.append((f"{oc}.read_after_write.accepts", _exc(ex) + wtag))
            continue
        for a, d in compare_charts(chart, back, 1.0):
            out.append((f"{oc}.read_after_write.{a}", d + wtag))
        # call - legitimate change - call again: the document written AFTER a public edit denotes the chart as it is now
        if case.get("edit"):
            etag = f" (written again after the edit {case['edit']})" + tag
            try:
                with _quiet():
                    m3, want = _apply_edit(m, case["edit"], chart)
                    now = chart_of(m3)
            except _EditStepError as ex:
                edits["edit_step_raised"] = edits.get("edit_step_raised", 0) + 1
                continue
            if want is None:
                want = now
            elif compare_charts(want, now, 1e-9) or compare_charts(now, want, 1e-9):
                edits["edit_result_not_as_described"] = edits.get("edit_result_not_as_described", 0) + 1  # a matter of the list / stack operations, not of the writer
                continue
            if not _finite_chart(want):
                continue
            edits["judged"] = edits.get("judged", 0) + 1
            try:
                with _quiet():
                    text3 = m3.write()
            except Exception as ex:
                out.append((f"{oc}.write_after_edit.succeeds", _exc(ex) + etag))
                continue
            try:
                raw3 = _yaml_load(text3)
                if not isinstance(raw3, dict):
                    raise DenError(f"top level is {type(raw3).__name__}")
                den3 = den_qua(raw3)
            except Exception as ex:
                out.append((f"{oc}.write_after_edit.loads_as_mapping", _exc(ex) + etag + "\n" + text3[:400]))
                continue
            for a, d in wf_qua(raw3):
                out.append((f"{oc}.write_after_edit.{a}", d + etag))
            for a, d in compare_charts(want, den3, 1.0):
                out.append((f"{oc}.write_after_edit.same_{a}", d + etag))
    # one detail per clause is enough
    seen, uniq = set(), []
    for w, d in out:
        if w not in seen:
            seen.add(w)
            uniq.append((w, d))
    return uniq, dict(built=True, skipped=None, objects=nobj, isv_not_number=isv, edits=edits)


@bounded("C06", note="in-memory Quaver charts, native (read from generated documents, built from item lists, .qua fixtures) AND produced by OsuToQua / SMToQua / BMSToQua / O2JToQua -> REAL QuaMap.write -> den_qua: only the format's keys and value types, no non-finite number, same chart < 1 ms; then REAL QuaMap.read of the written text gives the chart back")
def qua_write_vs_denotation(rep):
    rng = rep.rng
    N = rep.n(40, 500)  # per origin
    lim, nfiles = rep.n(120, 0), rep.n(1, 99)
    rep.bound = (f"per origin {N} generated charts (origins: Quaver item lists, generated documents read back, osu, sm, bms, o2j; keys 4/7; 0..4 hits, 0..3 holds incl. hits only / holds only / empty, 1 in 7 with 8..24 hits and 5..11 holds; 0..3 timing points, 0..3 SVs; times from a grid with fractional, x.5 / x.999 on both sides of 0, negative, 1e9 and > 6-digit values; hold lengths incl. 0; "
                 "native item lists with python numbers, all-int columns or numpy scalars; 40% of the charts after public list operations on each of hits / holds / timing points / SVs (sorted, sorted descending, reversed, first row dropped, mask filters: permuted / reversed / offset / gappy row labels); "
                 f"35% written through write_file instead of write() (str path / Path; onto a path that holds a longer / a shorter old text, the export of another chart, an earlier export of the same chart), every chart written a second time, "
                 f"50% changed after the first write through public operations and written a THIRD time ({', '.join(EDITS)}: offsets +1000 through the list properties / the stack, rate(2), columns +1 through the properties / the stack, "
                 "an item appended to each list and the new lists assigned, four new lists assigned, bpm and multiplier *= 1.5, title / tags / preview time / scratch key / mode assigned), "
                 "native item lists in 1 of 5 charts with tempo 0.001 .. 1e6 and multipliers +-1000 / 0.0001, times beyond +-2^31 ms; "
                 f"30% read back through another entry point than read(str) (incl. a path that held another document before); metadata from the YAML-hostile pool) + fixtures under rsc/maps ({'first ' + str(lim) + ' objects of the smallest file' if lim else 'all files, whole charts'} per format)")
    rep.bound += ("; (14) feature all_fields_distinct: every one of the 21 metadata keys present with a non-default value different from every sibling of its type (both booleans false, the three list keys non-empty and different), every object with key sounds of its own; "
                  "(16) markers of the format (Keys4 / Keys7 / Keys8, HitObjects, 'StartTime: 5', [], {}, -1, 0 ...) as ordinary text values in the hostile pool; (17) feature kind_order: one record of one kind (hit, hold, timing point, SV) moved strictly before / exactly onto the earliest, "
                  "or after / onto the latest record of ALL kinds; in-memory charts: 20% all fields distinct, 30% such a move (case['dims'])")
    rep.rule = ("a case is one source chart description (rebuilt through the real constructors / converters, then the case's list operations); the chart compared is the one handed to the writer, snapshot before the first write; after an edit, the chart computed from that snapshot and the DESCRIPTION of the edit (for rate(): the public attributes of the chart it returns) - "
                "clauses <origin>.write_after_edit.*; an edit whose own step raises or does not do what its description says is counted, not judged; non-trivial when the written chart has at least one object")
    plan = []
    for o in ("qua", "osu", "sm", "bms", "o2j"):
        plan += fixture_cases(o, lim)
    # LONG lists with ties, a fixed family ahead of the random charts: every length of LONG_N as native item lists and as a document read back
    # (thorough: x 6), half as many converted from osu!
    n_ties = 0
    for rnd in range(rep.n(1, 6)):
        for j, n_long in enumerate(LONG_N):
            plan.append(gen_chart_case(rng, "lists", long_ties=True, n_long=n_long))
            text, dims = long_ties_doc(rng, n_long)
            c = dict(origin="doc", text=text, via=rng.choice(["str", "str", "lines_splitlines", "file"]), dims=dims)
            if rng.random() < 0.4:
                c["post"] = {k: rng.choice(POST_OPS) for k in ("hits", "holds", "bpms", "svs")}
            if rng.random() < 0.5:
                c["edit"] = rng.choice(EDITS)
            plan.append(c)
            if j % 2 == 0:
                plan.append(gen_chart_case(rng, "osu", long_ties=True, n_long=n_long))
            n_ties += 2 + (j % 2 == 0)
    rep.bound += (f"; LONG lists with ties: {n_ties} charts ahead of the random ones (native item lists, generated documents read back, half as many converted from osu!) + 8% of the random native / osu! charts whose scroll velocities and / or timing points "
                  f"(osu!: scroll velocities) are lists of {LONG_N} or more records on a time raster with 1..4 records per StartTime of pairwise different values (the 'teleport' idiom), rows in time order / descending / shuffled: "
                  "the record listed LAST at a time is the one in force - aspects timing_points_in_force_at_equal_times, svs_in_force_at_equal_times of every write / read-after-write clause family")
    for i in range(N):
        for o in ("lists", "doc", "osu", "sm", "bms", "o2j"):
            plan.append(o)
    skipped, per, fx_done, isv, edit_counts = {}, {}, {}, 0, {}
    safe = sorted(SAFE_FOR_NATIVE)
    for p in plan:
        if rep.out_of_time(45, 330):
            break
        if isinstance(p, dict) and "file" not in p:
            case = p  # (a generated case of the fixed families)
        elif isinstance(p, dict):
            if fx_done.get(p["origin"], 0) >= nfiles:  # quick: the smallest fixture of each format that can be read
                continue
            case = p
        elif p == "doc":
            c, text, _ = _doc_case(rng, rng.choice(safe))
            case = dict(c, origin="doc")
            if rng.random() < 0.4:
                case["post"] = {k: rng.choice(POST_OPS) for k in ("hits", "holds", "bpms", "svs")}
            if rng.random() < 0.5:
                case["edit"] = rng.choice(EDITS)
        else:
            case = gen_chart_case(rng, p)
        failed, info = run_write_case(case)
        for k, v in (info.get("edits") or {}).items():
            edit_counts[k] = edit_counts.get(k, 0) + v
        key = _origin_class(case) + (":fixture" if "file" in case else "")
        if not info["built"]:
            skipped[case.get("file", case["origin"])] = info["skipped"]
            continue
        per[key] = per.get(key, 0) + 1
        isv += info.get("isv_not_number", 0)
        if "file" in case:
            fx_done[case["origin"]] = fx_done.get(case["origin"], 0) + 1
        rep.case(case, nontrivial=info["objects"] > 0)
        for what, d in failed:
            rep.fail(what, case, d)
    rep.extra["charts_per_origin"] = per
    rep.extra["charts written again after a public edit (judged) / edit step raised or did not do what its description says (not judged: not an observation of the writer)"] = edit_counts
    rep.extra["not asserted - written documents whose InitialScrollVelocity is not a number (the never-set field default '' is written as a string; A5 only calls the key a scalar)"] = isv
    rep.extra["sources_not_buildable (not an observation of C06)"] = skipped


@replayer("qua_write_vs_denotation")
def _replay_write(case, what):
    failed, info = run_write_case(case)
    if not info["built"]:
        return (False, "source chart could not be built: " + str(info["skipped"]))
    hit = [d for w, d in failed if w == what]
    return (bool(hit), hit[0] if hit else "passes")


# ----------------------------------------------------------------------------- (c) write after read


def run_war_case(case):
    """text -> read -> write -> den  vs  den(text), < 1 ms; the re-written text is well-formed.  The chart is
    written TWICE (second time always through write()): both documents must denote the original text."""
    f = case["feature"]
    if "file" in case:
        with open(os.path.join(REPO, case["file"]), encoding="utf-8") as fh:
            text = fh.read()
    else:
        text = case["text"]
    via, wvia = case.get("via", "str"), case.get("wvia", "write")
    src = _yaml_load(text)
    want = den_qua(src)
    extra_top, extra_rec = extras_of(src)
    try:
        with _quiet():
            m = _read_via(text, via)[-1]
    except Exception:
        return []  # reported by read.accepts[...]
    out, seen = [], set()
    for nth, how in enumerate((wvia, "write")):
        tag = f"(read via {via}, written via {how}" + (", SECOND writing of the same chart object) " if nth else ") ")
        tag = "" if (via, how, nth) == ("str", "write", 0) else tag
        try:
            with _quiet():
                text2 = _write_via(m, how)
        except Exception as ex:
            found = [("succeeds", _exc(ex))]
        else:
            try:
                raw = _yaml_load(text2)
                got = den_qua(raw)
            except Exception as ex:
                found = [("loads_as_mapping", _exc(ex) + "\n" + text2[:300])]
            else:
                found = wf_qua(raw, extra_top, extra_rec) + compare_charts(want, got, 1.0)
                d = sv_default_clause(want, got, 1.0)
                if d:
                    found.append(("sv_default_multiplier", d))
        for a, d in found:
            if a not in seen:
                seen.add(a)
                out.append((f"write_after_read.{a}[{f}]", tag + d))
    return out


@bounded("C06", note="write after read: .qua text -> REAL read -> REAL write -> den_qua equals den_qua of the original text with times moved < 1 ms, and the re-written text has only the format's keys / types")
def qua_write_after_read(rep):
    rng = rep.rng
    N = rep.n(200, 3000)
    files = sorted(glob.glob(os.path.join(REPO, _FIXTURES["qua"])), key=os.path.getsize)[: rep.n(1, 9)]
    rep.bound = (f"{N} generated documents (same generator as qua_read_vs_denotation: every single feature x seeds + mixtures, 40% in another text form, 40% read through another entry point, 40% written through write_file) + {len(files)} .qua fixture(s) under rsc/maps/qua; "
                 "every chart is written twice and both documents are compared with the source text")
    rep.bound += ("; (14) feature all_fields_distinct: every one of the 21 metadata keys present with a non-default value different from every sibling of its type (both booleans false, the three list keys non-empty and different), every object with key sounds of its own; "
                  "(16) markers of the format (Keys4 / Keys7 / Keys8, HitObjects, 'StartTime: 5', [], {}, -1, 0 ...) as ordinary text values in the hostile pool; (17) feature kind_order: one record of one kind (hit, hold, timing point, SV) moved strictly before / exactly onto the earliest, "
                  "or after / onto the latest record of ALL kinds; in-memory charts: 20% all fields distinct, 30% such a move (case['dims'])")
    rep.rule = ("a case is one document text + read / write entry points; non-trivial when it has at least one object or timing record; documents REAL read rejects are counted under read.accepts of qua_read_vs_denotation, not here; "
                "keys outside the format that the source document carried itself may be written back or dropped, but never as a non-finite number")
    singles = [f for f in FEATURES if f not in ("lane", "mixed")]
    per = max(3, (2 * N // 3) // len(singles))
    plan = [f for _ in range(per) for f in singles]  # round-robin: a run cut short by the time budget still meets every feature
    plan += ["mixed"] * max(0, N - len(plan))
    for f in files:
        if rep.out_of_time(40, 300):
            break
        case = dict(feature="fixture", file=os.path.relpath(f, REPO))
        rep.case(case, nontrivial=True)
        for what, d in run_war_case(case):
            rep.fail(what, case, d)
    n_ties = rep.n(6, 36)
    rep.bound += f"; LONG lists with ties: {n_ties} plain documents whose TimingPoints / SliderVelocities hold {LONG_N} or more records with 1..4 records of different values per StartTime (feature long_ties; the record listed last at a time is the one in force)"
    for j in range(n_ties):
        if rep.out_of_time(40, 300):
            break
        text, dims = long_ties_doc(rng, LONG_N[j % len(LONG_N)])
        case = dict(feature="long_ties", text=text, dims=dims)
        if rng.random() < 0.4:
            case["wvia"] = rng.choice(WRITE_VIAS[1:])
        rep.case(case, nontrivial=True)
        for what, d in run_war_case(case):
            rep.fail(what, case, d)
    for f in plan:
        if rep.out_of_time(40, 300):
            break
        case, text, want = _doc_case(rng, f)
        rep.case(case, nontrivial=bool(want["hits"] or want["holds"] or want["bpms"] or want["svs"]))
        for what, d in run_war_case(case):
            rep.fail(what, case, d)


@replayer("qua_write_after_read")
def _replay_war(case, what):
    hit = [d for w, d in run_war_case(case) if w == what]
    return (bool(hit), hit[0] if hit else "passes")
