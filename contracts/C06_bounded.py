"""C06 - Quaver .qua file <-> in-memory chart: bounded stand-ins (REAL QuaMap.read / QuaMap.write vs an
independent denotation of the format).

Oracle (A5, "Quaver .qua", written from the format description, not from reamber's code):
  a .qua document is a YAML mapping; scalar keys AudioFile ... HasScratchKey, list keys EditorLayers,
  CustomAudioSamples, SoundEffects, and the three sections
      TimingPoints:     [{StartTime, Bpm}]
      SliderVelocities: [{StartTime, Multiplier}]
      HitObjects:       [{StartTime, Lane (1-based), EndTime?, KeySounds: [...]}]
  an object with EndTime is a hold of length EndTime - StartTime; omitted StartTime is 0; omitted KeySounds
  is [].  The value of an omitted Bpm / Multiplier is NOT fixed by the format text and is never asserted.
  A written document may contain no other keys and no non-finite numbers.

Clause ids (`what`)
  read.<aspect>[<feature>]            aspect: accepts, hits, holds, keysounds, timing_points, svs, metadata
                                      feature: the ONE thing that distinguishes the document from the plain
                                      base document (fixed vocabulary, see FEATURES), or "mixed"
  <origin>.write.<aspect>             origin: native | converted[osu|sm|bms|o2j]
                                      aspect: succeeds, loads_as_mapping, keys_allowed, value_types,
                                      no_nonfinite, same_hits, same_holds, same_keysounds,
                                      same_timing_points, same_svs, same_metadata
  <origin>.read_after_write.<aspect>  aspect: accepts, hits, holds, keysounds, timing_points, svs, metadata
  write_after_read.<aspect>[<feature>]
Converted charts are clauses of their own, so the native clauses are exercised independently.
"""
from __future__ import annotations

import contextlib
import glob
import json
import logging
import math
import os
import warnings
from fractions import Fraction

from pyvc.dsl import bounded
from pyvc.bounded import replayer

REPO = os.environ.get("VERIF_REPO", "/repo")

# ----------------------------------------------------------------------------- the format (A5)

TEXT_KEYS = ["AudioFile", "BackgroundFile", "BannerFile", "Mode", "Title", "Artist", "Source", "Tags", "Creator", "DifficultyName", "Description", "Genre"]
INT_KEYS = ["SongPreviewTime", "MapId", "MapSetId"]
BOOL_KEYS = ["BPMDoesNotAffectScrollVelocity", "HasScratchKey"]
NUM_KEYS = ["InitialScrollVelocity"]
LIST_KEYS = ["EditorLayers", "CustomAudioSamples", "SoundEffects"]
META_KEYS = TEXT_KEYS + INT_KEYS + BOOL_KEYS + NUM_KEYS + LIST_KEYS
SECTIONS = dict(
    TimingPoints={"StartTime", "Bpm"},
    SliderVelocities={"StartTime", "Multiplier"},
    HitObjects={"StartTime", "Lane", "EndTime", "KeySounds"},
)
ALLOWED_TOP = set(META_KEYS) | set(SECTIONS)

# in-memory attribute of every metadata key (the public dataclass fields of QuaMap)
ATTR = dict(
    AudioFile="audio_file", SongPreviewTime="song_preview_time", BackgroundFile="background_file", BannerFile="banner_file",
    MapId="map_id", MapSetId="map_set_id", Mode="mode", Title="title", Artist="artist", Source="source", Tags="tags",
    Creator="creator", DifficultyName="difficulty_name", Description="description", Genre="genre",
    BPMDoesNotAffectScrollVelocity="bpm_does_not_affect_scroll_velocity", InitialScrollVelocity="initial_scroll_velocity",
    HasScratchKey="has_scratch_key", EditorLayers="editor_layers", CustomAudioSamples="custom_audio_samples", SoundEffects="sound_effects",
)


class DenError(Exception):
    """The text is not a .qua document at all (no denotation)."""


def _yaml_load(text):
    import yaml

    if len(text) > 40000 and hasattr(yaml, "CSafeLoader"):
        return yaml.load(text, Loader=yaml.CSafeLoader)  # same schema as safe_load, only faster on big fixtures
    return yaml.safe_load(text)


def _is_num(v):
    return isinstance(v, (int, float)) and not isinstance(v, bool)


def _frac(v):
    if isinstance(v, float) and not math.isfinite(v):
        return v
    return Fraction(v)


def den_qua(text):
    """Denotation of a .qua text: dict(hits=[(col, t, keysounds)], holds=[(col, t, length, keysounds)],
    bpms=[(t, bpm | None)], svs=[(t, mult | None)], meta={key: value}).  None = value not fixed by the format."""
    raw = text if isinstance(text, dict) else _yaml_load(text)
    if not isinstance(raw, dict):
        raise DenError(f"top level is {type(raw).__name__}, not a mapping")

    def records(key):
        v = raw.get(key)
        if v is None:
            return []
        if not isinstance(v, list) or not all(isinstance(r, dict) for r in v):
            raise DenError(f"{key} is not a list of mappings")
        return v

    def num(rec, key, default):
        v = rec.get(key, default)
        if v is not None and not _is_num(v):
            raise DenError(f"{key}: {v!r} is not a number")
        return v

    hits, holds = [], []
    for o in records("HitObjects"):
        t = num(o, "StartTime", 0)
        lane = o.get("Lane")
        if not _is_num(lane):
            raise DenError(f"Lane: {lane!r}")
        ks = o.get("KeySounds", [])
        if "EndTime" in o:
            e = num(o, "EndTime", 0)
            d = _frac(e) - _frac(t)
            holds.append((int(lane) - 1, float(t), float(d), ks))
        else:
            hits.append((int(lane) - 1, float(t), ks))
    bpms = [(float(num(r, "StartTime", 0)), num(r, "Bpm", None)) for r in records("TimingPoints")]
    svs = [(float(num(r, "StartTime", 0)), num(r, "Multiplier", None)) for r in records("SliderVelocities")]
    meta = {k: v for k, v in raw.items() if k not in SECTIONS}
    return dict(hits=hits, holds=holds, bpms=bpms, svs=svs, meta=meta)


def _nonfinite_paths(v, path=""):
    if isinstance(v, float) and not math.isfinite(v):
        yield f"{path} = {v!r}"
    elif isinstance(v, dict):
        for k, x in v.items():
            yield from _nonfinite_paths(x, f"{path}.{k}")
    elif isinstance(v, list):
        for i, x in enumerate(v):
            yield from _nonfinite_paths(x, f"{path}[{i}]")


def wf_qua(raw):
    """Well-formedness of a WRITTEN document: [(aspect, detail)] for keys_allowed / value_types / no_nonfinite."""
    out = []
    if not isinstance(raw, dict):
        return [("loads_as_mapping", f"top level is {type(raw).__name__}")]
    extra = [k for k in raw if k not in ALLOWED_TOP]
    if extra:
        out.append(("keys_allowed", f"top-level keys outside the format: {extra[:5]}"))
    for sec, allowed in SECTIONS.items():
        v = raw.get(sec)
        if v is None and sec not in raw:
            continue
        if not isinstance(v, list) or not all(isinstance(r, dict) for r in v):
            out.append(("value_types", f"{sec} is not a list of mappings: {str(v)[:80]}"))
            continue
        for i, r in enumerate(v):
            bad = [k for k in r if k not in allowed]
            if bad:
                out.append(("keys_allowed", f"{sec}[{i}] has keys outside the format: {bad} (record {r})"))
                break
        for i, r in enumerate(v):
            bad = []
            for k in ("StartTime", "EndTime", "Bpm", "Multiplier"):
                if k in r and k in allowed and not _is_num(r[k]):
                    bad.append(f"{k}: {r[k]!r}")
            if "Lane" in r and sec == "HitObjects" and not (isinstance(r["Lane"], int) and not isinstance(r["Lane"], bool) and r["Lane"] >= 1):
                bad.append(f"Lane: {r['Lane']!r}")
            if "KeySounds" in r and sec == "HitObjects" and not isinstance(r["KeySounds"], list):
                bad.append(f"KeySounds: {r['KeySounds']!r} is not a list")
            if bad:
                out.append(("value_types", f"{sec}[{i}]: " + "; ".join(bad)))
                break
    bad = []
    for k in TEXT_KEYS:
        if k in raw and not isinstance(raw[k], str):
            bad.append(f"{k}: {raw[k]!r} is not text")
    for k in INT_KEYS:
        if k in raw and not _is_num(raw[k]):
            bad.append(f"{k}: {raw[k]!r} is not a number")
    for k in BOOL_KEYS:
        if k in raw and not isinstance(raw[k], bool):
            bad.append(f"{k}: {raw[k]!r} is not a boolean")
    for k in LIST_KEYS:
        if k in raw and not isinstance(raw[k], list):
            bad.append(f"{k}: {raw[k]!r} is not a list")
    for k in NUM_KEYS:  # A5 only says "scalar": a list / mapping is rejected, the scalar's type is not asserted
        if k in raw and isinstance(raw[k], (list, dict)):
            bad.append(f"{k}: {raw[k]!r} is not a scalar")
    if bad:
        out.append(("value_types", "; ".join(bad[:4])))
    nf = list(_nonfinite_paths(raw))
    if nf:
        out.append(("no_nonfinite", f"{len(nf)} non-finite numbers, first: {nf[0]}"))
    return out


# ----------------------------------------------------------------------------- chart comparison


def _ks_norm(v):
    """keysounds as a comparable value; a non-list (e.g. NaN) is one 'invalid' token on either side, so
    that the type clause - not the sameness clause - reports it."""
    if isinstance(v, (list, tuple)):
        return json.dumps(list(v), sort_keys=True, default=repr)
    return "<not-a-list>"


def chart_of(m):
    """The chart an in-memory QuaMap denotes (public attributes only)."""
    def col(lst, name):
        return lst.df[name].tolist()

    hits = [(int(c), float(t), k) for c, t, k in zip(col(m.hits, "column"), col(m.hits, "offset"), col(m.hits, "keysounds"))]
    holds = [(int(c), float(t), float(d), k) for c, t, d, k in zip(col(m.holds, "column"), col(m.holds, "offset"), col(m.holds, "length"), col(m.holds, "keysounds"))]
    bpms = [(float(t), float(b)) for t, b in zip(col(m.bpms, "offset"), col(m.bpms, "bpm"))]
    svs = [(float(t), float(x)) for t, x in zip(col(m.svs, "offset"), col(m.svs, "multiplier"))]
    meta = {}
    for k, a in ATTR.items():
        v = getattr(m, a)
        meta[k] = " ".join(v) if k == "Tags" and isinstance(v, (list, tuple)) else v
    return dict(hits=hits, holds=holds, bpms=bpms, svs=svs, meta=meta)


def _match(A, B, compat):
    """Perfect matching between two small/medium lists under `compat`; returns (ok, detail).  Items are
    tuples whose element [1] is the sort / window time."""
    if len(A) != len(B):
        return False, f"{len(A)} items vs {len(B)}"
    sa, sb = sorted(A, key=lambda x: (x[0], x[1])), sorted(B, key=lambda x: (x[0], x[1]))
    if all(compat(a, b) for a, b in zip(sa, sb)):
        return True, ""
    # Kuhn's augmenting paths, candidates restricted to the same key and a 1 ms window
    import bisect

    keys = [(b[0], b[1]) for b in sb]
    cand = []
    for a in sa:
        lo = bisect.bisect_left(keys, (a[0], a[1] - 1.5))
        hi = bisect.bisect_right(keys, (a[0], a[1] + 1.5))
        cand.append([j for j in range(lo, hi) if compat(a, sb[j])])
    owner = {}

    def augment(i, seen):
        for j in cand[i]:
            if j in seen:
                continue
            seen.add(j)
            if j not in owner or augment(owner[j], seen):
                owner[j] = i
                return True
        return False

    for i, a in enumerate(sa):
        if not augment(i, set()):
            near = [sb[j] for j in range(max(0, bisect.bisect_left(keys, (a[0], a[1])) - 1), min(len(sb), bisect.bisect_left(keys, (a[0], a[1])) + 2))]
            return False, f"no partner for {a}; nearest on the other side: {near}"
    return True, ""


def _veq(a, b):
    if a is None or b is None:  # value not fixed by the format
        return True
    if isinstance(a, float) and isinstance(b, float) and math.isnan(a) and math.isnan(b):
        return True
    try:
        return math.isclose(float(a), float(b), rel_tol=1e-12, abs_tol=0.0) or float(a) == float(b)
    except (TypeError, ValueError):
        return a == b


def compare_charts(want, got, tol):
    """[(aspect, detail)] where the two denotations differ.  Times may differ by less than `tol` ms
    (tol = 1 for anything that went through write; 1e-6 for read)."""
    out = []

    def lt(x, y):
        return abs(x - y) < tol

    ok, d = _match([(c, t) for c, t, _ in want["hits"]], [(c, t) for c, t, _ in got["hits"]], lambda a, b: a[0] == b[0] and lt(a[1], b[1]))
    if not ok:
        out.append(("hits", d))
    # a hold's two times are its start and its end (start + length): both may move by less than tol
    ok, d = _match(
        [(c, t, t + ln) for c, t, ln, _ in want["holds"]], [(c, t, t + ln) for c, t, ln, _ in got["holds"]],
        lambda a, b: a[0] == b[0] and lt(a[1], b[1]) and lt(a[2], b[2]),
    )
    if not ok:
        out.append(("holds", "(column, start, end): " + d))
    wk = [(c, t, _ks_norm(k)) for c, t, k in want["hits"]] + [(c, t, _ks_norm(k)) for c, t, _, k in want["holds"]]
    gk = [(c, t, _ks_norm(k)) for c, t, k in got["hits"]] + [(c, t, _ks_norm(k)) for c, t, _, k in got["holds"]]
    ok, d = _match(wk, gk, lambda a, b: a[0] == b[0] and lt(a[1], b[1]) and a[2] == b[2])
    if not ok and not any(a in ("hits", "holds") for a, _ in out):
        out.append(("keysounds", "(column, time, keysounds): " + d))
    ok, d = _match([(0, t, b) for t, b in want["bpms"]], [(0, t, b) for t, b in got["bpms"]], lambda a, b: lt(a[1], b[1]) and _veq(a[2], b[2]))
    if not ok:
        out.append(("timing_points", "(time, bpm): " + d))
    ok, d = _match([(0, t, b) for t, b in want["svs"]], [(0, t, b) for t, b in got["svs"]], lambda a, b: lt(a[1], b[1]) and _veq(a[2], b[2]))
    if not ok:
        out.append(("svs", "(time, multiplier): " + d))
    bad = []
    for k, v in want["meta"].items():
        if k not in ATTR:
            continue
        if k not in got["meta"]:
            if isinstance(v, (str, list)) and len(v) > 0:  # a writer may omit a key that has its default; a non-empty text / list is never a default
                bad.append(f"{k}: missing, want {v!r}")
            continue
        g = got["meta"][k]
        if k == "Tags":
            v = " ".join(str(v).split(" ")) if isinstance(v, str) else v
            same = (isinstance(g, str) and isinstance(v, str) and [x for x in g.split(" ") if x] == [x for x in v.split(" ") if x]) or g == v
        elif _is_num(v) and _is_num(g):
            same = _veq(v, g)
        else:
            same = type(g) is type(v) and g == v
        if not same:
            bad.append(f"{k}: got {g!r} want {v!r}")
    if bad:
        out.append(("metadata", "; ".join(bad[:4])))
    return out


# ----------------------------------------------------------------------------- document generator (own emitter)

HOSTILE = [
    "a: b", "key: value: more", "# not a comment", "x #y", "x#y", "'single'", "it's", '"double"', 'say "hi"', "- dash", "-dash", "-",
    "日本語のタイトル", "Ünïcödé ♥", "emoji 🎵 song", "{brace}", "[bracket]", "*star", "&anchor", "!tag", "%percent", "@at", "`tick`",
    "yes", "no", "null", "~", "true", "123", "1.5", "1e3", " leading space", "trailing space ", "", "multi\nline", "tab\there",
    "back\\slash", "? question", "| pipe", "> gt", "=", "a, b", "c:\\path\\file.mp3", "Re:Zero", "50% off: now", "...", "---",
]
HOSTILE_TAGS = ["a:b", "#tag", "'q'", '"dq"', "-x", "日本語", "é", "123", "yes", "{x}", "x,y"]
BENIGN = ["song", "artist name", "Evening", "Hard", "audio.mp3", "bg.jpg", "banner.png", "some description", "genre"]

FEATURES = [
    "plain", "lane", "omit_start_time_one_hit", "omit_start_time_all_hits", "omit_start_time_one_hold", "omit_start_time_all_holds",
    "omit_keysounds_some", "omit_keysounds_all", "keysounds_nonempty", "omit_start_time_timing_point", "omit_start_time_all_timing_points",
    "omit_start_time_sv", "omit_start_time_all_svs", "omit_bpm", "omit_multiplier", "empty_hitobjects", "empty_timingpoints", "empty_svs",
    "all_sections_empty", "hits_only", "holds_only", "meta_hostile", "meta_omitted", "float_times", "negative_large_times",
    "flow_records", "key_order", "mixed",
]
# documents in which every key is present: the charts read from them are the "native, read from a document" charts
SAFE_FOR_NATIVE = {"plain", "lane", "keysounds_nonempty", "empty_hitobjects", "empty_timingpoints", "empty_svs", "all_sections_empty", "hits_only", "holds_only", "meta_hostile", "float_times", "negative_large_times", "flow_records", "key_order"}

KS_POOL = [[], [], ["a.wav"], ["a.wav", "b c.ogg"], [{"Sample": 1, "Volume": 50}], [{"Sample": 2, "Volume": 100}, {"Sample": 3, "Volume": 0}]]


def _emit_scalar(v, style):
    if isinstance(v, bool):
        return "true" if v else "false"
    if isinstance(v, int):
        return str(v)
    if isinstance(v, float):
        s = repr(v)
        assert "e" not in s and "." in s, s  # YAML 1.1 floats need the dot
        return s
    if isinstance(v, (list, dict)):
        return json.dumps(v, ensure_ascii=False)  # flow style; JSON is YAML
    assert isinstance(v, str)
    if style == "s" and not any(ord(ch) < 32 for ch in v):
        return "'" + v.replace("'", "''") + "'"
    if style == "p" and v and v == v.strip() and not any(ord(ch) < 32 for ch in v):
        return v  # plain: the generator self-check (den == intended) rejects it where YAML reads it differently
    return json.dumps(v, ensure_ascii=False)  # double-quoted; JSON escapes are YAML escapes


def emit_doc(spec):
    """spec: dict(top=[[key, value, style]...] in order, where a section value is [records, 'block'|'flow'] and
    each record is a list of [key, value] pairs in order)."""
    lines = []
    for key, value, style in spec["top"]:
        if key in SECTIONS:
            recs, rstyle = value
            if not recs:
                lines.append(f"{key}: []")
                continue
            lines.append(f"{key}:")
            for r in recs:
                if rstyle == "flow":
                    lines.append("- {" + ", ".join(f"{k}: {_emit_scalar(v, 'd')}" for k, v in r) + "}")
                else:
                    if not r:
                        lines.append("- {}")
                    for i, (k, v) in enumerate(r):
                        lines.append(("- " if i == 0 else "  ") + f"{k}: {_emit_scalar(v, 'd')}")
        else:
            lines.append(f"{key}: {_emit_scalar(value, style)}")
    return "\n".join(lines) + "\n"


def intended_of(spec):
    """The chart the generator MEANT (computed from the spec with the A5 defaults, without YAML)."""
    hits, holds, bpms, svs, meta = [], [], [], [], {}
    for key, value, _ in spec["top"]:
        if key == "HitObjects":
            for r in value[0]:
                d = dict(r)
                t = d.get("StartTime", 0)
                ks = d.get("KeySounds", [])
                if "EndTime" in d:
                    holds.append((d["Lane"] - 1, float(t), float(Fraction(d["EndTime"]) - Fraction(t)), ks))
                else:
                    hits.append((d["Lane"] - 1, float(t), ks))
        elif key == "TimingPoints":
            bpms = [(float(dict(r).get("StartTime", 0)), dict(r).get("Bpm")) for r in value[0]]
        elif key == "SliderVelocities":
            svs = [(float(dict(r).get("StartTime", 0)), dict(r).get("Multiplier")) for r in value[0]]
        else:
            meta[key] = value
    return dict(hits=hits, holds=holds, bpms=bpms, svs=svs, meta=meta)


def _time(rng, kind):
    if kind == "float":
        return rng.choice([0.5, 100.25, 1234.75, 99.999, 2500.001, 7.1])
    if kind == "neglarge":
        return rng.choice([-5000, -1, -250.5, 10**9, 10**9 + 0.5, 3600000])
    return rng.choice([0, 1, 100, 250, 1000, 1500, 123456])


def gen_spec(rng, feature, lane=None):
    """One document of the A5 grammar.  `feature` names the single deviation from the plain base document."""
    mixed = feature == "mixed"

    def on(f, p=0.35):
        return feature == f or (mixed and rng.random() < p)

    tk = "float" if on("float_times") else ("neglarge" if on("negative_large_times") else "int")
    n_hits, n_holds = rng.randrange(2, 5), rng.randrange(2, 4)
    if on("hits_only", 0.1):
        n_holds = 0
    elif on("holds_only", 0.1):
        n_hits = 0
    if on("empty_hitobjects", 0.1) or feature == "all_sections_empty":
        n_hits = n_holds = 0
    n_tp = 0 if (on("empty_timingpoints", 0.1) or feature == "all_sections_empty") else rng.randrange(1, 4)
    n_sv = 0 if (on("empty_svs", 0.2) or feature == "all_sections_empty") else rng.randrange(1, 4)

    ks_pool = KS_POOL if on("keysounds_nonempty", 0.5) else [[]]
    objs = []
    for i in range(n_hits + n_holds):
        t = _time(rng, tk)
        r = [["StartTime", t], ["Lane", lane if (lane and i == 0) else rng.randrange(1, 9)]]
        if i >= n_hits:
            r.append(["EndTime", t + rng.choice([1, 50, 500, 1000.5] if tk == "float" else [1, 50, 500, 100000])])
        r.append(["KeySounds", rng.choice(ks_pool)])
        objs.append(r)
    hit_ix, hold_ix = list(range(n_hits)), list(range(n_hits, n_hits + n_holds))

    def drop(recs, ixs, key):
        for i in ixs:
            recs[i] = [kv for kv in recs[i] if kv[0] != key]

    if hit_ix:
        if on("omit_start_time_one_hit", 0.2):
            drop(objs, [hit_ix[0]], "StartTime")
        if on("omit_start_time_all_hits", 0.1):
            drop(objs, hit_ix, "StartTime")
    if hold_ix:
        if on("omit_start_time_one_hold", 0.2):
            drop(objs, [hold_ix[0]], "StartTime")
        if on("omit_start_time_all_holds", 0.1):
            drop(objs, hold_ix, "StartTime")
    if objs:
        if on("omit_keysounds_some", 0.2):
            drop(objs, [i for i in range(len(objs)) if i % 2 == 0], "KeySounds")
        if on("omit_keysounds_all", 0.1):
            drop(objs, range(len(objs)), "KeySounds")
    rng.shuffle(objs)  # hits and holds interleaved in the document

    tps = [[["StartTime", _time(rng, tk)], ["Bpm", rng.choice([120.0, 177.5, 60, 200, 333.333])]] for _ in range(n_tp)]
    svs = [[["StartTime", _time(rng, tk)], ["Multiplier", rng.choice([1.0, 0.5, 2, 1.25, -1.0, 0.0, 10.0])]] for _ in range(n_sv)]
    if tps:
        if on("omit_start_time_timing_point", 0.2):
            drop(tps, [0], "StartTime")
        if on("omit_start_time_all_timing_points", 0.1):
            drop(tps, range(len(tps)), "StartTime")
        if on("omit_bpm", 0.1):
            drop(tps, [len(tps) - 1], "Bpm")
    if svs:
        if on("omit_start_time_sv", 0.2):
            drop(svs, [0], "StartTime")
        if on("omit_start_time_all_svs", 0.1):
            drop(svs, range(len(svs)), "StartTime")
        if on("omit_multiplier", 0.1):
            drop(svs, [len(svs) - 1], "Multiplier")

    hostile = on("meta_hostile", 0.6)

    def text():
        return rng.choice(HOSTILE) if hostile else rng.choice(BENIGN)

    def style():
        return rng.choice("pds") if hostile else rng.choice("pd")

    top = []
    for k in META_KEYS:
        if k == "Mode":
            v = rng.choice(["Keys4", "Keys7"])
        elif k == "Tags":
            v = " ".join(rng.sample(HOSTILE_TAGS, rng.randrange(0, 4))) if hostile else rng.choice(["", "a", "tag1 tag2"])
        elif k in TEXT_KEYS:
            v = text()
        elif k in INT_KEYS:
            v = rng.choice([-1, 0, 12345, 169955])
        elif k in BOOL_KEYS:
            v = rng.random() < 0.5
        elif k in NUM_KEYS:
            v = rng.choice([1.0, 0.5, 2.5])
        else:
            v = rng.choice([[], [], [{"Name": "Layer 1", "ColorRgb": "255,0,0"}], [{"Path": text(), "UnaffectedByRate": False}]])
        top.append([k, v, style()])
    if on("meta_omitted", 0.3):
        top = [e for e in top if rng.random() < 0.5]
    rs = "flow" if on("flow_records", 0.3) else "block"
    top += [["TimingPoints", [tps, rs], ""], ["SliderVelocities", [svs, rs], ""], ["HitObjects", [objs, rs], ""]]
    if on("key_order", 0.5):
        rng.shuffle(top)
        for _, value, _s in top:
            if isinstance(value, list) and len(value) == 2 and value[1] in ("flow", "block"):
                for r in value[0]:
                    rng.shuffle(r)
    return dict(top=top)


def _doc_case(rng, feature, lane=None):
    """(case, text, intended): the generator checks ITSELF first - its own emitter read through the oracle
    must give the chart it meant, otherwise the checker (not reamber) is wrong."""
    spec = gen_spec(rng, feature, lane)
    for e in spec["top"]:  # plain style only where YAML reads the bare text as that very string
        if isinstance(e[1], str) and e[2] == "p":
            try:
                ok = _yaml_load(f"k: {_emit_scalar(e[1], 'p')}\n") == {"k": e[1]}
            except Exception:
                ok = False
            if not ok:
                e[2] = "d"
    text = emit_doc(spec)
    want = intended_of(spec)
    got = den_qua(text)
    diff = compare_charts(want, got, 1e-9) or compare_charts(got, want, 1e-9)
    if diff or set(got["meta"]) != set(want["meta"]):
        raise AssertionError(f"generator/oracle disagreement on its own document:\n{text}\n{diff}")
    return dict(feature=feature, text=text), text, want


@contextlib.contextmanager
def _quiet():
    prev = logging.root.manager.disable
    logging.disable(logging.CRITICAL)
    try:
        with warnings.catch_warnings():
            warnings.simplefilter("ignore")
            yield
    finally:
        logging.disable(prev)


def _exc(ex):
    return f"{type(ex).__name__}: {str(ex)[:300]}"


# ----------------------------------------------------------------------------- (a) read vs denotation


def run_read_case(case):
    """-> [(what, detail)]"""
    from reamber.quaver.QuaMap import QuaMap

    f = case["feature"]
    text = case["text"]
    want = den_qua(text)
    try:
        with _quiet():
            m = QuaMap.read(text)
            got = chart_of(m)
    except Exception as ex:
        return [(f"read.accepts[{f}]", _exc(ex))]
    return [(f"read.{a}[{f}]", d) for a, d in compare_charts(want, got, 1e-6)]


@bounded("C06", note="generated .qua documents (A5 grammar, own emitter) -> REAL QuaMap.read vs the independent denotation den_qua: lanes 1..8, every optional key present/absent, empty sections, hits only, holds only, YAML-hostile metadata")
def qua_read_vs_denotation(rep):
    rng = rep.rng
    N = rep.n(300, 4000)
    rep.bound = f"{N} documents: lanes 1..8 enumerated, every single-feature document x seeds ({len(FEATURES) - 2} features), rest random feature mixtures; <= 4 hits, <= 3 holds, <= 3 timing points, <= 3 SVs per document; strings from a pool of {len(HOSTILE)} YAML-hostile texts in plain/single/double quoting"
    rep.rule = "a case is one document text; non-trivial when it has at least one object or timing record; each document is first read through the oracle and compared with the chart the generator meant (self-check)"
    plan = [("lane", l) for l in range(1, 9)]
    singles = [f for f in FEATURES if f not in ("lane", "mixed")]
    per = max(3, (2 * N // 3) // len(singles))
    plan += [(f, None) for f in singles for _ in range(per)]
    plan += [("mixed", None)] * max(0, N - len(plan))
    feats = {}
    for f, lane in plan:
        if rep.out_of_time(40, 300):
            break
        case, text, want = _doc_case(rng, f, lane)
        rep.case(case, nontrivial=bool(want["hits"] or want["holds"] or want["bpms"] or want["svs"]))
        feats[f] = feats.get(f, 0) + 1
        for what, d in run_read_case(case):
            rep.fail(what, case, d)
    rep.extra["documents_per_feature"] = feats


@replayer("qua_read_vs_denotation")
def _replay_read(case, what):
    hit = [d for w, d in run_read_case(case) if w == what]
    return (bool(hit), hit[0] if hit else "passes")


# ----------------------------------------------------------------------------- in-memory charts

_T_NATIVE = [0, 100, 100.7, 250.25, 999.999, -50.5, -1, 1000000000.5, 3600000, 0.4, -0.4]


def _gen_objects(rng, keys, n_hits, n_holds, with_ks):
    hits = [[rng.choice(_T_NATIVE), rng.randrange(keys), rng.choice(KS_POOL) if with_ks else []] for _ in range(n_hits)]
    holds = [[rng.choice(_T_NATIVE), rng.randrange(keys), rng.choice([0.2, 1, 50.5, 500, 99999.9]), rng.choice(KS_POOL) if with_ks else []] for _ in range(n_holds)]
    return hits, holds


def gen_chart_case(rng, origin):
    """JSON-able description of an in-memory source chart.  origin: lists (native Quaver lists) | osu | sm | bms | o2j."""
    keys = rng.choice([4, 7])
    # (BMSToQua derives the key count from the highest column, so an empty BMS chart cannot be converted at all)
    shape = rng.choice(["both", "both", "both", "hits_only", "holds_only"] + ([] if origin == "bms" else ["empty"]))
    n_hits = 0 if shape in ("holds_only", "empty") else rng.randrange(1, 5)
    n_holds = 0 if shape in ("hits_only", "empty") else rng.randrange(1, 4)
    hits, holds = _gen_objects(rng, keys, n_hits, n_holds, with_ks=(origin == "lists"))
    if origin == "bms" and (hits or holds):  # key count of a BMS chart = highest column + 1
        (hits or holds)[0][1] = keys - 1
    bpms = [[rng.choice([0, -100.5, 1000, 2500.75]), rng.choice([120, 177.5, 60.0, 333.333])] for _ in range(rng.randrange(0 if origin == "lists" else 1, 3))]
    svs = [[rng.choice(_T_NATIVE), rng.choice([1.0, 0.5, 2.0, 1.25, -1.0, 10.0])] for _ in range(rng.randrange(0, 3))] if origin in ("lists", "osu") else []
    hostile = rng.random() < 0.7
    pool = HOSTILE if hostile else BENIGN
    meta = dict(title=rng.choice(pool), artist=rng.choice(pool), creator=rng.choice(pool), version=rng.choice(pool), audio=rng.choice(pool), background=rng.choice(pool),
                tags=rng.sample(HOSTILE_TAGS, rng.randrange(0, 4)), preview=rng.choice([-1, 0, 12345]))
    if origin == "lists":
        meta.update(source=rng.choice(pool), description=rng.choice(pool), genre=rng.choice(pool), banner=rng.choice(pool), map_id=rng.choice([-1, 77]), isv=rng.choice([1.0, 2.5]),
                    scratch=rng.random() < 0.5, bpm_sv=rng.random() < 0.5, layers=rng.choice([[], [{"Name": "L: 1", "ColorRgb": "1,2,3"}]]))
    return dict(origin=origin, keys=keys, hits=hits, holds=holds, bpms=bpms, svs=svs, meta=meta)


_FIXTURES = dict(osu="rsc/maps/osu/*.osu", sm="rsc/maps/sm/*.sm", bms="rsc/maps/bms/*", o2j="rsc/maps/o2jam/*.ojn", qua="rsc/maps/qua/*.qua")


def fixture_cases(origin, limit):
    files = sorted(glob.glob(os.path.join(REPO, _FIXTURES[origin])))
    files.sort(key=os.path.getsize)
    return [dict(origin=origin, file=os.path.relpath(f, REPO), limit=limit) for f in files]


def _cut(m, limit):
    if limit:
        m.hits = m.hits[:limit]
        m.holds = m.holds[: max(1, limit // 3)]
    return m


def build_charts(case):
    """case -> [QuaMap] through the REAL constructors / converters (a converter may give several charts)."""
    o = case["origin"]
    if o == "doc":
        from reamber.quaver.QuaMap import QuaMap

        return [QuaMap.read(case["text"])]
    if "file" in case:
        path = os.path.join(REPO, case["file"])
        lim = case.get("limit")
        if o == "qua":
            from reamber.quaver.QuaMap import QuaMap

            return [_cut(QuaMap.read_file(path), lim)]
        if o == "osu":
            from reamber.osu.OsuMap import OsuMap
            from reamber.algorithms.convert import OsuToQua

            return [OsuToQua.convert(_cut(OsuMap.read_file(path), lim), raise_bad_mode=False)]
        if o == "sm":
            from reamber.sm.SMMapSet import SMMapSet
            from reamber.algorithms.convert import SMToQua

            ms = SMMapSet.read_file(path)
            for m in ms:
                _cut(m, lim)
            return SMToQua.convert(ms, raise_bad_mode=False)
        if o == "bms":
            from reamber.bms.BMSMap import BMSMap
            from reamber.algorithms.convert import BMSToQua

            return [BMSToQua.convert(_cut(BMSMap.read_file(path), lim), raise_bad_mode=False)]
        if o == "o2j":
            from reamber.o2jam.O2JMapSet import O2JMapSet
            from reamber.algorithms.convert import O2JToQua

            ms = O2JMapSet.read_file(path)
            for m in ms:
                _cut(m, lim)
            return O2JToQua.convert(ms)
        raise ValueError(o)
    me = case["meta"]
    H, L, B, S = case["hits"], case["holds"], case["bpms"], case["svs"]
    if o == "lists":
        from reamber.quaver.QuaMap import QuaMap
        from reamber.quaver.QuaHit import QuaHit
        from reamber.quaver.QuaHold import QuaHold
        from reamber.quaver.QuaBpm import QuaBpm
        from reamber.quaver.QuaSv import QuaSv
        from reamber.quaver.lists.QuaBpmList import QuaBpmList
        from reamber.quaver.lists.QuaSvList import QuaSvList
        from reamber.quaver.lists.notes.QuaHitList import QuaHitList
        from reamber.quaver.lists.notes.QuaHoldList import QuaHoldList

        m = QuaMap()
        m.hits = QuaHitList([QuaHit(offset=t, column=c, keysounds=list(k)) for t, c, k in H])
        m.holds = QuaHoldList([QuaHold(offset=t, column=c, length=d, keysounds=list(k)) for t, c, d, k in L])
        m.bpms = QuaBpmList([QuaBpm(offset=t, bpm=b) for t, b in B])
        m.svs = QuaSvList([QuaSv(offset=t, multiplier=x) for t, x in S])
        m.title, m.artist, m.creator, m.difficulty_name = me["title"], me["artist"], me["creator"], me["version"]
        m.audio_file, m.background_file, m.banner_file = me["audio"], me["background"], me["banner"]
        m.tags, m.song_preview_time, m.source, m.description, m.genre = list(me["tags"]), me["preview"], me["source"], me["description"], me["genre"]
        m.map_id, m.initial_scroll_velocity, m.has_scratch_key, m.bpm_does_not_affect_scroll_velocity = me["map_id"], me["isv"], me["scratch"], me["bpm_sv"]
        m.editor_layers = list(me["layers"])
        m.mode = "Keys4" if case["keys"] == 4 else "Keys7"
        return [m]
    if o == "osu":
        from reamber.osu.OsuMap import OsuMap
        from reamber.osu.OsuHit import OsuHit
        from reamber.osu.OsuHold import OsuHold
        from reamber.osu.OsuBpm import OsuBpm
        from reamber.osu.OsuSv import OsuSv
        from reamber.osu.lists.OsuBpmList import OsuBpmList
        from reamber.osu.lists.OsuSvList import OsuSvList
        from reamber.osu.lists.notes.OsuHitList import OsuHitList
        from reamber.osu.lists.notes.OsuHoldList import OsuHoldList
        from reamber.algorithms.convert import OsuToQua

        s = OsuMap()
        s.circle_size = float(case["keys"])
        s.hits = OsuHitList([OsuHit(offset=t, column=c) for t, c, _ in H])
        s.holds = OsuHoldList([OsuHold(offset=t, column=c, length=d) for t, c, d, _ in L])
        s.bpms = OsuBpmList([OsuBpm(offset=t, bpm=b) for t, b in B])
        s.svs = OsuSvList([OsuSv(offset=t, multiplier=x) for t, x in S])
        s.title, s.artist, s.creator, s.version, s.audio_file_name, s.background_file_name = me["title"], me["artist"], me["creator"], me["version"], me["audio"], me["background"]
        s.tags, s.preview_time = list(me["tags"]), me["preview"]
        return [OsuToQua.convert(s)]
    if o == "sm":
        from reamber.sm.SMMapSet import SMMapSet
        from reamber.sm.SMMap import SMMap
        from reamber.sm.SMHit import SMHit
        from reamber.sm.SMHold import SMHold
        from reamber.sm.SMBpm import SMBpm
        from reamber.sm.lists.SMBpmList import SMBpmList
        from reamber.sm.lists.notes import SMHitList, SMHoldList
        from reamber.algorithms.convert import SMToQua

        s = SMMap()
        s.chart_type = "dance-single" if case["keys"] == 4 else "kb7-single"
        s.hits = SMHitList([SMHit(offset=t, column=c) for t, c, _ in H])
        s.holds = SMHoldList([SMHold(offset=t, column=c, length=d) for t, c, d, _ in L])
        s.bpms = SMBpmList([SMBpm(offset=t, bpm=b) for t, b in B])
        ms = SMMapSet()
        ms.maps = [s]
        ms.title, ms.artist, ms.credit, ms.music, ms.background, ms.sample_start = me["title"], me["artist"], me["creator"], me["audio"], me["background"], float(max(0, me["preview"]))
        return SMToQua.convert(ms)
    if o == "bms":
        from reamber.bms.BMSMap import BMSMap
        from reamber.bms.BMSHit import BMSHit
        from reamber.bms.BMSHold import BMSHold
        from reamber.bms.BMSBpm import BMSBpm
        from reamber.bms.lists.BMSBpmList import BMSBpmList
        from reamber.bms.lists.notes import BMSHitList, BMSHoldList
        from reamber.algorithms.convert import BMSToQua

        s = BMSMap()
        s.hits = BMSHitList([BMSHit(offset=t, column=c) for t, c, _ in H])
        s.holds = BMSHoldList([BMSHold(offset=t, column=c, length=d) for t, c, d, _ in L])
        s.bpms = BMSBpmList([BMSBpm(offset=t, bpm=b) for t, b in B])
        s.title, s.artist, s.version = (me[k].encode("sjis", errors="replace") for k in ("title", "artist", "version"))
        return [BMSToQua.convert(s, raise_bad_mode=False)]
    if o == "o2j":
        from reamber.o2jam.O2JMapSet import O2JMapSet
        from reamber.o2jam.O2JMap import O2JMap
        from reamber.o2jam.O2JHit import O2JHit
        from reamber.o2jam.O2JHold import O2JHold
        from reamber.o2jam.O2JBpm import O2JBpm
        from reamber.o2jam.lists.O2JBpmList import O2JBpmList
        from reamber.o2jam.lists.notes import O2JHitList, O2JHoldList
        from reamber.algorithms.convert import O2JToQua

        s = O2JMap()
        s.hits = O2JHitList([O2JHit(offset=t, column=c) for t, c, _ in H])
        s.holds = O2JHoldList([O2JHold(offset=t, column=c, length=d) for t, c, d, _ in L])
        s.bpms = O2JBpmList([O2JBpm(offset=t, bpm=b) for t, b in B])
        ms = O2JMapSet()
        ms.maps = [s]
        ms.level = [7]
        ms.title, ms.artist, ms.creator = me["title"], me["artist"], me["creator"]
        return O2JToQua.convert(ms)
    raise ValueError(o)


def _origin_class(case):
    o = case["origin"]
    return "native" if o in ("lists", "doc", "qua") else f"converted[{o}]"


def _finite_chart(ch):
    ts = [t for _, t, _ in ch["hits"]] + [x for _, t, d, _ in ch["holds"] for x in (t, d)] + [x for t, b in ch["bpms"] + ch["svs"] for x in (t, b)]
    return all(math.isfinite(x) for x in ts)


# ----------------------------------------------------------------------------- (b) write vs denotation, (c) read after write


def run_write_case(case):
    """-> ([(what, detail)], info)   info: dict(built=bool, skipped=reason|None, objects=int)"""
    from reamber.quaver.QuaMap import QuaMap

    oc = _origin_class(case)
    try:
        with _quiet():
            charts = build_charts(case)
    except Exception as ex:  # the SOURCE could not be built / read / converted: not an observation of QuaMap.write
        return [], dict(built=False, skipped=_exc(ex), objects=0)
    out, nobj, isv = [], 0, 0
    for i, m in enumerate(charts):
        tag = f" (chart {i})" if len(charts) > 1 else ""
        try:
            chart = chart_of(m)
        except Exception as ex:
            return [], dict(built=False, skipped="chart_of: " + _exc(ex), objects=0)
        if not _finite_chart(chart):
            continue  # outside the property's domain (non-finite times in the source)
        nobj += len(chart["hits"]) + len(chart["holds"])
        try:
            with _quiet():
                text = m.write()
        except Exception as ex:
            out.append((f"{oc}.write.succeeds", _exc(ex) + tag))
            continue
        try:
            raw = _yaml_load(text)
            if not isinstance(raw, dict):
                raise DenError(f"top level is {type(raw).__name__}")
        except Exception as ex:
            out.append((f"{oc}.write.loads_as_mapping", _exc(ex) + tag + "\n" + text[:400]))
            continue
        for a, d in wf_qua(raw):
            out.append((f"{oc}.write.{a}", d + tag))
        isv += int("InitialScrollVelocity" in raw and not _is_num(raw["InitialScrollVelocity"]))
        try:
            den = den_qua(raw)
            for a, d in compare_charts(chart, den, 1.0):
                out.append((f"{oc}.write.same_{a}", d + tag))
        except DenError as ex:
            out.append((f"{oc}.write.value_types", "no denotation: " + str(ex) + tag))
        # (c) read after write: the chart read back is the chart written, < 1 ms
        try:
            with _quiet():
                back = chart_of(QuaMap.read(text))
        except Exception as ex:
            out.append((f"{oc}.read_after_write.accepts", _exc(ex) + tag))
            continue
        for a, d in compare_charts(chart, back, 1.0):
            out.append((f"{oc}.read_after_write.{a}", d + tag))
    # one detail per clause is enough
    seen, uniq = set(), []
    for w, d in out:
        if w not in seen:
            seen.add(w)
            uniq.append((w, d))
    return uniq, dict(built=True, skipped=None, objects=nobj, isv_not_number=isv)


@bounded("C06", note="in-memory Quaver charts, native (read from generated documents, built from item lists, .qua fixtures) AND produced by OsuToQua / SMToQua / BMSToQua / O2JToQua -> REAL QuaMap.write -> den_qua: only the format's keys and value types, no non-finite number, same chart < 1 ms; then REAL QuaMap.read of the written text gives the chart back")
def qua_write_vs_denotation(rep):
    rng = rep.rng
    N = rep.n(40, 500)  # per origin
    lim, nfiles = rep.n(120, 0), rep.n(1, 99)
    rep.bound = f"per origin {N} generated charts (origins: Quaver item lists, generated documents read back, osu, sm, bms, o2j; keys 4/7; 0..4 hits, 0..3 holds incl. hits only / holds only / empty; times from a grid with fractional, negative and 1e9 values; metadata from the YAML-hostile pool) + fixtures under rsc/maps ({'first ' + str(lim) + ' objects of the smallest file' if lim else 'all files, whole charts'} per format)"
    rep.rule = "a case is one source chart description (rebuilt through the real constructors / converters); non-trivial when the written chart has at least one object"
    plan = []
    for o in ("qua", "osu", "sm", "bms", "o2j"):
        plan += fixture_cases(o, lim)
    for i in range(N):
        for o in ("lists", "doc", "osu", "sm", "bms", "o2j"):
            plan.append(o)
    skipped, per, fx_done, isv = {}, {}, {}, 0
    safe = sorted(SAFE_FOR_NATIVE)
    for p in plan:
        if rep.out_of_time(45, 330):
            break
        if isinstance(p, dict):
            if fx_done.get(p["origin"], 0) >= nfiles:  # quick: the smallest fixture of each format that can be read
                continue
            case = p
        elif p == "doc":
            c, text, _ = _doc_case(rng, rng.choice(safe))
            case = dict(origin="doc", feature=c["feature"], text=text)
        else:
            case = gen_chart_case(rng, p)
        failed, info = run_write_case(case)
        key = _origin_class(case) + (":fixture" if "file" in case else "")
        if not info["built"]:
            skipped[case.get("file", case["origin"])] = info["skipped"]
            continue
        per[key] = per.get(key, 0) + 1
        isv += info.get("isv_not_number", 0)
        if "file" in case:
            fx_done[case["origin"]] = fx_done.get(case["origin"], 0) + 1
        rep.case(case, nontrivial=info["objects"] > 0)
        for what, d in failed:
            rep.fail(what, case, d)
    rep.extra["charts_per_origin"] = per
    rep.extra["not asserted - written documents whose InitialScrollVelocity is not a number (the never-set field default '' is written as a string; A5 only calls the key a scalar)"] = isv
    rep.extra["sources_not_buildable (not an observation of C06)"] = skipped


@replayer("qua_write_vs_denotation")
def _replay_write(case, what):
    failed, info = run_write_case(case)
    if not info["built"]:
        return (False, "source chart could not be built: " + str(info["skipped"]))
    hit = [d for w, d in failed if w == what]
    return (bool(hit), hit[0] if hit else "passes")


# ----------------------------------------------------------------------------- (c) write after read


def run_war_case(case):
    """text -> read -> write -> den  vs  den(text), < 1 ms; the re-written text is well-formed."""
    from reamber.quaver.QuaMap import QuaMap

    f = case["feature"]
    if "file" in case:
        with open(os.path.join(REPO, case["file"]), encoding="utf-8") as fh:
            text = fh.read()
    else:
        text = case["text"]
    want = den_qua(text)
    try:
        with _quiet():
            m = QuaMap.read(text)
    except Exception:
        return []  # reported by read.accepts[...]
    try:
        with _quiet():
            text2 = m.write()
    except Exception as ex:
        return [(f"write_after_read.succeeds[{f}]", _exc(ex))]
    try:
        raw = _yaml_load(text2)
        got = den_qua(raw)
    except Exception as ex:
        return [(f"write_after_read.loads_as_mapping[{f}]", _exc(ex) + "\n" + text2[:300])]
    out = [(f"write_after_read.{a}[{f}]", d) for a, d in wf_qua(raw)]
    out += [(f"write_after_read.{a}[{f}]", d) for a, d in compare_charts(want, got, 1.0)]
    return out


@bounded("C06", note="write after read: .qua text -> REAL read -> REAL write -> den_qua equals den_qua of the original text with times moved < 1 ms, and the re-written text has only the format's keys / types")
def qua_write_after_read(rep):
    rng = rep.rng
    N = rep.n(200, 3000)
    files = sorted(glob.glob(os.path.join(REPO, _FIXTURES["qua"])), key=os.path.getsize)[: rep.n(1, 9)]
    rep.bound = f"{N} generated documents (same generator as qua_read_vs_denotation: every single feature x seeds + mixtures) + {len(files)} .qua fixture(s) under rsc/maps/qua"
    rep.rule = "a case is one document text; non-trivial when it has at least one object or timing record; documents REAL read rejects are counted under read.accepts of qua_read_vs_denotation, not here"
    singles = [f for f in FEATURES if f not in ("lane", "mixed")]
    per = max(3, (2 * N // 3) // len(singles))
    plan = [f for f in singles for _ in range(per)]
    plan += ["mixed"] * max(0, N - len(plan))
    for f in files:
        if rep.out_of_time(40, 300):
            break
        case = dict(feature="fixture", file=os.path.relpath(f, REPO))
        rep.case(case, nontrivial=True)
        for what, d in run_war_case(case):
            rep.fail(what, case, d)
    for f in plan:
        if rep.out_of_time(40, 300):
            break
        case, text, want = _doc_case(rng, f)
        rep.case(case, nontrivial=bool(want["hits"] or want["holds"] or want["bpms"] or want["svs"]))
        for what, d in run_war_case(case):
            rep.fail(what, case, d)


@replayer("qua_write_after_read")
def _replay_war(case, what):
    hit = [d for w, d in run_war_case(case) if w == what]
    return (bool(hit), hit[0] if hit else "passes")
