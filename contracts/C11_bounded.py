"""C11 bounded stand-ins: reseating tempo changes onto measure lines keeps every change at its time.

The REAL `TimingMap.reseat_bpm_changes_snap`, `TimingMap.from_bpm_changes_snap(offset, list, reseat=True)` and
`TimingMap.reseat()` are run on enumerated / seeded lists of tempo changes; the oracle is exact rational
integration written from the property statement (it never looks at how reamber splits an interval):

  position p (in beats) of change i, bpm b_i, metronome m  ->  t_0 = 0, t_{i+1} = t_i + (p_{i+1}-p_i) * 60000 / b_i
  returned point j (measure M_j, beat B_j, metronome m_j, bpm c_j) -> T_0 = M_0*m_0*60000/c_0 (must be 0),
                                                       T_{j+1} = T_j + (M_{j+1}-M_j) * m_j * 60000 / c_j

Clause ids (`what`):
  no_exception                            the call returns
  on_measure_line                         every returned point has beat 0 and a whole measure number
  original_time_is_tempo_point            every t_i is some T_j
  bpm_kept_where_whole_measures           when (p_{i+1}-p_i)/m is a whole number >= 1 (and for the last change)
                                          the point at t_i has bpm b_i
  at_most_one_extra_per_interval          <= 1 returned point strictly between t_i and t_{i+1}, none outside
  elapsed_time_unchanged                  the returned segments between the points at t_i and t_{i+1} add up to
                                          t_{i+1}-t_i
  reseat_seated_timeline_unchanged        reseating the (seated) result again, or a list that was seated to
                                          begin with, gives the same (time -> bpm) timeline
  reseat_seated_no_exception              reseating the seated result does not raise
  tm_*                                    the same clauses observed on the ms offsets the library itself reports
                                          (`bpm_changes_offset`) for from_bpm_changes_snap(reseat=True) and
                                          TimingMap.reseat()

Two input families get clause ids of their own (prefix), so that a finding there cannot mask a regression elsewhere:
  tiny_gap_<clause>       lists with two changes no more than 0.001 measure apart (suspected defect F13:
                          ValueError('Failed to yield positive Snap'), e.g. tiny_gap_no_exception)
  near_beat_gap_<clause>  lists with a gap that exceeds a whole number (>= 1) of beats by at most 0.001 beat
"""
from __future__ import annotations

import itertools
import logging
from fractions import Fraction

from pyvc.dsl import bounded
from pyvc.bounded import replayer

TOL_MS = Fraction(1, 10**6)  # float rounding of bpm / rem etc.; the statement's equalities are over the reals (A1)
TOL_REL = 1e-9
METRO = 4
TINY = Fraction(1, 1000)  # "closer than 0.001 measure" (the boundary 0.001 itself behaves the same and is kept in the family)


# ----------------------------------------------------------------------------- oracle (from the statement)


def _F(x):
    return x if isinstance(x, Fraction) else Fraction(repr(float(x))) if isinstance(x, float) else Fraction(x)


def _orig_times(changes):
    """changes: [(pos_beats: Fraction, bpm: Fraction)] sorted by position -> exact ms of every change."""
    t = [Fraction(0)]
    for (p0, b0), (p1, _) in zip(changes[:-1], changes[1:]):
        t.append(t[-1] + (p1 - p0) * 60000 / b0)
    return t


def _out_times(points):
    """points: [(measure, beat, metronome, bpm)] as returned -> exact ms of every returned point."""
    m0, _, me0, c0 = points[0]
    T = [_F(m0) * _F(me0) * 60000 / _F(c0)]
    for (ma, _, mea, ca), (mb, _, _, _) in zip(points[:-1], points[1:]):
        T.append(T[-1] + (_F(mb) - _F(ma)) * _F(mea) * 60000 / _F(ca))
    return T


def _timeline(times, bpms):
    """(time -> active bpm) as a list of (time, bpm) with repeated bpms merged."""
    out = []
    for t, b in zip(times, bpms):
        if out and abs(float(b) - out[-1][1]) <= TOL_REL * abs(out[-1][1]):
            continue
        if out and abs(t - out[-1][0]) <= TOL_MS:
            # a zero-length stretch is not part of "which bpm is active at which time"
            out[-1] = (out[-1][0], float(b))
            if len(out) > 1 and abs(out[-2][1] - out[-1][1]) <= TOL_REL * abs(out[-1][1]):
                out.pop()
            continue
        out.append((t, float(b)))
    return out


def _same_timeline(a, b):
    if len(a) != len(b):
        return False
    return all(abs(ta - tb) <= TOL_MS and abs(ba - bb) <= TOL_REL * abs(ba) for (ta, ba), (tb, bb) in zip(a, b))


def _close(a, b):
    return abs(a - b) <= TOL_MS


def _check_points(prefix, changes, t, T, bpms, failed):
    """Clauses that only need the times T_j and bpms c_j of the returned points (t: original times)."""
    n = len(changes)
    match = []
    for i in range(n):
        js = [j for j in range(len(T)) if _close(T[j], t[i])]
        match.append(js[0] if js else None)
        if not js:
            failed.append((prefix + "original_time_is_tempo_point", f"change {i} at {float(t[i])} ms is not among returned times {[float(x) for x in T]}"))
    # bpm kept wherever a whole number of measures follows
    for i in range(n):
        if match[i] is None:
            continue
        whole = True
        if i + 1 < n:
            k = (changes[i + 1][0] - changes[i][0]) / METRO
            whole = k.denominator == 1 and k >= 1
        if whole:
            # the bpm active from t_i on (the last returned point sitting at t_i)
            j = max(j for j in range(len(T)) if _close(T[j], t[i]))
            want = float(changes[i][1])
            if abs(float(bpms[j]) - want) > TOL_REL * want:
                failed.append((prefix + "bpm_kept_where_whole_measures", f"change {i}: bpm {want} followed by a whole number of measures, returned {bpms[j]}"))
    # at most one extra point per original interval, none outside
    for i in range(n - 1):
        inside = [j for j in range(len(T)) if T[j] > t[i] + TOL_MS and T[j] < t[i + 1] - TOL_MS]
        if len(inside) > 1:
            failed.append((prefix + "at_most_one_extra_per_interval", f"{len(inside)} points strictly between change {i} and {i + 1}: {[float(T[j]) for j in inside]}"))
    outside = [j for j in range(len(T)) if T[j] < t[0] - TOL_MS or T[j] > t[-1] + TOL_MS]
    if outside:
        failed.append((prefix + "at_most_one_extra_per_interval", f"points outside the original span: {[float(T[j]) for j in outside]}"))
    if len(T) > 2 * n - 1:
        failed.append((prefix + "at_most_one_extra_per_interval", f"{len(T)} points returned for {n} changes"))
    return match


def _points_of(bcs_s):
    return [(b.snap.measure, b.snap.beat, b.metronome, b.bpm) for b in bcs_s]


# ----------------------------------------------------------------------------- one case


def _build(case):
    from reamber.algorithms.timing.utils.BpmChangeSnap import BpmChangeSnap
    from reamber.algorithms.timing.utils.snap import Snap

    changes = [(Fraction(p), Fraction(b)) for p, b in case["changes"]]
    lst = [BpmChangeSnap(float(b), METRO, Snap(int(p // METRO), p % METRO, METRO)) for p, b in changes]
    order = case.get("order")
    if order:
        lst = [lst[i] for i in order]
    return changes, lst


def _has_tiny_gap(changes):
    return any((p1 - p0) / METRO <= TINY for (p0, _), (p1, _) in zip(changes[:-1], changes[1:]))


def _has_near_beat_gap(changes):
    """some gap exceeds a whole number (>= 1) of beats by at most 0.001 beat"""
    for (p0, _), (p1, _) in zip(changes[:-1], changes[1:]):
        g = p1 - p0
        fr = g - (g.numerator // g.denominator)
        if g >= 1 and 0 < fr <= TINY:
            return True
    return False


def _family(changes):
    """Input families that get clause ids of their own (so that a finding there cannot hide a regression elsewhere)."""
    if _has_tiny_gap(changes):
        return "tiny_gap_"
    if _has_near_beat_gap(changes):
        return "near_beat_gap_"
    return ""


def _run_case(case):
    """-> [(what, detail)].  case: dict(changes=[[pos_beats_str, bpm_str]...], init=float, forms=[...], order=[...]?)"""
    from reamber.algorithms.timing.TimingMap import TimingMap

    prev = logging.root.manager.disable
    logging.disable(logging.WARNING)
    try:
        return _run_case_inner(case, TimingMap)
    finally:
        logging.disable(prev)


def _run_case_inner(case, TimingMap):
    failed = []
    changes, lst = _build(case)
    t = _orig_times(changes)
    exc_clause = "no_exception"
    forms = case.get("forms", ["list", "from_snap", "tm_reseat"])
    init = case.get("init", 0.0)
    seated_input = all((p / METRO).denominator == 1 for p, _ in changes)

    # ---- form 1: TimingMap.reseat_bpm_changes_snap(list)
    out = None
    if "list" in forms:
        try:
            out = TimingMap.reseat_bpm_changes_snap(lst)
        except Exception as ex:  # noqa
            failed.append((exc_clause, f"reseat_bpm_changes_snap raised {type(ex).__name__}: {ex}"))
    if out is not None:
        pts = _points_of(out)
        bad = [(m, b) for m, b, _, _ in pts if b != 0 or m != int(m)]
        if bad:
            failed.append(("on_measure_line", f"returned points off a measure line (measure, beat): {bad}"))
        try:
            T = _out_times(pts)
        except ZeroDivisionError:
            T = None
            failed.append(("elapsed_time_unchanged", f"returned point with bpm 0: {pts}"))
        if T is not None:
            bpms = [p[3] for p in pts]
            match = _check_points("", changes, t, T, bpms, failed)
            if all(m is not None for m in match):
                for i in range(len(changes) - 1):
                    # the returned segments between the two matched points add up to the original elapsed time
                    el = T[match[i + 1]] - T[match[i]]
                    if not _close(el, t[i + 1] - t[i]) or match[i + 1] <= match[i]:
                        failed.append(("elapsed_time_unchanged", f"interval {i}: returned {float(el)} ms, original {float(t[i + 1] - t[i])} ms"))
            else:
                if not _close(T[-1] - T[0], t[-1] - t[0]):
                    failed.append(("elapsed_time_unchanged", f"whole span: returned {float(T[-1] - T[0])} ms, original {float(t[-1] - t[0])} ms"))
            # seated -> timeline unchanged
            tl_out = _timeline(T, bpms)
            if seated_input:
                tl_in = _timeline(t, [b for _, b in changes])
                if not _same_timeline(tl_in, tl_out):
                    failed.append(("reseat_seated_timeline_unchanged", f"seated input timeline {[(float(a), b) for a, b in tl_in]} became {[(float(a), b) for a, b in tl_out]}"))
            if not bad:
                try:
                    out2 = TimingMap.reseat_bpm_changes_snap(out)
                    pts2 = _points_of(out2)
                    tl2 = _timeline(_out_times(pts2), [p[3] for p in pts2])
                    if not _same_timeline(tl_out, tl2):
                        failed.append(("reseat_seated_timeline_unchanged", f"reseat(result) timeline {[(float(a), b) for a, b in tl2]} != result timeline {[(float(a), b) for a, b in tl_out]}"))
                    if any(b != 0 for _, b, _, _ in pts2):
                        failed.append(("on_measure_line", f"reseat(result) has points off a measure line: {pts2}"))
                except Exception as ex:  # noqa
                    failed.append(("reseat_seated_no_exception", f"reseating the seated result {out} raised {type(ex).__name__}: {ex}"))

    # ---- forms 2, 3: TimingMap objects; observed through the ms offsets the library reports
    def tm_clauses(prefix, tm):
        bco = sorted(tm.bpm_changes_offset, key=lambda b: b.offset)
        T = [_F(b.offset) - _F(init) for b in bco]
        bpms = [b.bpm for b in bco]
        # measure line: every returned stretch is a whole number of that point's measures
        for j in range(len(bco) - 1):
            ml = _F(bco[j].metronome) * 60000 / _F(bco[j].bpm)
            k = (T[j + 1] - T[j]) / ml
            if abs(k - round(k)) * ml > TOL_MS or round(k) < 1:
                failed.append((prefix + "on_measure_line", f"point {j + 1} at {float(T[j + 1])} ms is {float(k)} measures after point {j}"))
        _check_points(prefix, changes, t, T, bpms, failed)
        return _timeline(T, bpms)

    if "from_snap" in forms:
        try:
            tm = TimingMap.from_bpm_changes_snap(init, lst, reseat=True)
        except Exception as ex:  # noqa
            tm = None
            failed.append((exc_clause, f"from_bpm_changes_snap(reseat=True) raised {type(ex).__name__}: {ex}"))
        if tm is not None:
            tl = tm_clauses("tm_", tm)
            try:
                tl2 = None
                tm2 = tm.reseat()
                bco2 = sorted(tm2.bpm_changes_offset, key=lambda b: b.offset)
                tl2 = _timeline([_F(b.offset) - _F(init) for b in bco2], [b.bpm for b in bco2])
            except Exception as ex:  # noqa
                failed.append(("tm_reseat_seated_no_exception", f"reseat() of the seated map {bco_repr(tm)} raised {type(ex).__name__}: {ex}"))
            if tl2 is not None and not _same_timeline(tl, tl2):
                failed.append(("tm_reseat_seated_timeline_unchanged", f"seated map {[(float(a), b) for a, b in tl]} reseated to {[(float(a), b) for a, b in tl2]}"))
    if "tm_reseat" in forms:
        try:
            tm0 = TimingMap.from_bpm_changes_snap(init, lst, reseat=False)
            tm1 = tm0.reseat()
        except Exception as ex:  # noqa
            tm1 = None
            failed.append((exc_clause, f"TimingMap.reseat() raised {type(ex).__name__}: {ex}"))
        if tm1 is not None:
            tm_clauses("tm_", tm1)
    # one entry per clause is enough; clause ids carry the input family
    fam = _family(changes)
    seen, uniq = set(), []
    for w, d in failed:
        w = fam + w
        if w not in seen:
            seen.add(w)
            uniq.append((w, d))
    return uniq


def bco_repr(tm):
    return [(b.bpm, b.metronome, b.offset) for b in tm.bpm_changes_offset]


def _case(changes, init=0.0, forms=None, order=None):
    c = dict(changes=[[str(p), str(b)] for p, b in changes], init=init)
    if forms:
        c["forms"] = forms
    if order:
        c["order"] = order
    return c


def _nontrivial(changes):
    """non-trivial: at least one change is off a measure line, i.e. something has to be reseated."""
    return any((p / METRO).denominator != 1 for p, _ in changes)


# ----------------------------------------------------------------------------- enumerations

GAPS = [Fraction(k, 2) for k in range(1, 17)]  # half-beat grid, gaps <= 8 beats
BPMS = [Fraction(60), Fraction(90), Fraction(120)]


def _grid_lists(n):
    for gaps in itertools.product(GAPS, repeat=n - 1):
        pos = [Fraction(0)]
        for g in gaps:
            pos.append(pos[-1] + g)
        for bp in itertools.product(BPMS, repeat=n):
            yield list(zip(pos, bp))


def _drive(rep, gen, tq, tt):
    done = True
    for changes, init, forms, order in gen:
        if rep.out_of_time(tq, tt):
            done = False
            break
        case = _case(changes, init, forms, order)
        rep.case(case, nontrivial=_nontrivial(changes))
        for what, d in _run_case(case):
            rep.fail(what, case, d)
            cnt = rep.extra.setdefault("failing_cases_by_clause", {})
            cnt[what] = cnt.get(what, 0) + 1
    return done


@bounded("C11", note="reseat (list form, from_bpm_changes_snap(reseat=True), TimingMap.reseat()) on ALL lists of 2-3 changes on the half-beat grid, gaps <= 8 beats, bpm in {60,90,120}, metronome 4, against exact rational integration")
def reseat_half_beat_grid_2_3(rep):
    rep.bound = "all 7 056 lists of 2..3 tempo changes: first at measure 0 beat 0, later changes on the half-beat grid with gaps 0.5..8 beats, bpm in {60, 90, 120}, metronome 4, initial offset 0; all three entry points"
    rep.rule = "a case is one tempo list; non-trivial when some change is off a measure line"

    def gen():
        for n in (2, 3):
            for ch in _grid_lists(n):
                yield ch, 0.0, None, None

    rep.exhaustive = _drive(rep, gen(), 45, 300)


@bounded("C11", note="the same on lists of 4 changes of the half-beat grid: thorough = all 331 776, quick = a seeded sample")
def reseat_half_beat_grid_4(rep):
    rng = rep.rng
    if rep.tier == "quick":
        N = 4000
        rep.bound = f"{N} seeded lists of 4 tempo changes drawn uniformly from the 331 776 lists of the half-beat grid (gaps 0.5..8 beats, bpm in {{60, 90, 120}}, metronome 4); all three entry points"

        def gen():
            for _ in range(N):
                pos = [Fraction(0)]
                for _ in range(3):
                    pos.append(pos[-1] + rng.choice(GAPS))
                yield list(zip(pos, [rng.choice(BPMS) for _ in range(4)])), 0.0, None, None

        _drive(rep, gen(), 40, 40)
    else:
        rep.bound = "all 331 776 lists of 4 tempo changes of the half-beat grid (gaps 0.5..8 beats, bpm in {60, 90, 120}, metronome 4); list form and from_bpm_changes_snap(reseat=True) on every list, TimingMap.reseat() on every 4th"

        def gen():
            for k, ch in enumerate(_grid_lists(4)):
                yield ch, 0.0, (None if k % 4 == 0 else ["list", "from_snap"]), None

        rep.exhaustive = _drive(rep, gen(), 40, 900)
    rep.rule = "a case is one tempo list; non-trivial when some change is off a measure line"


POOL = ["60", "90", "120", "150", "177.5", "200", "333", "87.3", "45", "1000", "12.5"]
INITS = [0.0, -1234.5, 250.0, 5000.0, -5000.0, 0.125]


def _random_list(rng, den, tiny=False):
    n = rng.randrange(2, 6)
    pos = [Fraction(0)]
    for _ in range(n - 1):
        if rng.random() < 0.25:
            g = Fraction(rng.randrange(1, 4) * METRO)  # a whole number of measures: the "bpm kept" clause bites
        else:
            g = Fraction(rng.randrange(1, 8 * den + 1), den)
        pos.append(pos[-1] + g)
    if tiny:
        # force one pair no more than 0.001 measure (= 0.004 beats) apart: 1/1000 .. 4/1000 beats
        i = rng.randrange(0, n - 1)
        g = Fraction(rng.randrange(1, 5), 1000)
        shift = pos[i] + g - pos[i + 1]
        pos = pos[: i + 1] + [p + shift for p in pos[i + 1 :]]
    bpms = [Fraction(rng.choice(POOL)) for _ in range(n)]
    return list(zip(pos, bpms))


@bounded("C11", note="seeded random tempo lists on the 1/48, 1/96 and 1/1000 beat grids, mixed bpms, initial offsets, shuffled input order")
def reseat_random_fine_grids(rep):
    rng = rep.rng
    N = rep.n(6000, 60000)
    rep.bound = f"{N} seeded lists of 2..5 changes, gaps up to 8 beats on the 1/48, 1/96 and 1/1000 beat grids (a quarter of the gaps whole measures), bpm from {POOL}, metronome 4, initial offset from {INITS}, list given in shuffled order; TimingMap.reseat() only on the 1/48 and 1/96 grids (its Snapper cannot represent 1/1000); 1/1000 lists with a pair closer than 0.001 measure or a gap of k + 1/1000 beats are left to reseat_tiny_gaps / reseat_near_beat_gaps"
    rep.rule = "a case is one tempo list + initial offset; non-trivial when some change is off a measure line"

    def gen():
        k = 0
        while k < N:
            den = rng.choice([48, 96, 1000])
            ch = _random_list(rng, den)
            if _family(ch):
                continue
            k += 1
            order = list(range(len(ch)))
            rng.shuffle(order)
            forms = ["list", "from_snap"] if den == 1000 else None
            yield ch, rng.choice(INITS), forms, order

    _drive(rep, gen(), 40, 400)


@bounded("C11", note="1/1000-grid lists with two changes closer than 0.001 measure (suspected defect F13: ValueError 'Failed to yield positive Snap')")
def reseat_tiny_gaps(rep):
    rng = rep.rng
    N = rep.n(1500, 15000)
    rep.bound = f"the witness [120@0, 60@1/500 beat] + {N} seeded lists of 2..5 changes on the 1/1000 beat grid with one forced gap of 1/1000..4/1000 beat (<= 0.001 measure at metronome 4), bpm from the pool, initial offsets; list form and from_bpm_changes_snap(reseat=True)"
    rep.rule = "a case is one tempo list; every case is non-trivial (a change sits < 0.001 measure after another)"

    def gen():
        yield [(Fraction(0), Fraction(120)), (Fraction(1, 500), Fraction(60))], 0.0, ["list", "from_snap"], None
        # the same tiny gap right after a whole measure (there IS a whole measure before the second change)
        yield [(Fraction(0), Fraction(120)), (Fraction(4) + Fraction(1, 500), Fraction(60))], 0.0, ["list", "from_snap"], None
        for _ in range(N):
            yield _random_list(rng, 1000, tiny=True), rng.choice(INITS), ["list", "from_snap"], None

    _drive(rep, gen(), 30, 200)


@bounded("C11", note="1/1000-grid lists with a gap of k + 1/1000 beats (k >= 1): the 'extend by changing the metronome' path")
def reseat_near_beat_gaps(rep):
    rng = rep.rng
    N = rep.n(1500, 15000)
    rep.bound = f"all 2-change lists [b0@0, b1@(k + 1/1000) beats], k = 1..16, b0 in {{60, 120, 1000}} + {N} seeded lists of 2..5 changes on the 1/1000 beat grid with one forced gap of k + 1/1000 beats (k = 1..16), bpm from the pool, initial offsets; list form and from_bpm_changes_snap(reseat=True)"
    rep.rule = "a case is one tempo list; every case is non-trivial (a gap is a whole number of beats + 0.001 beat)"

    def gen():
        for k in range(1, 17):
            for b0 in (60, 120, 1000):
                yield [(Fraction(0), Fraction(b0)), (Fraction(k) + TINY, Fraction(90))], 0.0, ["list", "from_snap"], None
        n = 0
        while n < N:
            ch = _random_list(rng, 1000)
            i = rng.randrange(0, len(ch) - 1)
            g = Fraction(rng.randrange(1, 17)) + TINY
            shift = ch[i][0] + g - ch[i + 1][0]
            ch = ch[: i + 1] + [(p + shift, b) for p, b in ch[i + 1 :]]
            if _family(ch) != "near_beat_gap_":
                continue
            n += 1
            yield ch, rng.choice(INITS), ["list", "from_snap"], None

    _drive(rep, gen(), 30, 200)


def _replay(case, what):
    failed = _run_case(case)
    hit = [d for w, d in failed if w == what]
    return (bool(hit), hit[0] if hit else "passes")


for _n in ("reseat_half_beat_grid_2_3", "reseat_half_beat_grid_4", "reseat_random_fine_grids", "reseat_tiny_gaps", "reseat_near_beat_gaps"):
    replayer(_n)(_replay)
