"""C11 bounded stand-ins: reseating tempo changes onto measure lines keeps every change at its time.

The REAL `TimingMap.reseat_bpm_changes_snap`, `TimingMap.from_bpm_changes_snap(offset, list, reseat=True)` and
`TimingMap.reseat()` are run on enumerated / seeded lists of tempo changes; the oracle is exact rational
integration written from the property statement (it never looks at how reamber splits an interval):

  position p (in beats) of change i, bpm b_i, metronome m  ->  t_0 = 0, t_{i+1} = t_i + (p_{i+1}-p_i) * 60000 / b_i
  returned point j (measure M_j, beat B_j, metronome m_j, bpm c_j) -> T_0 = M_0*m_0*60000/c_0 (must be 0),
                                                       T_{j+1} = T_j + (M_{j+1}-M_j) * m_j * 60000 / c_j

Clause ids (`what`):
  no_exception                            the call returns
  on_measure_line                         every returned point has beat 0 and a whole measure number
  original_time_is_tempo_point            every t_i is some T_j
  bpm_kept_where_whole_measures           when (p_{i+1}-p_i)/m is a whole number >= 1 (and for the last change)
                                          the point at t_i has bpm b_i
  at_most_one_extra_per_interval          <= 1 returned point strictly between t_i and t_{i+1}, none outside
  elapsed_time_unchanged                  the returned segments between the points at t_i and t_{i+1} add up to
                                          t_{i+1}-t_i
  reseat_seated_timeline_unchanged        reseating the (seated) result again, or a list that was seated to
                                          begin with, gives the same (time -> bpm) timeline
  reseat_seated_no_exception              reseating the seated result does not raise
  tm_*                                    the same clauses observed on the ms offsets the library itself reports
                                          (`bpm_changes_offset`) for from_bpm_changes_snap(reseat=True) and
                                          TimingMap.reseat()

Two input families get clause ids of their own (prefix), so that a finding there cannot mask a regression elsewhere:
  tiny_gap_<clause>       lists with two changes no more than 0.001 measure apart (suspected defect F13:
                          ValueError('Failed to yield positive Snap'), e.g. tiny_gap_no_exception)
  near_beat_gap_<clause>  lists with a gap that exceeds a whole number (>= 1) of beats - NOT a whole number of measures -
                          by at most 0.001 beat (finding N7).  A gap of whole MEASURES + a hair is the documented
                          'extend' case, holds on the unchanged tree and carries plain clause ids.
  coincident_<clause>     lists in which two (or more) changes sit on exactly the same position (and no other pair is
                          closer than 0.001 measure): which of them "is active" for zero time is not stated, so only
                          what the statement fixes is compared (the later-listed one governs what follows)
  other_metronome_<clause>  lists with a metronome (beats per measure) other than 4: with 3, 5, 6, 7 ... beats
                          measure_length / beat_length is not exact in floats (finding reported with this round:
                          [130 bpm @ measure 0, 120 bpm @ measure 1] in 3/4 raises ZeroDivisionError; with 8 / 16 beats the
                          same happens one step later, after the 'extend' branch has made a 13-beat measure: 1 list in 12 000)
  `reseat_seated_no_exception` (reseating the seated RESULT raises: finding N6) keeps its plain id in the last two families.

  again_<clause>          `reseat_call_change_call_again`: the clauses above for a call on list / map OBJECTS that every entry point has
                          been called on before and that were then changed in place (see `history` below)

  `reseat_offset_maps_signatures_and_own_grids` (TimingMap.reseat() of maps made from ms offsets; see `_run_offset_map_case`):
  sig_mid_measure_tm_<clause>  the beats per measure change at a change that sits in the MIDDLE of a measure of the signature before it
                          (4/4 -> 3/4 at beat 3.5 ...): which beat of which measure the change is, is not stated, so only no_exception,
                          original_time_is_tempo_point, at_most_one_extra_per_interval (in ms) and on_measure_line (of the result) are compared
  own_grid_tm_<clause>    the map carries a snapper of its own (coarser / finer than the default), every change on that grid: all tm_ clauses

Input dimensions of a case (all optional in the JSON `case`, defaults = the original enumeration):
  history          dict(edit=bpm|append|none|other_list, ...): `changes` is the list AS IT IS at the checked call; it was built as it
                   was before the change (bpm: change k had old_bpm; append: without its last change), every entry point of `forms` was
                   called on it, then the same list object was changed in place (bpm field assigned / change appended; none: nothing,
                   the same call twice; other_list: another list reseated in between).  TimingMap.reseat(): the map object was made
                   from the earlier list, reseat() called, then its last change's bpm assigned / a BpmChangeOffset appended in place.
  metro / metros   beats per measure, one for the list or one per change (a change of metronome only on a measure line)
  num              how the numbers are handed over: fraction (default) | float | int | numpy | unnormalised
                   (Snap(0, position, m): the beat exceeds the measure and is normalised by Snap itself)
  via              class (default) | instance | defaults (reseat left to its default, keyword arguments)
  order            the list is handed over in this order (the functions sort by position themselves)
  forms            which entry points: list, from_snap, tm_reseat, tm_reseat_offsets (the map built from ms offsets)
"""
from __future__ import annotations

import itertools
import logging
from fractions import Fraction

from pyvc.dsl import bounded
from pyvc.bounded import replayer

TOL_MS = Fraction(1, 10**6)  # float rounding of bpm / rem etc.; the statement's equalities are over the reals (A1)
TOL_REL = 1e-9
METRO = 4
TINY = Fraction(1, 1000)  # "closer than 0.001 measure" (the boundary 0.001 itself behaves the same and is kept in the family)


# ----------------------------------------------------------------------------- oracle (from the statement)


def _F(x):
    return x if isinstance(x, Fraction) else Fraction(repr(float(x))) if isinstance(x, float) else Fraction(x)


def _orig_times(changes):
    """changes: [(pos_beats: Fraction, bpm: Fraction)] sorted by position -> exact ms of every change."""
    t = [Fraction(0)]
    for (p0, b0), (p1, _) in zip(changes[:-1], changes[1:]):
        t.append(t[-1] + (p1 - p0) * 60000 / b0)
    return t


def _out_times(points):
    """points: [(measure, beat, metronome, bpm)] as returned -> exact ms of every returned point."""
    m0, _, me0, c0 = points[0]
    T = [_F(m0) * _F(me0) * 60000 / _F(c0)]
    for (ma, _, mea, ca), (mb, _, _, _) in zip(points[:-1], points[1:]):
        T.append(T[-1] + (_F(mb) - _F(ma)) * _F(mea) * 60000 / _F(ca))
    return T


def _timeline(times, bpms):
    """(time -> active bpm) as a list of (time, bpm) with repeated bpms merged."""
    out = []
    for t, b in zip(times, bpms):
        if out and abs(float(b) - out[-1][1]) <= TOL_REL * abs(out[-1][1]):
            continue
        if out and abs(t - out[-1][0]) <= TOL_MS:
            # a zero-length stretch is not part of "which bpm is active at which time"
            out[-1] = (out[-1][0], float(b))
            if len(out) > 1 and abs(out[-2][1] - out[-1][1]) <= TOL_REL * abs(out[-1][1]):
                out.pop()
            continue
        out.append((t, float(b)))
    return out


def _same_timeline(a, b):
    if len(a) != len(b):
        return False
    return all(abs(ta - tb) <= TOL_MS and abs(ba - bb) <= TOL_REL * abs(ba) for (ta, ba), (tb, bb) in zip(a, b))


def _close(a, b):
    return abs(a - b) <= TOL_MS


def _check_points(prefix, changes, t, T, bpms, failed, metros=None):
    """Clauses that only need the times T_j and bpms c_j of the returned points (t: original times)."""
    n = len(changes)
    metros = metros or [METRO] * n
    match = []
    for i in range(n):
        js = [j for j in range(len(T)) if _close(T[j], t[i])]
        match.append(js[0] if js else None)
        if not js:
            failed.append((prefix + "original_time_is_tempo_point", f"change {i} at {float(t[i])} ms is not among returned times {[float(x) for x in T]}"))
    # bpm kept wherever a whole number of measures follows
    for i in range(n):
        if match[i] is None:
            continue
        whole = True
        if i + 1 < n:
            k = (changes[i + 1][0] - changes[i][0]) / metros[i]
            whole = k.denominator == 1 and k >= 1
        if whole:
            # the bpm active from t_i on (the last returned point sitting at t_i)
            j = max(j for j in range(len(T)) if _close(T[j], t[i]))
            want = float(changes[i][1])
            if abs(float(bpms[j]) - want) > TOL_REL * want:
                failed.append((prefix + "bpm_kept_where_whole_measures", f"change {i}: bpm {want} followed by a whole number of measures, returned {bpms[j]}"))
    # at most one extra point per original interval, none outside
    for i in range(n - 1):
        inside = [j for j in range(len(T)) if T[j] > t[i] + TOL_MS and T[j] < t[i + 1] - TOL_MS]
        if len(inside) > 1:
            failed.append((prefix + "at_most_one_extra_per_interval", f"{len(inside)} points strictly between change {i} and {i + 1}: {[float(T[j]) for j in inside]}"))
    outside = [j for j in range(len(T)) if T[j] < t[0] - TOL_MS or T[j] > t[-1] + TOL_MS]
    if outside:
        failed.append((prefix + "at_most_one_extra_per_interval", f"points outside the original span: {[float(T[j]) for j in outside]}"))
    if len(T) > 2 * n - 1:
        failed.append((prefix + "at_most_one_extra_per_interval", f"{len(T)} points returned for {n} changes"))
    return match


def _points_of(bcs_s):
    return [(b.snap.measure, b.snap.beat, b.metronome, b.bpm) for b in bcs_s]


# ----------------------------------------------------------------------------- one case


def _metros(case, n):
    if case.get("metros"):
        return [int(m) for m in case["metros"]]
    return [int(case.get("metro", METRO))] * n


def _snaps_of(changes, metros):
    """(measure, beat) of every change: the measures after change i have metros[i] beats."""
    out = [(0, Fraction(0))]
    for i in range(1, len(changes)):
        m0, b0 = out[-1]
        tot = b0 + (changes[i][0] - changes[i - 1][0])
        out.append((m0 + int(tot // metros[i - 1]), tot % metros[i - 1]))
    return out


def _build(case):
    """-> (changes [(position in beats, bpm)], metros, list handed to reamber).  With num=float the position the
    oracle uses is the one denoted by the floats actually handed over."""
    import numpy as np
    from reamber.algorithms.timing.utils.BpmChangeSnap import BpmChangeSnap
    from reamber.algorithms.timing.utils.snap import Snap

    changes = [(Fraction(p), Fraction(b)) for p, b in case["changes"]]
    metros = _metros(case, len(changes))
    num = case.get("num", "fraction")
    snaps = _snaps_of(changes, metros)
    lst = []
    for (p, b), me, (m, beat) in zip(changes, metros, snaps):
        if num == "float":
            lst.append(BpmChangeSnap(float(b), me, Snap(int(m), float(beat), me)))
        elif num == "numpy":
            lst.append(BpmChangeSnap(np.float64(float(b)), me, Snap(int(m), np.float64(float(beat)), me)))
        elif num == "int":
            bb = int(b) if b.denominator == 1 else float(b)
            be = int(beat) if beat.denominator == 1 else beat
            lst.append(BpmChangeSnap(bb, me, Snap(int(m), be, me)))
        elif num == "unnormalised" and len(set(metros)) == 1:
            # the whole distance from the previous measure line of the list's own metronome, as beats of measure 0
            lst.append(BpmChangeSnap(float(b), me, Snap(0, Fraction(m) * me + beat, me)))
        else:
            lst.append(BpmChangeSnap(float(b), me, Snap(int(m), beat, me)))
    if num in ("float", "numpy"):
        # what was handed over denotes these positions (float(beat) need not equal beat)
        pos, prev = [Fraction(0)], (0, Fraction(0))
        for i in range(1, len(changes)):
            m, beat = snaps[i]
            fb = Fraction(float(beat))
            pos.append(pos[-1] + (m - prev[0]) * metros[i - 1] + (fb - prev[1]))
            prev = (m, fb)
        changes = [(q, b) for q, (_, b) in zip(pos, changes)]
    order = case.get("order")
    if order:
        lst = [lst[i] for i in order]
    return changes, metros, lst


def _gaps(changes, metros=None):
    metros = metros or [METRO] * len(changes)
    return [(p1 - p0, me) for (p0, _), (p1, _), me in zip(changes[:-1], changes[1:], metros)]


def _has_tiny_gap(changes, metros=None):
    return any(g / me <= TINY for g, me in _gaps(changes, metros))


def _has_coincident_only(changes, metros=None):
    """some changes share a position, and no OTHER pair is closer than 0.001 measure"""
    gs = _gaps(changes, metros)
    return any(g == 0 for g, _ in gs) and not any(0 < g / me <= TINY for g, me in gs)


def _has_near_beat_gap(changes, metros=None):
    """some gap exceeds a whole number (>= 1) of beats, which is not a whole number of measures, by at most 0.001 beat
    (a whole number of measures + a hair is the documented 'extend' case and belongs to no family)"""
    for g, me in _gaps(changes, metros):
        whole = g.numerator // g.denominator
        fr = g - whole
        if g >= 1 and 0 < fr <= TINY and whole % me != 0:
            return True
    return False


def _other_metronome(metros):
    return any(me != METRO for me in metros)


def _family(changes, metros=None):
    """Input families that get clause ids of their own (so that a finding there cannot hide a regression elsewhere)."""
    if _has_coincident_only(changes, metros):
        return "coincident_"
    if _has_tiny_gap(changes, metros):
        return "tiny_gap_"
    if _has_near_beat_gap(changes, metros):
        return "near_beat_gap_"
    if metros and _other_metronome(metros):
        return "other_metronome_"
    return ""


def _run_case(case):
    """-> [(what, detail)].  case: dict(changes=[[pos_beats_str, bpm_str]...], init=float, forms=[...], order=[...]?)"""
    from reamber.algorithms.timing.TimingMap import TimingMap

    prev = logging.root.manager.disable
    logging.disable(logging.WARNING)
    try:
        return _run_case_inner(case, TimingMap)
    finally:
        logging.disable(prev)


def _sig(lst):
    return sorted((float(b.bpm), float(b.metronome), int(b.snap.measure), Fraction(b.snap.beat), float(b.snap.metronome)) for b in lst)


def _history_objects(case, hist, reseat_list, from_snap, forms, init):
    """-> (list object, map object | None) as they are at the checked call, or None when the list is not what the case says it is now
    (an earlier call changed its argument: the statement is silent about that, nothing is asserted then)."""
    from reamber.algorithms.timing.utils.BpmChangeOffset import BpmChangeOffset

    changes, metros, final = _build(case)
    n = len(changes)
    kind = hist["edit"]
    order = case.get("order") or list(range(n))
    pre = {k: v for k, v in case.items() if k != "history"}
    ch = [list(c) for c in case["changes"]]
    if kind == "bpm":
        ch[hist["k"]][1] = hist["old_bpm"]
    elif kind == "append":
        assert order[-1] == n - 1
        ch = ch[:-1]
        pre["order"] = order[:-1]
        if pre.get("metros"):
            pre["metros"] = pre["metros"][:-1]
    pre["changes"] = ch
    pre_changes, pre_metros, lst = _build(pre)
    t_final = _orig_times(changes)

    def quiet(f):
        try:
            return f()
        except Exception:  # noqa  (the earlier calls are judged by the other checks)
            return None

    def all_forms(l):
        tm0 = None
        if "list" in forms:
            quiet(lambda: reseat_list(l))
        if "from_snap" in forms:
            quiet(lambda: from_snap(init, l, True))
        if "tm_reseat" in forms:
            tm0 = quiet(lambda: from_snap(init, l, False))
            if tm0 is not None:
                quiet(tm0.reseat)
        return tm0

    tm0 = all_forms(lst)
    if kind == "other_list":
        other = dict(pre, changes=[[p, str(Fraction(b) * 2)] for p, b in pre["changes"]])
        all_forms(_build(other)[2])
    # ---- the change, in place, on the objects used above
    if kind == "bpm":
        k = hist["k"]
        lst[order.index(k)].bpm = final[order.index(k)].bpm
        if tm0 is not None:
            if k == n - 1:
                max(tm0.bpm_changes_offset, key=lambda b: b.offset).bpm = final[order.index(k)].bpm
            else:
                tm0 = quiet(lambda: from_snap(init, lst, False))  # (an earlier bpm in offset form would move every later position)
                if tm0 is not None:
                    quiet(tm0.reseat)
    elif kind == "append":
        lst.append(final[-1])
        if tm0 is not None:
            tm0.bpm_changes_offset.append(BpmChangeOffset(final[-1].bpm, final[-1].metronome, float(_F(init) + t_final[-1])))
    if _sig(lst) != _sig(final):
        return None
    return lst, tm0


def _run_case_inner(case, TimingMap):
    failed = []
    changes, metros, lst = _build(case)
    t = _orig_times(changes)
    exc_clause = "no_exception"
    forms = case.get("forms", ["list", "from_snap", "tm_reseat"])
    init = case.get("init", 0.0)
    if case.get("init_np"):
        import numpy as np

        init = np.float64(init)
    seated_input = all(b == 0 for _, b in _snaps_of(changes, metros))
    coincident = any(_close(a, b) for a, b in zip(t[:-1], t[1:]))
    # how the entry points are reached: through the class (default), through an instance, or with defaulted / keyword arguments
    via = case.get("via", "class")
    if via == "instance":
        from reamber.algorithms.timing.utils.BpmChangeOffset import BpmChangeOffset

        holder = TimingMap(bpm_changes_offset=[BpmChangeOffset(143.0, 4, 77.0)])
        reseat_list = holder.reseat_bpm_changes_snap
        from_snap = lambda o, l, reseat: holder.from_bpm_changes_snap(o, l, reseat=reseat)  # noqa: E731
    elif via == "defaults":
        reseat_list = lambda l: TimingMap.reseat_bpm_changes_snap(bpm_changes_snap=l)  # noqa: E731

        def from_snap(o, l, reseat):
            if reseat:  # reseat=True is the documented default
                return TimingMap.from_bpm_changes_snap(bpm_changes_snap=l, initial_offset=o)
            return TimingMap.from_bpm_changes_snap(o, l, False)
    else:
        reseat_list = TimingMap.reseat_bpm_changes_snap
        from_snap = lambda o, l, reseat: TimingMap.from_bpm_changes_snap(o, l, reseat=reseat)  # noqa: E731

    hist = case.get("history")
    tm0_used = None
    if hist:
        objs = _history_objects(case, hist, reseat_list, from_snap, forms, init)
        if objs is None:
            return []
        lst, tm0_used = objs

    # ---- form 1: TimingMap.reseat_bpm_changes_snap(list)
    out = None
    if "list" in forms:
        try:
            out = reseat_list(lst)
        except Exception as ex:  # noqa
            failed.append((exc_clause, f"reseat_bpm_changes_snap raised {type(ex).__name__}: {ex}"))
    if out is not None:
        pts = _points_of(out)
        bad = [(m, b) for m, b, _, _ in pts if b != 0 or m != int(m)]
        if bad:
            failed.append(("on_measure_line", f"returned points off a measure line (measure, beat): {bad}"))
        try:
            T = _out_times(pts)
        except ZeroDivisionError:
            T = None
            failed.append(("elapsed_time_unchanged", f"returned point with bpm 0: {pts}"))
        if T is not None:
            bpms = [p[3] for p in pts]
            match = _check_points("", changes, t, T, bpms, failed, metros)
            if all(m is not None for m in match):
                for i in range(len(changes) - 1):
                    # the returned segments between the two matched points add up to the original elapsed time
                    el = T[match[i + 1]] - T[match[i]]
                    # (two changes on one position are matched by the same / by neighbouring points)
                    if not _close(el, t[i + 1] - t[i]) or (match[i + 1] <= match[i] and not _close(t[i + 1], t[i])):
                        failed.append(("elapsed_time_unchanged", f"interval {i}: returned {float(el)} ms, original {float(t[i + 1] - t[i])} ms"))
            else:
                if not _close(T[-1] - T[0], t[-1] - t[0]):
                    failed.append(("elapsed_time_unchanged", f"whole span: returned {float(T[-1] - T[0])} ms, original {float(t[-1] - t[0])} ms"))
            # seated -> timeline unchanged
            tl_out = _timeline(T, bpms)
            if seated_input:
                tl_in = _timeline(t, [b for _, b in changes])
                if not _same_timeline(tl_in, tl_out):
                    failed.append(("reseat_seated_timeline_unchanged", f"seated input timeline {[(float(a), b) for a, b in tl_in]} became {[(float(a), b) for a, b in tl_out]}"))
            if not bad:
                try:
                    out2 = reseat_list(out)
                    pts2 = _points_of(out2)
                    tl2 = _timeline(_out_times(pts2), [p[3] for p in pts2])
                    if not _same_timeline(tl_out, tl2):
                        failed.append(("reseat_seated_timeline_unchanged", f"reseat(result) timeline {[(float(a), b) for a, b in tl2]} != result timeline {[(float(a), b) for a, b in tl_out]}"))
                    if any(b != 0 for _, b, _, _ in pts2):
                        failed.append(("on_measure_line", f"reseat(result) has points off a measure line: {pts2}"))
                except Exception as ex:  # noqa
                    failed.append(("reseat_seated_no_exception", f"reseating the seated result {out} raised {type(ex).__name__}: {ex}"))

    # ---- forms 2, 3: TimingMap objects; observed through the ms offsets the library reports
    def tm_clauses(prefix, tm):
        bco = sorted(tm.bpm_changes_offset, key=lambda b: b.offset)
        T = [_F(b.offset) - _F(init) for b in bco]
        bpms = [b.bpm for b in bco]
        # measure line: every returned stretch is a whole number of that point's measures
        for j in range(len(bco) - 1):
            ml = _F(bco[j].metronome) * 60000 / _F(bco[j].bpm)
            k = (T[j + 1] - T[j]) / ml
            if coincident and abs(k) * ml <= TOL_MS:
                continue  # two points on one measure line (two original changes share that position)
            if abs(k - round(k)) * ml > TOL_MS or round(k) < 1:
                failed.append((prefix + "on_measure_line", f"point {j + 1} at {float(T[j + 1])} ms is {float(k)} measures after point {j}"))
        _check_points(prefix, changes, t, T, bpms, failed, metros)
        return _timeline(T, bpms)

    if "from_snap" in forms:
        try:
            tm = from_snap(init, lst, True)
        except Exception as ex:  # noqa
            tm = None
            failed.append((exc_clause, f"from_bpm_changes_snap(reseat=True) raised {type(ex).__name__}: {ex}"))
        if tm is not None:
            tl = tm_clauses("tm_", tm)
            try:
                tl2 = None
                tm2 = tm.reseat()
                bco2 = sorted(tm2.bpm_changes_offset, key=lambda b: b.offset)
                tl2 = _timeline([_F(b.offset) - _F(init) for b in bco2], [b.bpm for b in bco2])
            except Exception as ex:  # noqa
                failed.append(("tm_reseat_seated_no_exception", f"reseat() of the seated map {bco_repr(tm)} raised {type(ex).__name__}: {ex}"))
            if tl2 is not None and not _same_timeline(tl, tl2):
                failed.append(("tm_reseat_seated_timeline_unchanged", f"seated map {[(float(a), b) for a, b in tl]} reseated to {[(float(a), b) for a, b in tl2]}"))
    if "tm_reseat" in forms:
        try:
            tm0 = tm0_used if tm0_used is not None else from_snap(init, lst, False)
            tm1 = tm0.reseat()
        except Exception as ex:  # noqa
            tm1 = None
            failed.append((exc_clause, f"TimingMap.reseat() raised {type(ex).__name__}: {ex}"))
        if tm1 is not None:
            tm_clauses("tm_", tm1)
    if "tm_reseat_offsets" in forms:
        # the map is made from the ms positions of the changes (exact integration, rounded to floats), not from snaps
        from reamber.algorithms.timing.utils.BpmChangeOffset import BpmChangeOffset

        try:
            bco_in = [BpmChangeOffset(float(b), me, float(_F(init) + ti)) for (_, b), me, ti in zip(changes, metros, t)]
            tm0 = TimingMap.from_bpm_changes_offset(bco_in) if via != "instance" else TimingMap(bpm_changes_offset=bco_in)
            tm1 = tm0.reseat()
        except Exception as ex:  # noqa
            tm1 = None
            failed.append((exc_clause, f"TimingMap.reseat() of a map made from offsets raised {type(ex).__name__}: {ex}"))
        if tm1 is not None:
            tm_clauses("tm_", tm1)
    # one entry per clause is enough; clause ids carry the input family
    fam = _family(changes, metros)
    seen, uniq = set(), []
    for w, d in failed:
        # (a seated RESULT that raises when reseated is one finding, N6, whatever the metronome / with coincident changes: no prefix there)
        w = w if (fam in ("other_metronome_", "coincident_") and w == "reseat_seated_no_exception") else fam + w
        if hist:
            w = "again_" + w
        if w not in seen:
            seen.add(w)
            uniq.append((w, d))
    return uniq


def bco_repr(tm):
    return [(b.bpm, b.metronome, b.offset) for b in tm.bpm_changes_offset]


def _case(changes, init=0.0, forms=None, order=None, **more):
    c = dict(changes=[[str(p), str(b)] for p, b in changes], init=init)
    if forms:
        c["forms"] = forms
    if order:
        c["order"] = order
    for k, v in more.items():
        if v is not None:
            c[k] = v
    return c


def _nontrivial(changes, metros=None):
    """non-trivial: at least one change is off a measure line, i.e. something has to be reseated."""
    metros = metros or [METRO] * len(changes)
    return any(b != 0 for _, b in _snaps_of(changes, metros))


# ----------------------------------------------------------------------------- enumerations

GAPS = [Fraction(k, 2) for k in range(1, 17)]  # half-beat grid, gaps <= 8 beats
BPMS = [Fraction(60), Fraction(90), Fraction(120)]


def _grid_lists(n):
    for gaps in itertools.product(GAPS, repeat=n - 1):
        pos = [Fraction(0)]
        for g in gaps:
            pos.append(pos[-1] + g)
        for bp in itertools.product(BPMS, repeat=n):
            yield list(zip(pos, bp))


def _drive(rep, gen, tq, tt):
    done = True
    for item in gen:
        changes, init, forms, order = item[:4]
        more = item[4] if len(item) > 4 else {}
        if rep.out_of_time(tq, tt):
            done = False
            break
        case = _case(changes, init, forms, order, **more)
        rep.case(case, nontrivial=_nontrivial(changes, _metros(case, len(changes))))
        for what, d in _run_case(case):
            rep.fail(what, case, d)
            cnt = rep.extra.setdefault("failing_cases_by_clause", {})
            cnt[what] = cnt.get(what, 0) + 1
    return done


@bounded("C11", note="reseat (list form, from_bpm_changes_snap(reseat=True), TimingMap.reseat()) on ALL lists of 2-3 changes on the half-beat grid, gaps <= 8 beats, bpm in {60,90,120}, metronome 4, against exact rational integration")
def reseat_half_beat_grid_2_3(rep):
    rep.bound = "all 7 056 lists of 2..3 tempo changes: first at measure 0 beat 0, later changes on the half-beat grid with gaps 0.5..8 beats, bpm in {60, 90, 120}, metronome 4, initial offset 0; all three entry points"
    rep.rule = "a case is one tempo list; non-trivial when some change is off a measure line"

    def gen():
        for n in (2, 3):
            for ch in _grid_lists(n):
                yield ch, 0.0, None, None

    rep.exhaustive = _drive(rep, gen(), 45, 300)


@bounded("C11", note="the same on lists of 4 changes of the half-beat grid: thorough = all 331 776, quick = a seeded sample")
def reseat_half_beat_grid_4(rep):
    rng = rep.rng
    if rep.tier == "quick":
        N = 4000
        rep.bound = f"{N} seeded lists of 4 tempo changes drawn uniformly from the 331 776 lists of the half-beat grid (gaps 0.5..8 beats, bpm in {{60, 90, 120}}, metronome 4); all three entry points"

        def gen():
            for _ in range(N):
                pos = [Fraction(0)]
                for _ in range(3):
                    pos.append(pos[-1] + rng.choice(GAPS))
                yield list(zip(pos, [rng.choice(BPMS) for _ in range(4)])), 0.0, None, None

        _drive(rep, gen(), 40, 40)
    else:
        rep.bound = "all 331 776 lists of 4 tempo changes of the half-beat grid (gaps 0.5..8 beats, bpm in {60, 90, 120}, metronome 4); list form and from_bpm_changes_snap(reseat=True) on every list, TimingMap.reseat() on every 4th"

        def gen():
            for k, ch in enumerate(_grid_lists(4)):
                yield ch, 0.0, (None if k % 4 == 0 else ["list", "from_snap"]), None

        rep.exhaustive = _drive(rep, gen(), 40, 900)
    rep.rule = "a case is one tempo list; non-trivial when some change is off a measure line"


POOL = ["60", "90", "120", "150", "177.5", "200", "333", "87.3", "45", "1000", "12.5"]
INITS = [0.0, -1234.5, 250.0, 5000.0, -5000.0, 0.125]


def _random_list(rng, den, tiny=False):
    n = rng.randrange(2, 6)
    pos = [Fraction(0)]
    for _ in range(n - 1):
        if rng.random() < 0.25:
            g = Fraction(rng.randrange(1, 4) * METRO)  # a whole number of measures: the "bpm kept" clause bites
        else:
            g = Fraction(rng.randrange(1, 8 * den + 1), den)
        pos.append(pos[-1] + g)
    if tiny:
        # force one pair no more than 0.001 measure (= 0.004 beats) apart: 1/1000 .. 4/1000 beats
        i = rng.randrange(0, n - 1)
        g = Fraction(rng.randrange(1, 5), 1000)
        shift = pos[i] + g - pos[i + 1]
        pos = pos[: i + 1] + [p + shift for p in pos[i + 1 :]]
    bpms = [Fraction(rng.choice(POOL)) for _ in range(n)]
    return list(zip(pos, bpms))


@bounded("C11", note="seeded random tempo lists on the 1/48, 1/96 and 1/1000 beat grids, mixed bpms, initial offsets, shuffled input order")
def reseat_random_fine_grids(rep):
    rng = rep.rng
    N = rep.n(6000, 60000)
    rep.bound = f"{N} seeded lists of 2..5 changes, gaps up to 8 beats on the 1/48, 1/96 and 1/1000 beat grids (a quarter of the gaps whole measures), bpm from {POOL}, metronome 4, initial offset from {INITS}, list given in shuffled order; TimingMap.reseat() only on the 1/48 and 1/96 grids (its Snapper cannot represent 1/1000); 1/1000 lists with a pair closer than 0.001 measure or a gap of k + 1/1000 beats (k not a whole number of measures) are left to reseat_tiny_gaps / reseat_near_beat_gaps; whole measures + 1/1000 beat stay here"
    rep.rule = "a case is one tempo list + initial offset; non-trivial when some change is off a measure line"

    def gen():
        k = 0
        while k < N:
            den = rng.choice([48, 96, 1000])
            ch = _random_list(rng, den)
            if _family(ch):
                continue
            k += 1
            order = list(range(len(ch)))
            rng.shuffle(order)
            forms = ["list", "from_snap"] if den == 1000 else None
            yield ch, rng.choice(INITS), forms, order

    _drive(rep, gen(), 40, 400)


@bounded("C11", note="1/1000-grid lists with two changes closer than 0.001 measure (suspected defect F13: ValueError 'Failed to yield positive Snap')")
def reseat_tiny_gaps(rep):
    rng = rep.rng
    N = rep.n(1500, 15000)
    rep.bound = f"the witness [120@0, 60@1/500 beat] + {N} seeded lists of 2..5 changes on the 1/1000 beat grid with one forced gap of 1/1000..4/1000 beat (<= 0.001 measure at metronome 4), bpm from the pool, initial offsets; list form and from_bpm_changes_snap(reseat=True)"
    rep.rule = "a case is one tempo list; every case is non-trivial (a change sits < 0.001 measure after another)"

    def gen():
        yield [(Fraction(0), Fraction(120)), (Fraction(1, 500), Fraction(60))], 0.0, ["list", "from_snap"], None
        # the same tiny gap right after a whole measure (there IS a whole measure before the second change)
        yield [(Fraction(0), Fraction(120)), (Fraction(4) + Fraction(1, 500), Fraction(60))], 0.0, ["list", "from_snap"], None
        for _ in range(N):
            yield _random_list(rng, 1000, tiny=True), rng.choice(INITS), ["list", "from_snap"], None

    _drive(rep, gen(), 30, 200)


@bounded("C11", note="1/1000-grid lists with a gap of k + 1/1000 beats (k >= 1): the 'extend by changing the metronome' path")
def reseat_near_beat_gaps(rep):
    rng = rep.rng
    N = rep.n(1500, 15000)
    rep.bound = f"all 2-change lists [b0@0, b1@(k + 1/1000) beats], k = 1..16, b0 in {{60, 120, 1000}} + {N} seeded lists of 2..5 changes on the 1/1000 beat grid with one forced gap of k + 1/1000 beats (k = 1..16), bpm from the pool, initial offsets; list form and from_bpm_changes_snap(reseat=True); the 12 two-change lists with k = 4, 8, 12, 16 (whole measures + 1/1000 beat: the documented extend case) carry plain clause ids, all others near_beat_gap_*"
    rep.rule = "a case is one tempo list; every case is non-trivial (a gap is a whole number of beats + 0.001 beat)"

    def gen():
        for k in range(1, 17):
            for b0 in (60, 120, 1000):
                yield [(Fraction(0), Fraction(b0)), (Fraction(k) + TINY, Fraction(90))], 0.0, ["list", "from_snap"], None
        n = 0
        while n < N:
            ch = _random_list(rng, 1000)
            i = rng.randrange(0, len(ch) - 1)
            g = Fraction(rng.randrange(1, 17)) + TINY
            shift = ch[i][0] + g - ch[i + 1][0]
            ch = ch[: i + 1] + [(p + shift, b) for p, b in ch[i + 1 :]]
            if _family(ch) != "near_beat_gap_":
                continue
            n += 1
            yield ch, rng.choice(INITS), ["list", "from_snap"], None

    _drive(rep, gen(), 30, 200)


# ----------------------------------------------------------------------------- dimensions added after the seeded rounds

INITS_WIDE = [0.0, 0, 250, -1234.5, 0.30000000000000004, 1e7, -1e7, 86399999.875, 5000.0]
HAIRS_P = [Fraction(1, 1000), Fraction(1, 2000), Fraction(1, 4000), Fraction(3, 4000), Fraction(1, 10000)]  # <= 0.001 beat
HAIRS_M = [Fraction(1, 500), Fraction(1, 250), Fraction(1, 200)]  # up to / at / just over 0.001 measure (metronome 4)
VIAS = ["class", "instance", "defaults"]


def _shuffled(rng, n):
    order = list(range(n))
    rng.shuffle(order)
    return order


@bounded("C11", note="lists whose off-measure changes all sit a hair (<= 0.001 beat; some up to 0.005 beat) after a measure line - the documented 'extend' case - as fractions and as floats, shuffled, through every way of calling")
def reseat_hair_after_measure_line(rep):
    rng = rep.rng
    N = rep.n(3000, 30000)
    rep.bound = (
        f"all 2-change lists [b0@0, 90@(k measures + h)], k = 1..3, b0 in {{60, 120, 1000}}, h in {[str(h) for h in HAIRS_P + HAIRS_M]} beats + {N} seeded lists of 2..5 changes "
        f"in strictly increasing measures (1..3 apart), each later change on its measure line or a hair after it: 60 % of the lists use only hairs <= 1/1000 beat (nothing else is off a measure line), "
        f"the rest also 1/500, 1/250 (= 0.001 measure) and 1/200 beat; beats handed over as Fraction or as float (a third), list order shuffled (half), bpm from the pool, "
        f"initial offset from {INITS_WIDE}, called through the class / an instance / with defaulted and keyword arguments; list form and from_bpm_changes_snap(reseat=True)"
    )
    rep.rule = "a case is one tempo list + initial offset + calling convention; non-trivial when some change is off a measure line (always, but for the few lists that drew no hair)"

    def gen():
        for k in (1, 2, 3):
            for b0 in (60, 120, 1000):
                for h in HAIRS_P + HAIRS_M:
                    yield [(Fraction(0), Fraction(b0)), (Fraction(METRO * k) + h, Fraction(90))], 0.0, ["list", "from_snap"], None
        for _ in range(N):
            n = rng.randrange(2, 6)
            hairs = HAIRS_P if rng.random() < 0.6 else HAIRS_P + HAIRS_M
            m, pos = 0, [Fraction(0)]
            for _ in range(n - 1):
                m += rng.randrange(1, 4)
                pos.append(Fraction(METRO * m) + (rng.choice(hairs) if rng.random() < 0.7 else 0))
            ch = list(zip(pos, [Fraction(rng.choice(POOL)) for _ in range(n)]))
            more = dict(num="float" if rng.random() < 1 / 3 else None, via=rng.choice(VIAS))
            if more["via"] == "class":
                more["via"] = None
            yield ch, rng.choice(INITS_WIDE), ["list", "from_snap"], (_shuffled(rng, n) if rng.random() < 0.5 else None), more

    _drive(rep, gen(), 25, 200)


@bounded("C11", note="one-element lists, and lists in which two or three changes (with different bpms) sit on exactly the same position - on a measure line, off it, and on position 0")
def reseat_single_and_coincident(rep):
    rng = rep.rng
    N = rep.n(1500, 15000)
    rep.bound = (
        f"all one-change lists [b@0], b from the pool, initial offsets {INITS_WIDE[:6]}, all entry points (also a map made from ms offsets) + "
        f"{N} seeded lists of 2..4 changes on the half-beat and 1/48 grids (a quarter of the gaps whole measures) in which one position - position 0 in a fifth of the lists - "
        f"carries 2 (or, in a fifth, 3) changes with different bpms, listed in the order in which they are meant to follow each other; list form, from_bpm_changes_snap(reseat=True), TimingMap.reseat()"
    )
    rep.rule = "a case is one tempo list + initial offset; non-trivial when some change is off a measure line (one-change lists are trivial)"

    def gen():
        for b in POOL:
            for init in INITS_WIDE[:6]:
                yield [(Fraction(0), Fraction(b))], init, ["list", "from_snap", "tm_reseat", "tm_reseat_offsets"], None
        k = 0
        while k < N:
            ch = _random_list(rng, rng.choice([2, 48]))
            ch = ch[: rng.randrange(2, 5)]
            i = 0 if rng.random() < 0.2 else rng.randrange(1, len(ch))
            reps = 2 if rng.random() < 0.2 else 1
            extra = []
            for _ in range(reps):
                b = Fraction(rng.choice(POOL))
                while b == ch[i][1] or (extra and b == extra[-1][1]):
                    b = Fraction(rng.choice(POOL))
                extra.append((ch[i][0], b))
            ch = ch[: i + 1] + extra + ch[i + 1 :]
            if _family(ch) != "coincident_":
                continue
            k += 1
            yield ch, rng.choice(INITS_WIDE[:6]), None, None

    _drive(rep, gen(), 25, 200)


METROS_POW2 = [1, 2, 8, 16]
METROS_ODD = [3, 5, 6, 7, 9, 12]


def _metro_list(rng, mixed):
    """2..4 changes; gaps on the half-beat / 1/48 grids; the metronome changes only at a change that sits on a measure line."""
    n = rng.randrange(2, 5)
    den = rng.choice([2, 48])
    pool = METROS_POW2 + [4] if rng.random() < 0.5 else METROS_ODD + [4]
    metros = [rng.choice(pool)]
    pos, beat = [Fraction(0)], Fraction(0)
    for _ in range(n - 1):
        me = metros[-1]
        if rng.random() < 0.3:
            g = Fraction(rng.randrange(1, 4) * me) - beat if rng.random() < 0.5 else Fraction(rng.randrange(1, 4) * me)
        else:
            g = Fraction(rng.randrange(1, 8 * den + 1), den)
        if g <= 0:
            g = Fraction(me)
        pos.append(pos[-1] + g)
        beat = (beat + g) % me
        metros.append(rng.choice(pool) if (mixed and beat == 0) else me)
    return list(zip(pos, [Fraction(rng.choice(POOL)) for _ in range(n)])), metros


@bounded("C11", note="metronomes other than 4 (1, 2, 8, 16 and 3, 5, 6, 7, 9, 12 beats per measure), one per list or changing on a measure line")
def reseat_other_metronomes(rep):
    rng = rep.rng
    N = rep.n(2500, 25000)
    rep.bound = (
        f"all two-change lists [b0@0, 120@k half-beats], k = 1..24, b0 in {{60, 90, 130}}, metronome in {METROS_POW2 + METROS_ODD} + {N} seeded lists of 2..4 changes, gaps up to 8 beats on the half-beat and 1/48 grids "
        f"(3 in 10 gaps chosen to end on a measure line / to be whole measures), bpm from the pool; half the lists use power-of-two metronomes {METROS_POW2 + [4]}, half {METROS_ODD + [4]}; "
        f"in half of each the metronome may change at a change that sits on a measure line; initial offsets, shuffled order (half); all three entry points"
    )
    rep.rule = "a case is one tempo list with its metronome(s); non-trivial when some change is off a measure line"

    def gen():
        for me in METROS_POW2 + METROS_ODD:
            for b0 in (60, 90, 130):
                for k in range(1, 25):
                    yield [(Fraction(0), Fraction(b0)), (Fraction(k, 2), Fraction(120))], 0.0, None, None, dict(metro=me)
        for j in range(N):
            ch, metros = _metro_list(rng, mixed=j % 2 == 1)
            more = dict(metro=metros[0]) if len(set(metros)) == 1 else dict(metros=metros)
            yield ch, rng.choice(INITS), None, (_shuffled(rng, len(ch)) if rng.random() < 0.5 else None), more

    _drive(rep, gen(), 30, 300)


NUMS = ["fraction", "float", "int", "numpy", "unnormalised"]
LONG_MEASURES = [100, 257, 1000, 4096, 9999]


@bounded("C11", note="the same lists handed over as Fraction / float / int / numpy numbers and with beats exceeding the measure, through the class / an instance / defaulted and keyword arguments, TimingMap.reseat() also on maps made from ms offsets")
def reseat_number_types_and_entry_points(rep):
    rng = rep.rng
    N = rep.n(2000, 20000)
    rep.bound = (
        f"{N} seeded lists of 2..5 changes, gaps up to 8 beats on the half-beat, 1/64 (exact in floats) and 1/48 grids, bpm from the pool, metronome 4; numbers handed over as {NUMS} "
        f"(float / numpy only on the half-beat and 1/64 grids, where they denote the same positions), calling convention from {VIAS}, initial offset from {INITS_WIDE} (python int / float, numpy float64 in a fifth), "
        f"shuffled order (half), in 15 % of the lists one gap longer by {LONG_MEASURES} measures; list form, from_bpm_changes_snap(reseat=True), TimingMap.reseat() of a map made from snaps and of a map made from the ms offsets of the changes"
    )
    rep.rule = "a case is one tempo list + initial offset + number type + calling convention; non-trivial when some change is off a measure line"

    def gen():
        k = 0
        while k < N:
            num = rng.choice(NUMS)
            den = rng.choice([2, 64] if num in ("float", "numpy") else [2, 64, 48])
            ch = _random_list(rng, den)
            if rng.random() < 0.15:
                # one very long stretch: a later change thousands of measures on
                i = rng.randrange(0, len(ch) - 1)
                add = Fraction(METRO * rng.choice(LONG_MEASURES))
                ch = ch[: i + 1] + [(q + add, b) for q, b in ch[i + 1 :]]
            if _family(ch):
                continue
            k += 1
            more = dict(num=None if num == "fraction" else num, via=rng.choice(VIAS), init_np=True if rng.random() < 0.2 else None)
            if more["via"] == "class":
                more["via"] = None
            yield ch, rng.choice(INITS_WIDE), ["list", "from_snap", "tm_reseat", "tm_reseat_offsets"], (_shuffled(rng, len(ch)) if rng.random() < 0.5 else None), more

    _drive(rep, gen(), 30, 300)


@bounded("C11", note="call - legitimate change - call again: every entry point called on a list / map object, the object changed in place (a bpm assigned, a change appended, nothing, another list reseated in between), then called again - the result is that of the list as it is now")
def reseat_call_change_call_again(rep):
    rng = rep.rng
    N = rep.n(1500, 15000)
    rep.bound = (
        f"{N} seeded lists of 2..5 changes (as they are at the checked call), gaps up to 8 beats on the half-beat and 1/48 grids (a quarter whole measures), bpm from the pool, metronome 4, initial offset from {INITS}, "
        "shuffled order (half); history: 35 % the bpm field of one change (any; for TimingMap.reseat() in place only the last) assigned after the first calls, 35 % the last change appended after the first calls "
        "(to the list handed over / as a BpmChangeOffset to the map's own list), 15 % nothing changed (the same call twice on the same objects), 15 % another list (double tempo) reseated in between; "
        "list form, from_bpm_changes_snap(reseat=True), TimingMap.reseat(); where an earlier call changed the list it was given nothing is asserted"
    )
    rep.rule = "a case is one tempo list + initial offset + history; non-trivial when some change is off a measure line"

    def gen():
        k = 0
        while k < N:
            ch = _random_list(rng, rng.choice([2, 48]))
            if _family(ch):
                continue
            n = len(ch)
            r = rng.random()
            if r < 0.35:
                i = rng.randrange(n)
                old = rng.choice([b for b in POOL if Fraction(b) != ch[i][1]])
                hist = dict(edit="bpm", k=i, old_bpm=old)
            elif r < 0.7:
                hist = dict(edit="append")
            else:
                hist = dict(edit="none" if r < 0.85 else "other_list")
            order = None
            if rng.random() < 0.5:
                order = _shuffled(rng, n - 1) + [n - 1] if hist["edit"] == "append" else _shuffled(rng, n)
            k += 1
            yield ch, rng.choice(INITS), None, order, dict(history=hist)

    _drive(rep, gen(), 20, 200)


# ----------------------------------------------------------------------------- dimensions added after round 5

SIG_METROS = [1, 2, 3, 4, 5, 6, 7, 8, 9, 12]
# listed divisions of a map's OWN snapper (TimingMap.snapper, default Snapper()) and the beat grid its changes are put on: every
# position used is a multiple of 1/den with den one of the listed divisions, i.e. allowed under any reading of `divisions`
OWN_GRIDS = [
    ([1, 2, 3, 4], [2, 3, 4]),
    ([4, 3, 2, 1], [4, 3]),
    ([1, 2, 4, 8, 16], [2, 8, 16]),
    ([12], [12]),
    ([24], [24]),
    ([48], [48]),
    ([128], [128]),
    ([192], [192]),
    ([64, 192], [64, 192]),
    ([144], [144]),
    (list(range(1, 129)), [128, 100, 125, 7]),
]


def _run_offset_map_case(case):
    """TimingMap.reseat() of a map made from the MILLISECOND positions of the changes (offset -> snap route).

    case: changes=[[position in beats from the first change, bpm]], metros=[beats per measure of every change], init, order?,
    map_divisions? (the map's own snapper), map_snapper_via? (ctor | field).  The ms position of a change is fixed by the bpms and the
    beat distances alone (t_{i+1} = t_i + (p_{i+1}-p_i) * 60000 / b_i), whatever the beats per measure are.

    `sig_mid_measure` (a change of beats per measure at a change that does not sit on a measure line of the signature in force before
    it): which beat of which measure such a change is, is not stated; only clauses that do not need it are compared, under ids of their own
    (sig_mid_measure_<clause>):
      no_exception, original_time_is_tempo_point, at_most_one_extra_per_interval (counted in ms between the original times),
      on_measure_line (of the RESULT: every returned stretch is a whole number >= 1 of the returned point's own measures).
    Otherwise (signature changes only on measure lines / none, own snapper coarser or finer than the default with every change on the
    map's own grid) all tm_ clauses of `_run_case` apply; they carry the prefix own_grid_ when the map has a snapper of its own.
    """
    from reamber.algorithms.timing.TimingMap import TimingMap
    from reamber.algorithms.timing.utils.BpmChangeOffset import BpmChangeOffset
    from reamber.algorithms.timing.utils.Snapper import Snapper

    prev = logging.root.manager.disable
    logging.disable(logging.WARNING)
    try:
        changes = [(Fraction(p), Fraction(b)) for p, b in case["changes"]]
        metros = [int(m) for m in case["metros"]]
        n = len(changes)
        init = case.get("init", 0.0)
        t = _orig_times(changes)
        mid = _sig_change_mid_measure(changes, metros)
        prefix = "sig_mid_measure_" if mid else ("own_grid_" if case.get("map_divisions") else "")
        fam = "" if mid else _family(changes, metros)
        failed = []
        bco_in = [BpmChangeOffset(float(b), me, float(_F(init) + ti)) for (_, b), me, ti in zip(changes, metros, t)]
        ctor = bool(case.get("map_divisions")) and case.get("map_snapper_via") != "field"
        if case.get("order") and not ctor:
            # (the dataclass constructor is handed the list in time order: only the factory is documented to sort)
            bco_in = [bco_in[i] for i in case["order"]]
        try:
            if case.get("map_divisions"):
                sn = Snapper(divisions=list(case["map_divisions"]))
                if case.get("map_snapper_via") == "field":
                    tm0 = TimingMap.from_bpm_changes_offset(bco_in)
                    tm0.snapper = sn
                else:
                    tm0 = TimingMap(bpm_changes_offset=bco_in, snapper=sn)
            else:
                tm0 = TimingMap.from_bpm_changes_offset(bco_in)
            tm1 = tm0.reseat()
            bco = sorted(tm1.bpm_changes_offset, key=lambda b: b.offset)
        except Exception as ex:  # noqa
            return [(prefix + fam + "no_exception", f"TimingMap.reseat() of a map made from offsets raised {type(ex).__name__}: {ex}")]
        T = [_F(b.offset) - _F(init) for b in bco]
        bpms = [b.bpm for b in bco]
        coincident = any(_close(a, b) for a, b in zip(t[:-1], t[1:]))
        for j in range(len(bco) - 1):
            ml = _F(bco[j].metronome) * 60000 / _F(bco[j].bpm)
            k = (T[j + 1] - T[j]) / ml
            if coincident and abs(k) * ml <= TOL_MS:
                continue
            if abs(k - round(k)) * ml > TOL_MS or round(k) < 1:
                failed.append(("tm_on_measure_line", f"point {j + 1} at {float(T[j + 1])} ms is {float(k)} measures ({bco[j].metronome} beats at {bco[j].bpm} bpm) after point {j}"))
                break
        if mid:
            for i in range(n):
                if not any(_close(x, t[i]) for x in T):
                    failed.append(("tm_original_time_is_tempo_point", f"change {i} at {float(t[i])} ms is not among returned times {[float(x) for x in T]}"))
                    break
            for i in range(n - 1):
                inside = [x for x in T if t[i] + TOL_MS < x < t[i + 1] - TOL_MS]
                if len(inside) > 1:
                    failed.append(("tm_at_most_one_extra_per_interval", f"{len(inside)} points strictly between change {i} and {i + 1}: {[float(x) for x in inside]}"))
                    break
            outside = [x for x in T if x < t[0] - TOL_MS or x > t[-1] + TOL_MS]
            if outside:
                failed.append(("tm_at_most_one_extra_per_interval", f"points outside the original span: {[float(x) for x in outside]}"))
        else:
            _check_points("tm_", changes, t, T, bpms, failed, metros)
        seen, uniq = set(), []
        for w, d in failed:
            w = prefix + fam + w
            if w not in seen:
                seen.add(w)
                uniq.append((w, d))
        return uniq
    finally:
        logging.disable(prev)


def _sig_change_mid_measure(changes, metros):
    """some change switches the beats per measure while NOT sitting on a measure line of the signature in force before it (measure
    lines counted from the last change that sat on one; after a mid-measure switch nothing further is claimed: True)"""
    beat = Fraction(0)
    for i in range(1, len(changes)):
        beat = (beat + (changes[i][0] - changes[i - 1][0])) % metros[i - 1]
        if metros[i] != metros[i - 1] and beat != 0:
            return True
    return False


@bounded("C11", note="TimingMap.reseat() of maps made from ms offsets: beats per measure changing at a change in the middle of a measure (also to fewer beats than the beat index it sits on), other metronomes, and maps with a snapper of their own (coarser / finer than the default) whose changes lie on that snapper's grid only")
def reseat_offset_maps_signatures_and_own_grids(rep):
    rng = rep.rng
    N = rep.n(1500, 24000)
    rep.bound = (
        f"all maps [120 bpm m0/4 @ start, 150 bpm m1/4 @ k half-beats, 100 bpm m1/4 3 measures later], (m0, m1) in [(4,3),(4,2),(5,3),(5,4),(3,4),(4,5),(6,4),(8,3),(7,2),(2,1)], k = 1..6*m0, start in {{0, -730}} ms + "
        f"{N} seeded maps of 2..4 changes given in ms: 50 % beats per measure drawn per change from {SIG_METROS} (gaps up to 8 beats on the half-, quarter- and 1/48-beat grids; 3 in 10 gaps whole measures of the signature before), "
        f"15 % one signature other than 4/4, 35 % a snapper of the map's own from {[g if len(g) < 10 else '1..' + str(max(g)) for g, _ in OWN_GRIDS]} (constructor argument or field assigned) with every change on a position only that grid's listed divisions allow "
        f"(1/3, 1/12, 1/24, 1/128, 1/144, 1/192, 1/125 ... beat); bpm from the pool, initial offsets {INITS}, list handed over shuffled (half); clauses sig_mid_measure_* where the signature changes in mid-measure, the full tm_ set otherwise"
    )
    rep.rule = "a case is one tempo list in ms with its beats per measure (+ the map's own snapper); non-trivial when some change is off a measure line"

    def one(case):
        ch = [(Fraction(p), Fraction(b)) for p, b in case["changes"]]
        me = case["metros"]
        beat, off = Fraction(0), False
        for i in range(1, len(ch)):
            beat = (beat + ch[i][0] - ch[i - 1][0]) % me[i - 1]
            off = off or beat != 0
        rep.case(case, nontrivial=off)
        kind = "sig_mid_measure" if _sig_change_mid_measure(ch, me) else ("own_grid" if case.get("map_divisions") else "signatures_on_measure_lines")
        cnt = rep.extra.setdefault("classes", {})
        cnt[kind] = cnt.get(kind, 0) + 1
        for what, d in _run_offset_map_case(case):
            rep.fail(what, case, d)

    for start in (0.0, -730.0):
        for m0, m1 in ((4, 3), (4, 2), (5, 3), (5, 4), (3, 4), (4, 5), (6, 4), (8, 3), (7, 2), (2, 1)):
            for k in range(1, 6 * m0 + 1):
                if rep.out_of_time(30, 300):
                    return
                p1 = Fraction(k, 2)
                one(dict(changes=[["0", "120"], [str(p1), "150"], [str(p1 + 3 * m1), "100"]], metros=[m0, m1, m1], init=start))
    for _ in range(N):
        if rep.out_of_time(30, 300):
            break
        n = rng.randrange(2, 5)
        r = rng.random()
        more = {}
        if r < 0.65:
            den = rng.choice([2, 2, 4, 48])
            if r < 0.5:
                metros = [rng.choice(SIG_METROS) for _ in range(n)]
            else:
                metros = [rng.choice([m for m in SIG_METROS if m != 4])] * n
            dens = [den]
        else:
            divs, dens = rng.choice(OWN_GRIDS)
            metros = [rng.choice([4, 4, 3, 8])] * n
            more = dict(map_divisions=list(divs), map_snapper_via=rng.choice(["ctor", "field"]))
        pos = [Fraction(0)]
        for i in range(n - 1):
            if rng.random() < 0.3:
                g = Fraction(rng.randrange(1, 4) * metros[i])
            else:
                d = rng.choice(dens)
                g = Fraction(rng.randrange(1, 8 * d + 1), d)
            pos.append(pos[-1] + g)
        ch = list(zip(pos, [Fraction(rng.choice(POOL)) for _ in range(n)]))
        if not _sig_change_mid_measure(ch, metros) and _family(ch, metros) not in ("", "other_metronome_"):
            continue
        case = dict(changes=[[str(p), str(b)] for p, b in ch], metros=metros, init=rng.choice(INITS), **more)
        if rng.random() < 0.5:
            case["order"] = _shuffled(rng, n)
        one(case)


@replayer("reseat_offset_maps_signatures_and_own_grids")
def _replay_offset_map(case, what):
    hit = [d for w, d in _run_offset_map_case(case) if w == what]
    return (bool(hit), hit[0] if hit else "passes")


def _replay(case, what):
    failed = _run_case(case)
    hit = [d for w, d in failed if w == what]
    return (bool(hit), hit[0] if hit else "passes")


for _n in (
    "reseat_half_beat_grid_2_3",
    "reseat_half_beat_grid_4",
    "reseat_random_fine_grids",
    "reseat_tiny_gaps",
    "reseat_near_beat_gaps",
    "reseat_hair_after_measure_line",
    "reseat_single_and_coincident",
    "reseat_other_metronomes",
    "reseat_number_types_and_entry_points",
    "reseat_call_change_call_again",
):
    replayer(_n)(_replay)
