"""C09 - read -> convert -> write yields a valid target file with the source's timeline: bounded stand-in.

One case = one generated SOURCE FILE (osu / Quaver / StepMania / BMS / O2Jam) and one TARGET game.  The REAL
reader, the REAL `<Src>To<Tgt>.convert` and the REAL writer are run; the written text is parsed by the TARGET
format's independent interpreter and compared with the SOURCE format's independent interpreter applied to the
source file.  The interpreters are the ones of the source-format properties and are imported, not rewritten:
`den_osu` (C01), `den_sm` (C02), `den_bms` (C04), `den_qua` / `wf_qua` (C06), `den_ojn` (C07); the source files are
emitted by those properties' own emitters (`emit_text`, `render`, `render`, `emit_doc`, `build_ojn`).

Clause ids (`what`), `<Src>To<Tgt>` one of the 16 converter names (OsuToQua ... O2JToBMS):
  <Src>To<Tgt>.no_exception     read, convert and write all return (the detail names the stage that raised)
  <Src>To<Tgt>.valid            the written text is valid in the target format (the target oracle's own validity /
                                problems report: den_osu accepts + v14 header, sections, Mode 3; wf_qua clean + Mode
                                Keys4/Keys7 + lanes inside the mode; den_sm accepts, no `problems`, no stops, one
                                chart; BMS line syntax + den_bms without problems / bad lines)
  <Src>To<Tgt>.objects          the same number of objects, each of the same kind (hit / hold) at the same start time
  <Src>To<Tgt>.columns          ... and in the same column (reported when the objects match once columns are ignored)
  <Src>To<Tgt>.hold_lengths     every hold ends at the same time (start + length)
  <Src>To<Tgt>.tempo_timeline   time -> active bpm is the same step function from the source's first tempo point
                                up to the end of its last object
  <Src>To<Tgt>.declared_key_count   ONE id for one root cause: files whose top column holds no object (the file still
                                declares its key count: CircleSize / Mode / chart type / OJN = 7) report this clause,
                                whatever base clause broke; not generated for BMS sources (a BMS text declares none)
  <Src>To<Tgt>.sv_before_first_tempo_point   ONE id for one root cause: start_offset (below) on a file with a scroll-velocity point
                                before its first tempo point, when the same file without those points has no start_offset failure
  <Src>To<Tgt>.start_offset     ONE id for one root cause: the three clauses above fail, but hold again after moving
                                the whole written timeline by one constant (the detail gives it); only then, and
                                instead of them

Tolerances (the statement: "to within the coarser of the two formats' time resolutions"), see `_res_ms`:
  osu, Quaver  : times are written truncated to whole ms          -> strictly less than 1 ms
  StepMania    : 1/96 beat at the local tempo (the .sm row grid)  -> 60000 / bpm / 96 ms
  BMS          : 1/192 beat at the local tempo                    -> 60000 / bpm / 192 ms
  O2Jam        : source only; positions are exact rationals of a measure -> contributes nothing
  a pair's tolerance at time t is the LARGER of the two, at the slower of the tempos active just before / at t.
  bpm values: 1e-9 relative; 0.0005 absolute when the target is BMS (#BPMxx is printed with 3 decimals, C05).
BMS has no offset field (time 0 IS the first measure line): for a BMS target the source's times are taken relative
to the source's first tempo point.  O2JToBMS.convert has the documented default move_right_by=1 (lane 0 is the
scratch lane): with the default call the expected column is source column + 1; the other cases pass 0 or 2.

Input dimensions of a case besides the score (all optional in the JSON `case`; absent = the plain call):
  shape            how the objects of the charts were drawn (plain | hits_only | holds_only | top_holds_only | chords |
                   on_lines | empty_chart); the objects themselves are in score.charts, the key is informative
  tps_shuffled     osu / Quaver: timing points (and the SV line) written in shuffled file order
  text             metadata text drawn from another pool than plain ASCII: sjis (full-width, U+3000) | unicode (accents,
                   Hangul, emoji, tab / U+00A0 / U+3000 inside, wave dash; not into / out of BMS) | punct (':' ',' '#' '/' '"' '\\'; never ';' or '//')
  sparse           Quaver: keys the format allows to be omitted are omitted (StartTime 0, KeySounds, meta keys), record
                   keys in shuffled order
  via.read         lines (default) | str | instance | keepends | unsafe (Quaver safe=False) | default_layout / positional
                   (BMS) | file / file_path (read_file with a str / a pathlib.Path; text files LF or CRLF: via.eol)
  via.conv         class (default) | instance
  via.raise_bad_mode   OsuToQua / OsuToSM / BMSToQua / SMToQua: the optional argument given (False / True)
  via.pre          another target the SAME read object is converted to and written first (result thrown away)
  via.twice        convert + write run twice on the same read object; the SECOND output is the one compared
  via.write        memory (default) | file (write_file, the file's content is what is compared)
  via.nsd          BMS target: the writer's no_sample_default argument (non-default id)
  via.default_out  BMS target in the BME layout: note_channel_config left to its documented default
  via.rewrite      1 | 2: the SAME converted chart is written that many further times (write() <-> write_file() alternating,
                   a further write_file goes to a path that holds the previous output); EVERY output is compared with the
                   source, the later ones tagged "write #k of the same converted chart"
  via.over         write_file: the path already holds ANOTHER file: longer (300 KB of lines in the target format) | shorter
                   (3 bytes); the file afterwards must denote exactly the chart written last
  via.read_prev    read_file: the path was used before - it held another (small, valid) file of the same format, which was
                   read from it with the same entry point, then the file was replaced by the source under test
  via.before       another (small, valid) file of the same source format goes through read -> convert -> write first (its
                   objects are thrown away): charts share no state
  via.edit         call - legitimate change - call again.  The read object is converted and written, then the SAME object is
                   changed through public operations, then it is converted and written again; the second output must be
                   what the statement says for the chart as it is now.  ["shift", d, how] (sources with an offset field:
                   osu, Quaver, .sm): every time + d ms - how = lists: `lst.offset += d` on every list of every chart |
                   stack: `chart.stack().offset += d` -; expected: the source's timeline moved by d (for a BMS target, which
                   has no offset field, the unmoved one).  ["swap", how] (every source): the objects of the highest and of
                   the lowest used column of every chart change places - lists: `lst.column = lst.column.replace({a: b,
                   b: a})` on the note lists | stack: the same on `chart.stack().column` -; expected: the source's objects
                   with these two columns exchanged (the set of used columns, hence any inferred key count, is unchanged)
  move_right_by    also NEGATIVE (-1, -2: OsuToBMS / QuaToBMS / O2JToBMS) on files whose lowest columns hold no object
Dimensions 14 / 16 / 17 / 18 (all optional keys; every one is a function of the case drawn before, see `_add_dims`):
  svs              osu / Quaver (17): further scroll-velocity points [[beat, multiplier]] - BEFORE the first tempo point (beat < 0), ON
                   it (beat 0), on a tempo change, after the last object and tempo point; osu: the [TimingPoints] lines then in time
                   order unless tps_shuffled.  Scroll velocities are no part of what is compared: the written timeline must be the
                   source's whatever kind of object comes first in the file / in time
  early_samples    osu (17): storyboard sample events before the first tempo point
  rich             (14) every column of every record non-default and different from its siblings: osu y, hit sound, the four
                   hit-sample numbers and the file name of every object, sample set / index / volume of every timing point;
                   Quaver HitSound / EditorLayer on every record; .sm every header tag present with its own text incl.
                   #BGCHANGES / #FGCHANGES / #DISPLAYBPM; BMS #GENRE / #SUBTITLE / #STAGEFILE ... given
  bgm              BMS source (17): the first data line is a BGM sample line (channel 01) on the first measure line, another one
                   two measures after the last line
  lnobj            BMS source (16): absent = `#LNOBJ ZZ` as before; null = NO #LNOBJ header (charts without holds) while id ZZ
                   is an ordinary sample of some hits; another id (ZY / 02 / AA) ends the long notes while ZZ is an ordinary sample
  fine             (18) a part of the objects moved to whole beat + k/q, q from 32, 64, 96, 5, 7, 9 (the default 1..96 snap grid, not
                   the 1/48-beat grid; .sm sources only where every measure still fits 192 rows)
"""
from __future__ import annotations

import random
import re
from fractions import Fraction
from math import gcd

from pyvc.bounded import replayer
from pyvc.dsl import bounded

from contracts.C01_bounded import DenError as OsuDenError
from contracts.C01_bounded import _quiet, _x_in_column, den_osu, emit_text
from contracts.C02_bounded import SM_KEYS, SMFormatError, dec_str, den_sm
from contracts.C02_bounded import render as sm_render
from contracts.C04_bounded import den_bms, layout_of, note_lanes
from contracts.C04_bounded import render as bms_render
from contracts.C05_bounded import _DATA_LINE, _HEADER_LINE
from contracts.C06_bounded import META_KEYS as QUA_META_KEYS
from contracts.C06_bounded import TEXT_KEYS as QUA_TEXT_KEYS
from contracts.C06_bounded import INT_KEYS as QUA_INT_KEYS
from contracts.C06_bounded import BOOL_KEYS as QUA_BOOL_KEYS
from contracts.C06_bounded import NUM_KEYS as QUA_NUM_KEYS
from contracts.C06_bounded import _yaml_load, den_qua, emit_doc, wf_qua
from contracts.C07_bounded import PLAIN_HEADER, _pos_pkgs, _selfcheck, build_ojn, den_ojn

# ============================================================================= vocabulary

NAME = dict(osu="Osu", qua="Qua", sm="SM", bms="BMS", o2j="O2J")
TARGETS = dict(osu=("qua", "sm", "bms"), qua=("osu", "sm", "bms"), sm=("osu", "qua", "bms"), bms=("osu", "qua", "sm"), o2j=("osu", "qua", "sm", "bms"))
PAIRS = [(s, t) for s in TARGETS for t in TARGETS[s]]
assert len(PAIRS) == 16

# key counts a game can express (the quantifier: "key counts the target supports")
QUA_KEYCOUNTS = (4, 7)  # Keys4 / Keys7
SM_TYPE = {3: "dance-threepanel", 4: "dance-single", 6: "dance-solo", 7: "kb7-single", 8: "dance-double"}  # chart type by key count
assert all(SM_KEYS[v] == k for k, v in SM_TYPE.items())
BMS_LANES = dict(PMS_5B=5, PMS=9, BMS=14, BME=16, PMS_BME=18)  # lanes 0..n-1 of each channel layout
# every value: at most 3 decimals (BMS #BPMxx precision) and exactly representable as float32 (OJN tempo fields)
BPM_POOL = ("60", "90", "120", "125", "150", "177.5", "200", "240", "90.25", "133.125")
BPM_EDGE = ("255", "30", "999.5")  # 255 = the largest tempo BMS channel 03 (two hex digits) can say; a slow and a fast one (float32-exact as the pool)
T0_POOL = (0, 0, 0, 500, 1118, -635, 2250, 9)  # ms position of beat 0 (formats with an offset: osu, Quaver, .sm)
T0_FAR = (-50000, 123456, 3600000)  # a long way from 0 ms, both sides (5 % of the files with an offset)
SHAPES = ("hits_only", "holds_only", "top_holds_only", "chords", "on_lines", "empty_chart")
DENS = (1, 2, 3, 4, 6, 8, 12, 16, 24, 48)  # object positions k/d of a beat: the 1/48-beat grid
HOLD_BEATS = ("1/4", "1/2", "3/4", "1", "4/3", "2", "5/2", "4", "6", "1/48", "49/48")
MIN_GAP = Fraction(1, 4)  # beats between the end of an object and the next object of its column
ASCII_TEXT = ("song", "artist name", "Evening", "Hard", "mapper", "v1 (final)", "a b  c", "x-y_z")
# metadata text is no part of what is compared; it must not break reading, converting or the validity of the written file
TEXT_POOLS = dict(
    sjis=("\u66f2\u540d", "\u30a2\u30fc\u30c6\u30a3\u30b9\u30c8\u3000\u540d", "\uff46\uff55\uff4c\uff4c\u3000\uff57\uff49\uff44\uff54\uff48", "song"),  # Shift-JIS encodable, full-width letters, U+3000
    unicode=("na\u00efve caf\u00e9", "\u03a9\u2248\u00e7 \u221a2", "\ud55c\uad6d\uc5b4 \uc81c\ubaa9", "emoji \U0001f3b5 title", "tab\there", "nbsp\u00a0in", "ideo\u3000space", "\u66f2\u540d\uff5e"),
    punct=("a: b", "x, y", "tag #1", "see / this", 'q"uote', "back\\slash", "- dash", "[x]", "{y}", "k: v: w"),  # no ';' (ends a .sm tag), no '//' (starts a .sm comment)
)
assert all(t.encode("shift_jis") for t in TEXT_POOLS["sjis"])


def _texts(case):
    return TEXT_POOLS.get(case.get("text"), ASCII_TEXT)


def _keys_for(src, tgt):
    """Key counts inside BOTH the source format's and the target format's range."""
    if src == "o2j":
        return (7,)
    if src == "qua":
        # (26) a Quaver SOURCE may also declare Keys8 (the mode the library lists as "not officially supported yet" but reads); only towards osu,
        # whose key count is free - no target of the suite is asked to WRITE Keys8
        return QUA_KEYCOUNTS + ((8,) if tgt == "osu" else ())
    if tgt == "qua":
        return QUA_KEYCOUNTS
    if src == "sm" or tgt == "sm":
        return tuple(SM_TYPE)
    return (1, 2, 3, 4, 5, 6, 7, 8, 9, 10)  # osu <-> BMS


def _layout_for(rng, n_columns):
    return rng.choice([n for n, lanes in BMS_LANES.items() if lanes >= n_columns])


# ============================================================================= the score (what a source file is made from)


class Score:
    """Exact view of a score: beat 0 at t0 ms, 4/4, tempo changes on measure lines."""

    def __init__(self, sc):
        self.t0 = Fraction(sc["t0"])
        self.tempo = [(Fraction(4 * m), Fraction(b)) for m, b in sc["tempo"]]

    def ms(self, beat):
        t = self.t0
        for i, (b0, v) in enumerate(self.tempo):
            b1 = self.tempo[i + 1][0] if i + 1 < len(self.tempo) else None
            if b1 is None or beat < b1:
                return t + (beat - b0) * 60000 / v
            t += (b1 - b0) * 60000 / v
        raise AssertionError

    def intended(self, chart):
        """What a file made from this score must denote: objects [(kind, column, start, end)], tempo [(ms, bpm)]."""
        objs = []
        for c, b, ln in chart["objs"]:
            b, ln = Fraction(b), Fraction(ln)
            objs.append(("hold" if ln else "hit", c, self.ms(b), self.ms(b + ln)))
        return dict(objs=objs, tempo=[(self.ms(b), v) for b, v in self.tempo])


def gen_objs(rng, keys, n_meas, top_used=True, shape=None, lines=()):
    """Objects of one chart: per column a time-ordered, non-overlapping sequence on the 1/48-beat grid.  top_used:
    the top column holds an object (the plain family); otherwise it stays empty (family `declared_key_count`).
    shape: None = hits and holds anywhere; hits_only / holds_only; top_holds_only (the top column carries holds only);
    chords (every object has a partner at exactly the same beat in another column); on_lines (positions are beat 0,
    measure lines and the beats of the tempo changes `lines`); empty_chart (no object at all)."""
    if shape == "empty_chart":
        return dict(keys=keys, objs=[])
    if shape == "chords" and keys >= 2:
        objs, free = [], {}
        beats = sorted({Fraction(rng.randrange(0, 4 * n_meas * d), d) for d in (rng.choice(DENS) for _ in range(rng.randrange(1, 5)))} | ({Fraction(0)} if rng.random() < 0.3 else set()))
        for p in beats:
            cols = rng.sample(range(keys), rng.randrange(2, min(keys, 4) + 1))
            if top_used and not objs:
                cols = sorted(set(cols) | {keys - 1})
            elif not top_used:
                cols = [c for c in cols if c != keys - 1] or [0]
            for c in cols:
                if p < free.get(c, 0):
                    continue
                ln = Fraction(rng.choice(HOLD_BEATS)) if rng.random() < 0.4 else Fraction(0)
                objs.append([c, str(p), str(ln)])
                free[c] = p + ln + MIN_GAP
        rng.shuffle(objs)
        return dict(keys=keys, objs=objs)
    if top_used or keys == 1:
        cols = sorted(set(rng.sample(range(keys), rng.randrange(1, min(keys, 5) + 1))) | {keys - 1})
    else:
        cols = sorted(rng.sample(range(keys - 1), rng.randrange(1, min(keys - 1, 5) + 1)))
    objs = []
    for c in cols:
        cand = []
        for _ in range(rng.randrange(1, 5)):
            d = rng.choice(DENS)
            cand.append(Fraction(rng.randrange(0, 4 * n_meas * d), d))
        if shape == "on_lines":
            pool = [Fraction(0)] + [Fraction(4 * m) for m in range(n_meas)] + [Fraction(4 * m) for m in lines] * 3
            cand = [rng.choice(pool) for _ in cand]
        free = Fraction(0)
        for p in sorted(set(cand)):
            if p < free:
                continue
            ln = Fraction(rng.choice(HOLD_BEATS)) if rng.random() < 0.4 else Fraction(0)
            if shape == "hits_only" or (shape == "top_holds_only" and c != keys - 1 and rng.random() < 0.7):
                ln = Fraction(0)
            elif (shape == "holds_only" or (shape == "top_holds_only" and c == keys - 1)) and not ln:
                ln = Fraction(rng.choice(HOLD_BEATS))
            objs.append([c, str(p), str(ln)])
            free = p + ln + MIN_GAP
    rng.shuffle(objs)
    return dict(keys=keys, objs=objs)


def gen_score(rng, keys_per_chart, with_t0, top_used=True, shape=None, edge_bpm=False):
    n_meas = rng.randrange(2, 7) if rng.random() < 0.92 else rng.randrange(20, 61)  # a few long scores
    n_t = min(rng.choice((1, 2, 2, 3, 4)), n_meas)
    at = [0] + sorted(rng.sample(range(1, n_meas), n_t - 1))
    tempo, prev = [], None
    for m in at:
        v = rng.choice([b for b in BPM_POOL if b != prev or rng.random() < 0.15])  # sometimes a redundant tempo point
        if edge_bpm and rng.random() < 0.5:
            v = rng.choice([b for b in BPM_EDGE if b != prev])
        tempo.append([m, v])
        prev = v
    if shape is None:
        charts = [gen_objs(rng, k, n_meas, top_used) for k in keys_per_chart]
    else:
        # a set of several charts: the shape goes to ONE chart - the middle one where there are three - the others are plain
        who = len(keys_per_chart) // 2 if shape == "empty_chart" else rng.randrange(len(keys_per_chart))
        charts = [gen_objs(rng, k, n_meas, top_used, shape if i == who or shape != "empty_chart" and rng.random() < 0.5 else None, at[1:]) for i, k in enumerate(keys_per_chart)]
    t0 = (rng.choice(T0_FAR) if shape is not None and rng.random() < 0.15 else rng.choice(T0_POOL)) if with_t0 else 0
    return dict(t0=t0, tempo=tempo, charts=charts)


def gen_case(rng, src, tgt):
    keys = _keys_for(src, tgt)
    k = rng.choice(keys)
    n_charts = 3 if src == "o2j" else rng.choice((1, 1, 2)) if src == "sm" else 1
    top_used = src == "bms" or rng.random() >= 0.1  # a BMS text declares no key count: highest used lane + 1 IS its key count
    shape = rng.choice(SHAPES) if rng.random() < 0.35 else None
    if shape == "empty_chart" and (src == "bms" or rng.random() < 0.5):
        shape = "hits_only"  # an empty BMS text declares no key count at all; elsewhere empty charts stay a small share
    if shape == "empty_chart" and src == "sm":
        n_charts = 3
    score = gen_score(rng, [k] + [rng.choice(keys) for _ in range(n_charts - 1)], with_t0=src in ("osu", "qua", "sm"), top_used=top_used, shape=shape, edge_bpm=rng.random() < 0.1)
    case = dict(src=src, tgt=tgt, seed=rng.randrange(1 << 30), score=score)
    if shape:
        case["shape"] = shape
    if src in ("osu", "qua"):
        case["int_ms"] = rng.random() < 0.5  # object times written as whole ms (as the editors do) / exact decimals
        if rng.random() < 0.3:
            case["tps_shuffled"] = True
    if src == "qua" and rng.random() < 0.4:
        case["sparse"] = True
    if src != "o2j" and rng.random() < 0.25:
        # BMS texts are Shift-JIS: into / out of BMS only what that encoding has
        case["text"] = rng.choice(("sjis", "punct") if "bms" in (src, tgt) else ("sjis", "unicode", "punct"))
    shift = 0
    if (src, tgt) == ("o2j", "bms"):
        case["move_right_by"] = rng.choice((None, None, 0, 0, 2))  # None: the default call
        shift = 1 if case["move_right_by"] is None else case["move_right_by"]
    elif src in ("osu", "qua") and tgt == "bms" and rng.random() < 0.3:
        case["move_right_by"] = rng.choice((1, 1, 2))  # the explicit shift argument of OsuToBMS / QuaToBMS (default 0)
        shift = case["move_right_by"]
    if src in ("osu", "qua", "o2j") and tgt == "bms" and rng.random() < 0.15:
        # the shift argument is an int: negative values too, on files whose lowest column(s) hold no object
        down = _free_low_columns(rng, score)
        if down:
            case["move_right_by"] = shift = -down
    kmax = max(c["keys"] for c in score["charts"])
    if src == "bms":
        case["layout"] = _layout_for(rng, kmax)
    if tgt == "bms":
        case["out_layout"] = _layout_for(rng, kmax + shift)
    via = gen_via(rng, case)
    if via:
        case["via"] = via
    _add_dims(case)
    return case


FINE_Q = (32, 64, 96, 5, 7, 9)
SV_MULT = (0.5, 2.0, 1.25, 0.75)


def _add_dims(case):
    """Dimensions 14 / 16 / 17 / 18 on top of the case; every choice is a function of the case drawn from rep.rng (a stream
    of its own seeded with the case), so the cases of earlier versions of the generator stay what they were."""
    import json

    sub = random.Random("dims14-18 " + json.dumps(case, sort_keys=True))
    src, score = case["src"], case["score"]
    end = max([Fraction(4 * score["tempo"][-1][0])] + [Fraction(o[1]) + Fraction(o[2]) for ch in score["charts"] for o in ch["objs"]])
    if src in ("osu", "qua") and sub.random() < 0.35:
        # 17: the first object of the file / the timeline is a scroll-velocity point, not a tempo point
        pool = ["-3/2", "-1/48", "-16", "0", str(Fraction(4 * score["tempo"][-1][0])), str(end + 3)]
        first = sub.choice(("-3/2", "-1/48", "-16", "-5/4", "0"))
        more = sub.sample(pool, sub.randrange(0, 3))
        case["svs"] = [[b, sub.choice(SV_MULT)] for b in dict.fromkeys([first] + more)]
        if src == "osu" and sub.random() < 0.4:
            case["early_samples"] = sub.choice((1, 2))
    if sub.random() < 0.2:
        case["rich"] = True
    if src == "bms" and sub.random() < 0.3:
        holds = any(Fraction(o[2]) for ch in score["charts"] for o in ch["objs"])
        case["lnobj"] = sub.choice(("ZY", "02", "AA")) if holds or sub.random() < 0.3 else None
    if src == "bms" and sub.random() < 0.3:
        case["bgm"] = True
    if sub.random() < 0.2:
        _fine_positions(sub, case)


def _fine_positions(sub, case):
    """18: objects moved (inside their beat, keeping MIN_GAP to the neighbours of their column) to whole beat + k/q, q from FINE_Q."""
    import copy

    score = case["score"]
    charts = copy.deepcopy(score["charts"])
    moved = 0
    for ch in charts:
        by_col = {}
        for o in ch["objs"]:
            by_col.setdefault(o[0], []).append(o)
        for col in by_col.values():
            col.sort(key=lambda o: Fraction(o[1]))
            for i, o in enumerate(col):
                if sub.random() < 0.4:
                    continue
                p, ln = Fraction(o[1]), Fraction(o[2])
                q = sub.choice(FINE_Q)
                p2 = p.__floor__() + Fraction(sub.randrange(1, q), q)
                lo = Fraction(col[i - 1][1]) + Fraction(col[i - 1][2]) + MIN_GAP if i else Fraction(0)
                hi = Fraction(col[i + 1][1]) - MIN_GAP if i + 1 < len(col) else None
                if p2 >= lo and (hi is None or p2 + ln <= hi):
                    o[1] = str(p2)
                    moved += 1
    if case["src"] == "sm":
        for ch in charts:
            for by_pos in _measures_of(ch, "123").values():
                R = 4
                for pos in by_pos:
                    R = _lcm(R, pos.denominator)
                if R > 192:
                    return  # an .sm measure has at most 192 rows
    if moved:
        score["charts"] = charts
        case["fine"] = moved


def _free_low_columns(rng, score):
    """Empties the lowest 1-2 columns of every chart of the score (in place) where that leaves the top column's objects
    alone; -> how many columns are free at the bottom of EVERY chart afterwards (0: nothing was changed)."""
    n = rng.choice((1, 1, 2))
    if any(ch["keys"] - 1 < n or not any(o[0] >= n for o in ch["objs"]) for ch in score["charts"]):
        return 0
    for ch in score["charts"]:
        ch["objs"] = [o for o in ch["objs"] if o[0] >= n]
    return n


def gen_via(rng, case):
    """How the three public calls are made (see the module docstring); {} = the plain in-memory calls."""
    src, tgt = case["src"], case["tgt"]
    via = {}
    if rng.random() < 0.4:
        ways = dict(osu=["instance", "keepends", "file", "file_path"], qua=["str", "unsafe", "instance", "file", "file_path"], sm=["str", "instance", "file", "file_path"],
                    bms=["positional", "instance", "file", "file_path"] + (["default_layout"] * 2 if case.get("layout") == "BME" else []), o2j=["instance", "file", "file_path"])[src]
        via["read"] = rng.choice(ways)
        if via["read"].startswith("file") and src in ("qua", "sm"):
            via["eol"] = rng.choice(("lf", "crlf"))
    if rng.random() < 0.2:
        via["conv"] = "instance"
    if (src, tgt) in RAISE_BAD_MODE and rng.random() < 0.3:
        via["raise_bad_mode"] = rng.choice((False, False, True))
    r = rng.random()
    if r < 0.1:
        via["pre"] = rng.choice([t for t in TARGETS[src] if t != tgt])
    elif r < 0.2:
        via["twice"] = True
    elif r < 0.28:
        via["before"] = True
    elif r < 0.36:
        how = rng.choice(("lists", "stack"))
        via["edit"] = ["shift", rng.choice((250, 1000, -125, 3)), how] if src in ("osu", "qua", "sm") and rng.random() < 0.6 else ["swap", how]
    if rng.random() < 0.25:
        via["write"] = "file"
        if rng.random() < 0.5:
            via["over"] = rng.choice(("longer", "longer", "shorter"))
    if rng.random() < 0.15:
        via["rewrite"] = rng.choice((1, 1, 2))
    if str(via.get("read", "")).startswith("file") and rng.random() < 0.4:
        via["read_prev"] = True
    if tgt == "bms":
        if rng.random() < 0.25:
            via["nsd"] = rng.choice(("0A", "ZY", "1Z"))
        if case.get("out_layout") == "BME" and rng.random() < 0.5:
            via["default_out"] = True
    return via


def simple_cases(src, tgt):
    """The smallest members of the domain, simplest first, so that recorded witnesses are minimal: per key count one
    hit in the top column at beat 1 (then: + a hold 2..3 in column 0 and a tempo change at measure 1), beat 0 at 0 ms
    and, where the source has an offset, at 500 ms."""
    out = []
    for t0 in (0, 500) if src in ("osu", "qua", "sm") else (0,):
        for rich in (False, True):
            for k in _keys_for(src, tgt):
                objs = [[k - 1, "1", "0"]] + ([[0, "2", "1"], [k - 1, "9/2", "0"]] if rich else [])
                n_charts = 3 if src == "o2j" else 1
                score = dict(t0=t0, tempo=[[0, "120"]] + ([[1, "90"]] if rich else []), charts=[dict(keys=k, objs=objs) for _ in range(n_charts)])
                case = dict(src=src, tgt=tgt, seed=1, score=score)
                if src in ("osu", "qua"):
                    case["int_ms"] = False
                if (src, tgt) == ("o2j", "bms"):
                    case["move_right_by"] = None
                if src == "bms":
                    case["layout"] = next(n for n, lanes in BMS_LANES.items() if lanes >= k)
                if tgt == "bms":
                    case["out_layout"] = next(n for n, lanes in BMS_LANES.items() if lanes >= k + ((src, tgt) == ("o2j", "bms")))
                out.append(case)
    k0 = 7 if 7 in _keys_for(src, tgt) else 4
    base = next(c for c in out if c["score"]["charts"][0]["keys"] == k0)

    nch = len(base["score"]["charts"])

    def variant(objs_per_chart, **more):
        c = dict(base, score=dict(t0=0, tempo=[[0, "120"], [1, "90"]], charts=[dict(keys=k0, objs=o) for o in objs_per_chart]), **more)
        return c

    plain = [[k0 - 1, "1", "0"], [0, "2", "1"]]
    # the top column carries a hold only; a chart of holds only; a chord on beat 0 and one on the tempo change (measure 1 = beat 4)
    out.append(variant([[[k0 - 1, "1", "2"], [0, "1/2", "0"]]] * nch, shape="top_holds_only"))
    out.append(variant([[[k0 - 1, "1", "2"]]] * nch, shape="holds_only"))
    if k0 >= 2:
        out.append(variant([[[0, "0", "0"], [k0 - 1, "0", "1"], [0, "4", "1/2"], [k0 - 1, "4", "0"]]] * nch, shape="chords"))
    if src != "bms":
        # a chart without any object: the only chart of the file, or the middle one of three (.sm: three charts of one type)
        n_e = 3 if src in ("sm", "o2j") else 1
        out.append(variant([[] if i == n_e // 2 else plain for i in range(n_e)], shape="empty_chart"))
    # the other ways of making the three calls, a few at a time (the random cases mix them freely)
    reads = dict(osu=["file", "keepends"], qua=["file", "str", "unsafe"], sm=["file_path", "str"], bms=["file", "positional"], o2j=["file_path", "instance"])[src]
    crlf = dict(eol="crlf") if src in ("qua", "sm") else {}
    out.append(variant([plain] * nch, via=dict(read=reads[0], **crlf)))
    out.append(variant([plain] * nch, via=dict(read=reads[1], conv="instance", write="file")))
    out.append(variant([plain] * nch, via=dict(twice=True, **(dict(read=reads[2]) if reads[2:] else {}))))
    out.append(variant([plain] * nch, via=dict(pre=next(t for t in TARGETS[src] if t != tgt))))
    # the same converted chart written again (write, write_file onto the first output, write); a write_file onto a longer /
    # a shorter other file; read_file on a path read before; another file through the three calls first; call - move every
    # time of the read object by public operations - call again
    out.append(variant([plain] * nch, via=dict(rewrite=2)))
    out.append(variant([plain] * nch, via=dict(write="file", over="longer", rewrite=1)))
    out.append(variant([plain] * nch, via=dict(write="file", over="shorter", read=reads[0], read_prev=True, **crlf)))
    out.append(variant([plain] * nch, via=dict(before=True)))
    out.append(variant([plain] * nch, via=dict(edit=["swap", "lists"])))
    out.append(variant([plain] * nch, via=dict(edit=["swap", "stack"], write="file")))
    if src in ("osu", "qua", "sm"):
        out.append(variant([plain] * nch, via=dict(edit=["shift", 250, "lists"])))
        out.append(variant([plain] * nch, via=dict(edit=["shift", -125, "stack"], write="file")))
    if tgt == "bms" and src in ("osu", "qua", "o2j") and k0 >= 3:
        low = [[k0 - 1, "1", "0"], [1, "2", "1"]]  # column 0 free: every column one to the LEFT
        out.append(variant([low] * nch, move_right_by=-1))
    if tgt == "bms":
        lanes_needed = k0 + ((src, tgt) == ("o2j", "bms"))
        if lanes_needed <= BMS_LANES["BME"]:
            out.append(variant([plain] * nch, out_layout="BME", via=dict(default_out=True, nsd="0A", write="file")))
        else:
            out.append(variant([plain] * nch, via=dict(nsd="0A", write="file")))
    if src == "bms" and k0 <= BMS_LANES["BME"]:
        out.append(variant([plain] * nch, layout="BME", via=dict(read="default_layout")))
    if src in ("osu", "qua"):
        # a scroll-velocity point before the first tempo point and one on it (beat 0 at 0 ms and, second variant, at 500 ms)
        out.append(variant([plain] * nch, svs=[["-3/2", 0.5], ["0", 2.0]]))
        out.append(dict(variant([plain] * nch, svs=[["-1/48", 2.0]]), score=dict(t0=500, tempo=[[0, "120"], [1, "90"]], charts=[dict(keys=k0, objs=plain) for _ in range(nch)])))
    if src == "bms":
        # long notes ended by another id than ZZ while ZZ is an ordinary sample; no #LNOBJ at all (hits only); a BGM line first
        out.append(variant([plain] * nch, lnobj="ZY", bgm=True))
        out.append(variant([[[k0 - 1, "1", "0"], [0, "2", "0"]]] * nch, lnobj=None))
    if src == "osu":
        out.append(variant([plain] * nch, tps_shuffled=True))
    if src == "qua":
        out.append(variant([[[k0 - 1, "0", "0"], [0, "2", "1"]]] * nch, sparse=True, tps_shuffled=True))
    if src != "bms" and 7 in _keys_for(src, tgt):  # smallest member of the family declared_key_count: 7 keys, columns 0 and 4 used
        case = dict(out[0], score=dict(t0=0, tempo=[[0, "120"]], charts=[dict(keys=7, objs=[[0, "1", "0"], [4, "2", "0"]]) for _ in out[0]["score"]["charts"]]))
        if tgt == "bms":
            case["out_layout"] = "BME"
        out.append(case)
    return out


# ============================================================================= source files (the C01..C07 emitters)


def _lcm(a, b):
    return a * b // gcd(a, b)


def _t_out(t, int_ms):
    """A time as it goes into an osu / Quaver file: a whole number of ms, or the exact decimal (float repr)."""
    if int_ms:
        return int(round(t))
    return int(t) if Fraction(t).denominator == 1 else float(t)


def build_osu(case):
    from contracts.C01_bounded import gen_text_case

    rs = random.Random(case["seed"])
    sc, chart = Score(case["score"]), case["score"]["charts"][0]
    K = chart["keys"]
    spec = gen_text_case(rs, K)  # metadata / events of the C01 generator; timing points and objects replaced
    for k in ("Title", "TitleUnicode", "Artist", "ArtistUnicode", "Creator", "Version", "Source"):
        spec["meta"][k] = rs.choice(_texts(case))  # default plain ASCII: text that every target can carry (see rep.bound)
    spec["meta"].update(Tags="a b", AudioFilename="audio.mp3", Countdown=rs.choice((0, 1)))
    spec.update(bg="bg.png", samples=[], pad=False)
    tps = []
    for b, v in sc.tempo:
        # the meter field of a timing point does not move anything in time: any value denotes the same timeline
        tps.append(dict(t=_t_out(sc.ms(b), False), bl=repr(60000.0 / float(v)), meter=rs.choice((4, 4, 4, 3, 5, 7)), ss=rs.randrange(4), si=0, vol=rs.choice((60, 100)), un=1, eff=rs.choice((0, 1))))
    if rs.random() < 0.5:  # a scroll-speed line: no tempo
        tps.append(dict(t=_t_out(sc.ms(Fraction(1)), False), bl=repr(-100.0 / rs.choice((0.5, 2.0, 1.25))), meter=4, ss=0, si=0, vol=100, un=0, eff=0))
    for b, mult in case.get("svs") or ():  # scroll-speed lines anywhere, also before / on the first tempo point
        tps.append(dict(t=_t_out(sc.ms(Fraction(b)), False), bl=repr(-100.0 / mult), meter=4, ss=0, si=0, vol=100, un=0, eff=0))
    if case.get("svs") and not case.get("tps_shuffled"):
        tps.sort(key=lambda x: x["t"])  # as the editor writes them: in time order (a tempo point before a scroll-speed line of its time)
    if case.get("rich"):
        for i, tp in enumerate(tps):
            tp.update(ss=1 + i % 3, si=5 + i, vol=31 + i)
    for i in range(case.get("early_samples") or 0):
        spec["samples"].append(dict(t=_t_out(sc.ms(Fraction(-2 - i)), True), layer=i % 4, file=f"early {i}.wav", quoted=True, vol=40 + i))
    objs = []
    for c, b, ln in chart["objs"]:
        b, ln = Fraction(b), Fraction(ln)
        o = dict(x=_x_in_column(rs, c, K, rs.choice(("centre", "any"))), y=192, t=_t_out(sc.ms(b), case["int_ms"]), hs=[0, 0, 0, 0, 0, ""])
        if ln:
            o.update(end=_t_out(sc.ms(b + ln), case["int_ms"]), type=128)
        else:
            o["type"] = rs.choice((1, 5))
        if case.get("rich"):
            i = len(objs)
            o.update(y=(37 * i + 11) % 385, hs=[(2, 4, 8, 6, 10, 12, 14)[i % 7], 1 + i % 3, 1 + (i + 1) % 3, 21 + i, 41 + i % 50, f"hs {i}.wav"])
        objs.append(o)
    if case.get("tps_shuffled"):
        rs.shuffle(tps)  # the [TimingPoints] lines in any file order (the dialect of C01 does not order them)
    spec.update(tps=tps, objs=objs)
    return emit_text(spec)


def build_qua(case):
    rs = random.Random(case["seed"])
    sc, chart = Score(case["score"]), case["score"]["charts"][0]
    sparse = bool(case.get("sparse"))
    top = []
    for k in QUA_META_KEYS:
        if sparse and k != "Mode" and rs.random() < 0.4:
            continue  # every key but the mode may be left out (A5 defaults)
        if k == "Mode":
            v = "Keys%d" % chart["keys"]
        elif k == "Tags":
            v = "tag1 tag2"
        elif k in QUA_TEXT_KEYS:
            v = rs.choice(_texts(case))
        elif k in QUA_INT_KEYS:
            v = rs.choice((-1, 0, 12345))
        elif k in QUA_BOOL_KEYS:
            v = rs.random() < 0.5
        elif k in QUA_NUM_KEYS:
            v = 1.0
        else:
            v = []
        top.append([k, v, "d"])
    recs = []
    for c, b, ln in chart["objs"]:
        b, ln = Fraction(b), Fraction(ln)
        r = [["StartTime", _t_out(sc.ms(b), case["int_ms"])], ["Lane", c + 1]]
        if ln:
            r.append(["EndTime", _t_out(sc.ms(b + ln), case["int_ms"])])
        if not sparse or rs.random() < 0.5:
            r.append(["KeySounds", []])
        if case.get("rich"):
            r += [["HitSound", ("Clap", "Whistle, Finish", "Normal")[len(recs) % 3]], ["EditorLayer", 1 + len(recs) % 3]]
        recs.append(r)
    tps = [[["StartTime", _t_out(sc.ms(b), False)], ["Bpm", float(v)]] for b, v in sc.tempo]
    svs = [[["StartTime", _t_out(sc.ms(Fraction(2)), False)], ["Multiplier", 0.5]]] if rs.random() < 0.5 else []
    svs = [[["StartTime", _t_out(sc.ms(Fraction(b)), False)], ["Multiplier", mult]] for b, mult in case.get("svs") or ()] + svs
    if sparse:
        # Quaver itself leaves out a StartTime of 0; the keys of a record in any order
        for r in recs + tps + svs:
            if r[0][0] == "StartTime" and r[0][1] == 0:
                del r[0]
            rs.shuffle(r)
    if case.get("tps_shuffled"):
        rs.shuffle(tps)
    style = rs.choice(("block", "flow"))
    top += [["TimingPoints", [tps, style], ""], ["SliderVelocities", [svs, style], ""], ["HitObjects", [recs, style], ""]]
    return emit_doc(dict(top=top))


def _measures_of(chart, symbols):
    """{measure: {position in the measure (Fraction of 4 beats): {column: symbol}}}"""
    cells = {}
    for c, b, ln in chart["objs"]:
        b, ln = Fraction(b), Fraction(ln)
        for p, s in ((b, symbols[1] if ln else symbols[0]),) + (((b + ln), symbols[2]),) * bool(ln):
            m = int(p // 4)
            cells.setdefault(m, {}).setdefault((p - 4 * m) / 4, {})[c] = s
    return cells


def build_sm(case):
    from contracts.C02_bounded import gen_header

    rs = random.Random(case["seed"])
    score = case["score"]
    header = gen_header(rs, stops_tag=True)
    for h in header:
        if h[0] == "OFFSET":
            h[1] = dec_str(-Fraction(score["t0"]) / 1000)  # beat 0 at -OFFSET seconds
        elif h[0] in ("TITLE", "SUBTITLE", "ARTIST", "TITLETRANSLIT", "SUBTITLETRANSLIT", "ARTISTTRANSLIT", "GENRE", "CREDIT"):
            h[1] = rs.choice(_texts(case))
        elif h[0] in ("BANNER", "BACKGROUND", "LYRICSPATH", "CDTITLE", "MUSIC"):
            h[1] = rs.choice(("bn.png", "bg.jpg", "x-y_z.mp3", ""))
    if case.get("rich"):
        from contracts.C02_bounded import HEADER_ORDER

        own = dict(DISPLAYBPM="165.5", BGCHANGES="0.000=bg.avi=1.000=1=0=0", FGCHANGES="4.000=fg.avi=1.000=0=0=1,8.000=fg2.png=1.000=1=1=0", SAMPLESTART="12.345", SAMPLELENGTH="6.789", SELECTABLE="NO")
        old = dict((h[0], h[1]) for h in header)
        header = [[t, old[t] if t in ("OFFSET", "BPMS", "STOPS") else own.get(t, f"{t.lower()} {i}" + (".png" if t in ("BANNER", "BACKGROUND", "CDTITLE") else ""))] for i, t in enumerate(HEADER_ORDER)]
    charts = []
    for ch in score["charts"]:
        cells = _measures_of(ch, "123")
        measures = []
        for m in range(max(cells, default=0) + 1):
            R = 4
            for p in cells.get(m, {}):
                R = _lcm(R, p.denominator)
            R = next((r for r in (4, 8, 12, 16, 24, 48, 192) if r % R == 0), R)
            rows = [["0"] * ch["keys"] for _ in range(R)]
            for p, by_col in cells.get(m, {}).items():
                for c, s in by_col.items():
                    rows[int(p * R)][c] = s
            measures.append(["".join(r) for r in rows])
        charts.append(dict(type=SM_TYPE[ch["keys"]], desc=rs.choice(("", "Evening", "a b")), diff=rs.choice(("Easy", "Hard", "Challenge")), meter=rs.randrange(1, 20), radar="0,0,0,0,0", measures=measures))
        if case.get("rich"):
            charts[-1].update(desc=f"desc {len(charts)}", meter=20 + len(charts), radar="0.125,0.25,0.5,0.75,0.875")
    bpms = [(dec_str(Fraction(4 * m)) + rs.choice(("", ".0", ".000")), v) for m, v in score["tempo"]]
    style = dict(seed=rs.randrange(1 << 30), comments=rs.choice(("none", "plain")), blank=rs.random() < 0.5, bpm_newlines=rs.random() < 0.5, measure_comments=rs.random() < 0.4)
    return sm_render(dict(header=header, bpms=bpms, charts=charts, style=style))


def bms_case_of(case):
    """The C04 generator's case description (header, tables, data lines) of the score; lines in time order."""
    rs = random.Random(case["seed"])
    score, chart = case["score"], case["score"]["charts"][0]
    lanes = {col: ch.decode() for ch, col in note_lanes(layout_of(case["layout"])).items()}
    wav = {"01": "kick_0.wav", "0A": "snare 02_1.ogg", "1Z": "hat_2.wav"}
    lnobj = case["lnobj"] if "lnobj" in case else "ZZ"
    if lnobj != "ZZ":
        wav["ZZ"] = "zz_3.wav"  # without `#LNOBJ ZZ` the id ZZ is a sample like any other
    exbpm, lines = {}, []
    for i, (m, v) in enumerate(score["tempo"][1:], 1):
        if Fraction(v).denominator == 1 and int(v) <= 255 and rs.random() < 0.5:
            lines.append(dict(m=m, ch="03", d=1, slots={"0": "%02X" % int(v)}))
        else:
            exbpm["%02d" % i] = v
            lines.append(dict(m=m, ch="08", d=1, slots={"0": "%02d" % i}))
    cells = _measures_of(chart, ("N", "N", "<tail>"))
    assert lnobj is not None or not any("<tail>" in by_col.values() for by_pos in cells.values() for by_col in by_pos.values()), "holds need an #LNOBJ"
    for m in sorted(cells):
        per_col = {}
        for p, by_col in cells[m].items():
            for c, s in by_col.items():
                per_col.setdefault(c, {})[p] = s
        for c in sorted(per_col):
            d = 1
            for p in per_col[c]:
                d = _lcm(d, p.denominator)
            slots = {str(int(p * d)): (lnobj if s == "<tail>" else rs.choice(sorted(wav))) for p, s in sorted(per_col[c].items())}
            lines.append(dict(m=m, ch=lanes[c], d=d, slots=slots))
    if case.get("bgm"):
        # 17: the first data line of the file / the first object in time is a BGM sample (channel 01: no visible note), not a
        # note or a tempo change; another one two measures after the last line
        lines.insert(0, dict(m=0, ch="01", d=4, slots={"0": "01", "3": "0A"}))
        lines.append(dict(m=max(l["m"] for l in lines) + 2, ch="01", d=1, slots={"0": "1Z"}))
    lines.sort(key=lambda l: l["m"])  # stable: file order = time order in every lane (one line per measure and lane)
    header = dict(TITLE=rs.choice(_texts(case)), ARTIST=rs.choice(_texts(case)), PLAYLEVEL=str(rs.randrange(1, 13)), BPM=score["tempo"][0][1])
    others = dict(rs.sample([("PLAYER", "1"), ("TOTAL", "300"), ("RANK", "3")], rs.randrange(0, 3)))
    if case.get("rich"):
        others.update(TOTAL="345", RANK="1", GENRE="genre g", SUBTITLE="sub s", SUBARTIST="obj o", STAGEFILE="stage 1.png", BANNER="banner 2.png", DIFFICULTY="4")
    return dict(layout=case["layout"], header=header, others=others, lnobj=lnobj, wav=wav, exbpm=exbpm, lines=lines, decor=rs.random() < 0.5)


def build_bms(case):
    return bms_render(bms_case_of(case))


def ojn_spec_of(case):
    rs = random.Random(case["seed"])
    score = case["score"]
    diffs = []
    for k, ch in enumerate(score["charts"]):
        tempo_k = list(score["tempo"][1:])
        if k > 0 and tempo_k and rs.random() < 0.5:
            # the difficulties of one .ojn carry their own tempo channel: later ones may have fewer tempo events
            tempo_k = tempo_k[: rs.randrange(0, len(tempo_k))]
        pk = _pos_pkgs(1, [(Fraction(m), float(v)) for m, v in tempo_k])
        per_col = {}
        for c, b, ln in ch["objs"]:
            b, ln = Fraction(b), Fraction(ln)
            note = [rs.randrange(1, 1000), rs.randrange(16), rs.randrange(16)]
            per_col.setdefault(c, []).extend([(b / 4, note + [2]), ((b + ln) / 4, note + [3])] if ln else [(b / 4, note + [0])])
        for c in sorted(per_col):
            pk += _pos_pkgs(2 + c, per_col[c])
        diffs.append(sorted(pk, key=lambda p: p[0]))
    header = dict(PLAIN_HEADER, bpm=float(score["tempo"][0][1]), title=rs.choice(ASCII_TEXT), artist=rs.choice(ASCII_TEXT), noter=rs.choice(ASCII_TEXT), level=[rs.randrange(1, 60) for _ in range(3)] + [0])
    return dict(header=header, diffs=diffs)


def build_ojn_bytes(case):
    spec = ojn_spec_of(case)
    b = build_ojn(spec)
    _selfcheck(spec, b)
    return b


BUILD = dict(osu=build_osu, qua=build_qua, sm=build_sm, bms=build_bms, o2j=build_ojn_bytes)


# ============================================================================= denotations, in one shape


def _chart(objs, tempo):
    """objs [(kind, column, start ms, end ms)], tempo [(ms, bpm)] in file order; floats."""
    return dict(objs=[(k, int(c), float(t), float(e)) for k, c, t, e in objs], tempo=[(float(t), float(v)) for t, v in tempo])


def charts_osu(text):
    d = den_osu(text)
    objs = [("hit", c, t, t) for c, t, _ in d["hits"]] + [("hold", c, t, t + ln) for c, t, ln, _ in d["holds"]]
    return d, [_chart(objs, [(t, v) for t, v, _ in d["bpms"]])]


def charts_qua(text):
    d = den_qua(text)
    if any(v is None for _, v in d["bpms"]):
        raise ValueError("a timing point without Bpm")
    objs = [("hit", c, t, t) for c, t, _ in d["hits"]] + [("hold", c, t, t + ln) for c, t, ln, _ in d["holds"]]
    return d, [_chart(objs, d["bpms"])]


def charts_sm(text):
    d = den_sm(text)
    out = []
    for c in d["charts"]:
        other = sorted({k for k, *_ in c["objects"]} - {"hits", "holds"})
        if other:
            raise ValueError(f"objects of kinds {other}")
        out.append(_chart([("hold" if k == "holds" else "hit", col, t, t + ln) for k, col, t, ln in c["objects"]], c["tempo"]))
    return d, out


def charts_bms(src, layout_name):
    d = den_bms(src, layout_of(layout_name))
    objs = [("hit", h[0], h[1], h[1]) for h in d.hits] + [("hold", h[0], h[1], h[1] + h[2]) for h in d.holds]
    return d, [_chart(objs, d.tempo)]


def charts_ojn(b):
    d = den_ojn(b)
    out = []
    for m in d["maps"]:
        if m["flags"]:
            raise ValueError(f"outside the OJN domain: {m['flags']}")
        objs = [("hit", c, t, t) for c, t in m["hits"]] + [("hold", c, t, t + ln) for c, t, ln in m["holds"]]
        out.append(_chart(objs, [(0, d["header"]["bpm"])] + list(m["tempo"])))
    return d, out


def denote_source(case, payload):
    src = case["src"]
    if src == "osu":
        return charts_osu(payload)[1]
    if src == "qua":
        return charts_qua(payload)[1]
    if src == "sm":
        d, charts = charts_sm(payload)
        if d["problems"] or d["stops"]:
            raise AssertionError(f"generated .sm outside the domain: {d['problems']} {d['stops']}")
        return charts
    if src == "bms":
        d, charts = charts_bms(payload, case["layout"])
        if d.problems or d.bad_lines:
            raise AssertionError(f"generated BMS outside the domain: {d.problems} {d.bad_lines}")
        return charts
    return charts_ojn(payload)[1]


def denote_target(tgt, text, layout_name):
    """-> (validity problems [str], chart | None).  Validity is what the TARGET format's oracle reports."""
    bad = []
    if tgt == "osu":
        try:
            d, (chart,) = charts_osu(text)
        except OsuDenError as ex:
            return [f"not in the .osu v14 dialect: {ex}"], None
        need = ["General", "Editor", "Metadata", "Difficulty", "Events", "TimingPoints", "HitObjects"]
        if d["first"] != "osu file format v14":
            bad.append(f"header line {d['first']!r}")
        if [s for s in d["sections"] if s in need] != need:
            bad.append(f"sections {d['sections']}")
        if d["meta"].get("Mode", "").strip() != "3":
            bad.append(f"Mode {d['meta'].get('Mode')!r} is not 3 (mania)")
        lines = [l.strip() for l in text.split("\n")]
        xs = [int(l.split(",")[0]) for l in lines[lines.index("[HitObjects]") + 1:] if l]
        if any(not 0 <= x <= 512 for x in xs):
            bad.append(f"hit object x {sorted(set(x for x in xs if not 0 <= x <= 512))[:4]} outside the playfield 0..512 (CircleSize {d['meta'].get('CircleSize')})")
        return bad, chart
    if tgt == "qua":
        try:
            raw = _yaml_load(text)
        except Exception as ex:
            return [f"not YAML: {type(ex).__name__}: {str(ex)[:200]}"], None
        bad += [f"{a}: {d}" for a, d in wf_qua(raw)]
        if bad and not isinstance(raw, dict):
            return bad, None
        keys = {"Keys4": 4, "Keys7": 7}.get(raw.get("Mode"))
        if keys is None:
            bad.append(f"Mode {raw.get('Mode')!r} is neither Keys4 nor Keys7")
        try:
            d, (chart,) = charts_qua(raw)
        except Exception as ex:
            return bad + [f"no denotation: {type(ex).__name__}: {ex}"], None
        over = sorted({c + 1 for _, c, _, _ in chart["objs"] if keys is not None and not 0 <= c < keys})
        if over:
            bad.append(f"lanes {over} outside mode {raw.get('Mode')}")
        return bad, chart
    if tgt == "sm":
        try:
            d, charts = charts_sm(text)
        except SMFormatError as ex:
            return [f"{ex.code}: {ex}"], None
        except ValueError as ex:
            return [str(ex)], None
        bad += [f"{c}: {m}" for c, m in d["problems"]]
        if d["stops"]:
            bad.append(f"#STOPS:{d['header'].get('STOPS')}")
        if len(charts) != 1:
            return bad + [f"{len(charts)} #NOTES tokens in the written mapset, 1 expected"], None
        return bad, charts[0]
    # bms
    for ln in text.replace(b"\r\n", b"\n").split(b"\n"):
        s = ln.strip()
        if s and not (_DATA_LINE.match(s) if re.match(rb"^#[0-9]", s) else _HEADER_LINE.match(s)):
            bad.append(f"line {s[:60]!r} is neither `#KEY value` nor `#mmmcc:` + an even number of base-36 characters")
            break
    try:
        d, (chart,) = charts_bms(text, layout_name)
    except Exception as ex:
        return bad + [f"no denotation: {type(ex).__name__}: {ex}"], None
    if d.bad_lines and not bad:
        bad.append(f"bad lines {d.bad_lines[:2]}")
    bad += list(d.problems[:3])
    return bad, chart


# ============================================================================= the real library


def _via(case):
    return case.get("via") or {}


RAISE_BAD_MODE = {("osu", "qua"), ("osu", "sm"), ("bms", "qua"), ("sm", "qua")}  # converters with the optional argument raise_bad_mode (default True)


def _with_file(data, suffix, fn, as_path, first=None):
    """fn(path) on a temporary file holding `data` (bytes); the file is removed afterwards.  first (bytes): the path is
    one that was used before - it held `first`, fn read that, then the file was replaced by `data`."""
    import os
    import tempfile
    from pathlib import Path

    fd, p = tempfile.mkstemp(suffix=suffix, prefix="c09_")
    try:
        with os.fdopen(fd, "wb") as f:
            f.write(first if first is not None else data)
        if first is not None:
            try:
                fn(Path(p) if as_path else p)  # that file's own reading is not this case's business
            except Exception:  # noqa
                pass
            with open(p, "wb") as f:
                f.write(data)
        return fn(Path(p) if as_path else p)
    finally:
        os.unlink(p)


def _file_bytes(src, payload, eol="\n"):
    """The bytes of a source file on disk."""
    if src == "osu":
        return payload.encode("utf8")  # line ends: the text's own (LF or CRLF)
    if src in ("qua", "sm"):
        return payload.replace("\n", eol).encode("utf8")
    if src == "bms":
        return "\r\n".join(payload).encode("shift_jis") + b"\r\n"
    return payload


def _other_case(case):
    """A small valid file of the same source format that is NOT the file under test (3 objects, 2 tempo points, another
    key count where the pair has one): what a path held before / what went through the library before."""
    c = next(c for c in simple_cases(case["src"], case["tgt"]) if len(c["score"]["tempo"]) == 2 and "via" not in c)
    return dict(c, seed=7)


def real_read(case, payload):
    src = case["src"]
    how = _via(case).get("read", "lines")
    as_path = how == "file_path"
    eol = "\r\n" if _via(case).get("eol") == "crlf" else "\n"
    first = None
    if how.startswith("file") and _via(case).get("read_prev"):
        other = _other_case(case)
        first = _file_bytes(src, BUILD[src](other), eol)
    if src == "osu":
        from reamber.osu.OsuMap import OsuMap

        if how.startswith("file"):
            return _with_file(_file_bytes(src, payload), ".osu", OsuMap.read_file, as_path, first)
        if how == "keepends":  # the lines with their terminators, as readlines() gives them
            parts = payload.split("\n")
            return OsuMap.read([q + "\n" for q in parts[:-1]] + ([parts[-1]] if parts[-1] else []))
        return (OsuMap() if how == "instance" else OsuMap).read(payload.split("\n"))
    if src == "qua":
        from reamber.quaver.QuaMap import QuaMap

        if how.startswith("file"):
            return _with_file(_file_bytes(src, payload, eol), ".qua", QuaMap.read_file, as_path, first)
        if how == "str":
            return QuaMap.read(payload)
        if how == "unsafe":
            return QuaMap.read(payload.split("\n"), safe=False)
        return (QuaMap() if how == "instance" else QuaMap).read(payload.split("\n"))
    if src == "sm":
        from reamber.sm.SMMapSet import SMMapSet

        if how.startswith("file"):
            return _with_file(_file_bytes(src, payload, eol), ".sm", SMMapSet.read_file, as_path, first)
        if how == "str":
            return SMMapSet.read(payload)
        return (SMMapSet() if how == "instance" else SMMapSet).read(payload.split("\n"))
    if src == "bms":
        from reamber.bms.BMSMap import BMSMap

        lay = layout_of(case["layout"])
        if how.startswith("file"):
            return _with_file(_file_bytes(src, payload), ".bms", lambda q: BMSMap.read_file(q, note_channel_config=lay), as_path, first)
        if how == "default_layout":
            assert case["layout"] == "BME"  # the documented default
            return BMSMap.read(payload)
        if how == "positional":
            return BMSMap.read(payload, lay)
        return (BMSMap() if how == "instance" else BMSMap).read(payload, note_channel_config=lay)
    from reamber.o2jam.O2JMapSet import O2JMapSet

    if how.startswith("file"):
        return _with_file(payload, ".ojn", O2JMapSet.read_file, as_path, first)
    return (O2JMapSet() if how == "instance" else O2JMapSet).read(payload)


def _convert_to(case, m, tgt, move_right_by=None):
    import reamber.algorithms.convert as cv

    conv = getattr(cv, f"{NAME[case['src']]}To{NAME[tgt]}")
    if _via(case).get("conv") == "instance":
        conv = conv()  # convert is a classmethod: through an instance it is the same function
    kw = {}
    if move_right_by is not None:
        kw["move_right_by"] = move_right_by
    if tgt == case["tgt"] and _via(case).get("raise_bad_mode") is not None and (case["src"], tgt) in RAISE_BAD_MODE:
        kw["raise_bad_mode"] = _via(case)["raise_bad_mode"]  # every key count generated is one the target supports: no difference allowed
    out = conv.convert(m, **kw)
    return list(out) if isinstance(out, (list, tuple)) else [out]


def real_convert(case, m):
    via = _via(case)
    if via.get("pre"):
        # the same read object is first converted to ANOTHER game and written; whatever happens there is not this
        # case's business (it is that pair's), the object must serve the conversion under test afterwards all the same
        try:
            for o in _convert_to(case, m, via["pre"]):
                _write_as(via["pre"], o, "PMS_BME", {})
        except Exception:  # noqa
            pass
    if via.get("twice"):
        for o in _convert_to(case, m, case["tgt"], case.get("move_right_by")):
            real_write(case, o)
    if via.get("edit"):
        # call - legitimate change - call again: the first conversion is made and written (compared by the plain cases),
        # then every time of the SAME read object is moved through public operations
        for o in _convert_to(case, m, case["tgt"], case.get("move_right_by")):
            real_write(case, o)
        _edit_source(case, m, via["edit"])
    return _convert_to(case, m, case["tgt"], case.get("move_right_by"))


def _swap_pairs(case):
    """per chart of the score: (highest used column, lowest used column) or None for a chart without objects"""
    return [(max(o[0] for o in ch["objs"]), min(o[0] for o in ch["objs"])) if ch["objs"] else None for ch in case["score"]["charts"]]


def _edit_source(case, m, edit):
    """The legitimate change of via.edit on the read object, through the public list properties / the stack."""
    charts = list(m.maps) if hasattr(m, "maps") else [m]
    how = edit[-1]
    if edit[0] == "shift":
        for chart in charts:
            if how == "stack":
                st = chart.stack()
                st.offset += edit[1]
            else:
                for lst in chart.objs.values():
                    lst.offset += edit[1]
        return
    for chart, ab in zip(charts, _swap_pairs(case)):
        if ab is None or ab[0] == ab[1]:
            continue
        a, b = ab
        if how == "stack":
            st = chart.stack()
            st.column = st.column.replace({a: b, b: a})
        else:
            for lst in (chart.hits, chart.holds):
                lst.column = lst.column.replace({a: b, b: a})


def real_before(case):
    """Another file of the same source format through the same three calls; what comes out is thrown away."""
    other = _other_case(case)
    try:
        m = real_read(other, BUILD[other["src"]](other))
        for o in _convert_to(other, m, other["tgt"], other.get("move_right_by")):
            _write_as(other["tgt"], o, other.get("out_layout"), {})
    except Exception:  # noqa  (that file's own conversion is its pair's business)
        pass


def _junk(tgt, how):
    """What a path holds before write_file: another file, longer (lines of the target format, 300 KB) or shorter."""
    if how == "shorter":
        return b"#\r\n"
    n = 300 * 1024
    if tgt == "osu":
        head, line = b"osu file format v14\n\n[HitObjects]\n", b"64,192,%d,1,0,0:0:0:0:\n"
    elif tgt == "qua":
        head, line = b"HitObjects:\n", b"- StartTime: %d\n  Lane: 1\n"
    elif tgt == "sm":
        head, line = b"#NOTES:\n dance-single:\n :\n Easy:\n 1:\n 0,0,0,0,0:\n", b"1000\n0100\n0010\n0001\n,  // %d\n"
    else:
        head, line = b"#TITLE junk\r\n", b"#%03d11:01010101\r\n"
    out, i = [head], 0
    size = len(head)
    while size < n:
        out.append(line % (i % 1000))
        size += len(out[-1])
        i += 1
    return b"".join(out)


def _write_as(tgt, m, out_layout, via, to_file=None, prefill=None):
    """to_file / prefill (bytes the path holds already): given by the caller for the further writes of via.rewrite."""
    if to_file is None:
        to_file = via.get("write") == "file"
        if to_file and via.get("over"):
            prefill = _junk(tgt, via["over"])
    if tgt == "bms":
        kw = {}
        if not via.get("default_out"):
            kw["note_channel_config"] = layout_of(out_layout)
        else:
            assert out_layout == "BME"  # the documented default
        if via.get("nsd"):
            kw["no_sample_default"] = via["nsd"].encode()
        if to_file:
            return _through_file(lambda q: m.write_file(q, **kw), ".bms", binary=True, prefill=prefill)
        return m.write(**kw)
    if to_file:
        return _through_file(m.write_file, {"osu": ".osu", "qua": ".qua", "sm": ".sm"}[tgt], binary=False, prefill=prefill)
    if tgt == "osu":
        return "\n".join(m.write())
    return m.write()


def _through_file(write_file, suffix, binary, prefill=None):
    import os
    import tempfile

    d = tempfile.mkdtemp(prefix="c09_")
    p = os.path.join(d, "out" + suffix)
    try:
        if prefill is not None:
            with open(p, "wb") as f:
                f.write(prefill)
        write_file(p)
        with open(p, "rb") as f:
            b = f.read()
        return b if binary else b.decode("utf8")
    finally:
        if os.path.exists(p):
            os.unlink(p)
        os.rmdir(d)


def real_write(case, m, nth=0, previous=None):
    """nth = 0: the write of the case.  nth >= 1: a further write of the same converted chart (via.rewrite): the other
    entry point and the case's own alternate; a write_file then goes to a path that holds `previous` (the output before)."""
    if nth == 0:
        return _write_as(case["tgt"], m, case.get("out_layout"), _via(case))
    to_file = (_via(case).get("write") == "file") == (nth % 2 == 0)
    prev = None
    if to_file and previous is not None:
        prev = previous if isinstance(previous, bytes) else previous.encode("utf8")
    return _write_as(case["tgt"], m, case.get("out_layout"), _via(case), to_file=to_file, prefill=prev)


# ============================================================================= comparison (the statement's clauses)


def _res_ms(fmt, bpm):
    """Time resolution of a format in ms at a tempo (None: strictly-below-1-ms formats are handled apart)."""
    if fmt == "sm":
        return 60000.0 / bpm / 96  # one row of a 384-row measure: the finest position an .sm measure is written at
    if fmt == "bms":
        return 60000.0 / bpm / 192
    return 0.0  # osu / Quaver: whole ms, see _within;  O2Jam: exact rationals


def _active(tempo, t):
    cur = tempo[0][1]
    for pt, pv in tempo:
        if pt <= t:
            cur = pv
    return cur


READ_NOISE = 1e-3  # ms


class Tolerance:
    """The coarser of the two formats' resolutions, at the local tempo of the SOURCE timeline."""

    def __init__(self, src, tgt, tempo):
        self.src, self.tgt, self.tempo = src, tgt, sorted(tempo, key=lambda x: x[0])
        self.whole_ms = src in ("osu", "qua") or tgt in ("osu", "qua")

    def grid(self, t):
        bpm = min(_active(self.tempo, t - 1.0), _active(self.tempo, t + 1e-6))  # the slower side of a tempo change
        return max(_res_ms(self.src, bpm), _res_ms(self.tgt, bpm))

    def within(self, a, b):
        d = abs(a - b)
        # READ_NOISE: what the source-format properties allow a reader (C02 / C04 / C07: 1e-3 ms); a time the file
        # denotes as 325 ms may be held as 324.99999999999994 and is then written, truncated, as 324
        return d <= self.grid(a) + READ_NOISE or (self.whole_ms and d < 1.0 + READ_NOISE)

    def describe(self, t):
        g = self.grid(t) + READ_NOISE
        return f"{g:.4f} ms" if not self.whole_ms or g >= 1.0 + READ_NOISE else f"< {1.0 + READ_NOISE} ms"


def _pairwise(S, T, key, same):
    """both sides sorted by key, compared position by position: first mismatch or None"""
    S, T = sorted(S, key=key), sorted(T, key=key)
    for a, b in zip(S, T):
        if not same(a, b):
            return a, b
    return None


def _step_mismatch(want, got, lo, hi, tol, bpm_abs):
    """time -> bpm of two tempo lists on [lo, hi]; intervals no wider than twice the time tolerance are skipped."""
    want, got = sorted(want, key=lambda x: x[0]), sorted(got, key=lambda x: x[0])
    cuts = sorted({lo, hi} | {t for t, _ in want + got if lo < t < hi})
    for a, b in zip(cuts, cuts[1:]):
        width = 2 * max(tol.grid(a), tol.grid(b), 1.0 if tol.whole_ms else 0.0) + 2e-3
        if b - a <= width:
            continue
        mid = (a + b) / 2
        w, g = _active(want, mid), _active(got, mid)
        if got[0][0] > mid:
            return f"at {mid:.3f} ms the written file has no tempo yet (its first tempo point is at {got[0][0]:.3f} ms); the source has {w} bpm"
        if abs(w - g) > max(bpm_abs, 1e-9 * w):
            return f"at {mid:.3f} ms the written file's tempo is {g}, the source's is {w} (written {got[:6]}, source {want[:6]})"
    return None


def compare(case, want, got):
    """[(clause, detail)] of objects / columns / hold_lengths / tempo_timeline for one chart."""
    src, tgt = case["src"], case["tgt"]
    shift = 1 if (src, tgt) == ("o2j", "bms") and case.get("move_right_by") is None else 0
    if src in ("osu", "qua", "o2j") and tgt == "bms" and case.get("move_right_by"):
        shift = case["move_right_by"]
    base = min(t for t, _ in want["tempo"]) if tgt == "bms" else 0.0  # BMS: no offset field, times from the first measure line
    W = dict(objs=[(k, c + shift, t - base, e - base) for k, c, t, e in want["objs"]], tempo=[(t - base, v) for t, v in want["tempo"]])
    tol = Tolerance(src, tgt, W["tempo"])
    fails = []
    ok_objs = False
    if len(W["objs"]) != len(got["objs"]):
        fails.append(("objects", f"the source denotes {len(W['objs'])} objects, the written file {len(got['objs'])}"))
    else:
        bad = _pairwise(W["objs"], got["objs"], lambda o: (o[1], o[2]), lambda a, b: a[0] == b[0] and a[1] == b[1] and tol.within(a[2], b[2]))
        if bad is None:
            ok_objs = True
        else:
            loose = _pairwise(W["objs"], got["objs"], lambda o: (o[2], o[0], o[3]), lambda a, b: a[0] == b[0] and tol.within(a[2], b[2]))
            a, b = bad
            if loose is None:
                k2 = lambda o: (round(o[2]), o[0], o[3], o[1])  # noqa
                a, b = next(((x, y) for x, y in zip(sorted(W["objs"], key=k2), sorted(got["objs"], key=k2)) if x[1] != y[1]), (a, b))
                fails.append(("columns", f"same kinds and start times, other columns: source {a[0]} column {a[1]} at {a[2]:.3f} ms, written file {b[0]} column {b[1]} at {b[2]:.3f} ms (expected column = source column + {shift})"))
            else:
                fails.append(("objects", f"source {a[0]} column {a[1]} at {a[2]:.3f} ms <-> written {b[0]} column {b[1]} at {b[2]:.3f} ms: difference {b[2] - a[2]:.4f} ms, allowed {tol.describe(a[2])}"))
    if ok_objs:
        bad = _pairwise(W["objs"], got["objs"], lambda o: (o[1], o[2]), lambda a, b: tol.within(a[3], b[3]))
        if bad is not None:
            a, b = bad
            fails.append(("hold_lengths", f"hold column {a[1]} at {a[2]:.3f} ms: source ends at {a[3]:.3f} ms (length {a[3] - a[2]:.3f}), written file at {b[3]:.3f} ms (length {b[3] - b[2]:.3f}): difference {b[3] - a[3]:.4f} ms, allowed {tol.describe(a[3])}"))
    if not got["tempo"]:
        fails.append(("tempo_timeline", "the written file has no tempo point"))
    else:
        lo = min(t for t, _ in W["tempo"])
        hi = max([e for *_, e in W["objs"]] + [lo])
        d = _step_mismatch(W["tempo"], got["tempo"], lo, hi, tol, 5.0001e-4 if tgt == "bms" else 0.0)
        if d:
            fails.append(("tempo_timeline", d))
    return fails


def compare_with_offset_family(case, want, got):
    """compare(); when it fails only because the WHOLE written timeline is moved by one constant: [start_offset]."""
    fails = compare(case, want, got)
    if not fails or not want["objs"] or len(want["objs"]) != len(got["objs"]) or not got["tempo"]:
        return fails
    base = min(t for t, _ in want["tempo"]) if case["tgt"] == "bms" else 0.0
    for d in {round(min(o[2] for o in want["objs"]) - base - min(o[2] for o in got["objs"]), 6), round(min(t for t, _ in want["tempo"]) - base - min(t for t, _ in got["tempo"]), 6)}:
        if abs(d) < 1.0:
            continue
        moved = dict(objs=[(k, c, t + d, e + d) for k, c, t, e in got["objs"]], tempo=[(t + d, v) for t, v in got["tempo"]])
        if not compare(case, want, moved):
            t_first = min(t for t, _ in want["tempo"])
            return [("start_offset", f"every object and tempo point of the written file is {d:.3f} ms early (+) / late (-): moved by that constant the file has the source's objects, columns, hold ends and tempo timeline.  Source: first tempo point at {t_first:.3f} ms, first object at {min(o[2] for o in want['objs']):.3f} ms; written file: first tempo point at {min(t for t, _ in got['tempo']):.3f} ms, first object at {min(o[2] for o in got['objs']):.3f} ms.  Without the move: {fails[0][0]}: {fails[0][1]}")]
    return fails


# ============================================================================= one case


def _exc(stage, ex):
    import traceback

    tb = traceback.extract_tb(ex.__traceback__)[-1]
    return f"{stage} raised {type(ex).__name__}: {str(ex)[:300]} at {tb.filename.split('/')[-1]}:{tb.lineno}"


def _selfcheck_source(case, charts):
    """generator <-> source oracle: the emitted file denotes the score (else the CHECKER is wrong, not reamber)."""
    sc = Score(case["score"])
    assert len(charts) == len(case["score"]["charts"]), "chart count"
    slack = 0.5 + 1e-6 if case.get("int_ms") else 1e-6
    pairs = list(zip(case["score"]["charts"], charts))
    if case["src"] == "o2j":
        # difficulties after the first may carry fewer tempo events than the score (see ojn_spec_of); the byte
        # builder and den_ojn are cross-checked against each other by C07's own self-check
        pairs = pairs[:1]
    for ch, d in pairs:
        w = sc.intended(ch)
        key = lambda o: (o[1], float(o[2]))  # noqa
        assert len(w["objs"]) == len(d["objs"]), "object count"
        for a, b in zip(sorted(w["objs"], key=key), sorted(d["objs"], key=key)):
            assert a[0] == b[0] and a[1] == b[1] and abs(float(a[2]) - b[2]) <= slack and abs(float(a[3]) - b[3]) <= slack, f"object {a} vs {b}"
        assert len(w["tempo"]) == len(d["tempo"]), "tempo points"
        for (t, v), (t2, v2) in zip(w["tempo"], sorted(d["tempo"])):
            assert abs(float(t) - t2) <= 1e-6 and abs(float(v) - v2) <= 1e-9 * float(v), f"tempo {(t, v)} vs {(t2, v2)}"


def run_case(case):
    """-> [(what, detail)]"""
    pair = f"{NAME[case['src']]}To{NAME[case['tgt']]}"
    payload = BUILD[case["src"]](case)
    want = denote_source(case, payload)
    _selfcheck_source(case, want)
    via = _via(case)
    if via.get("edit"):  # the chart AS IT IS after the change
        if via["edit"][0] == "shift":
            d_ms = via["edit"][1]
            want = [dict(objs=[(k, c, t + d_ms, e + d_ms) for k, c, t, e in w["objs"]], tempo=[(t + d_ms, v) for t, v in w["tempo"]]) for w in want]
        else:
            sw = [{ab[0]: ab[1], ab[1]: ab[0]} if ab else {} for ab in _swap_pairs(case)]
            want = [dict(objs=[(k, x.get(c, c), t, e) for k, c, t, e in w["objs"]], tempo=w["tempo"]) for w, x in zip(want, sw)]
    n_more = int(via.get("rewrite") or 0)
    with _quiet():
        if via.get("before"):
            real_before(case)
        try:
            m = real_read(case, payload)
        except Exception as ex:
            return _by_family(case, pair, [(f"{pair}.no_exception", _exc("read", ex))])
        try:
            outs = real_convert(case, m)
        except Exception as ex:
            return _by_family(case, pair, [(f"{pair}.no_exception", _exc("convert", ex))])
        texts, later = [], []
        for i, o in enumerate(outs):
            try:
                texts.append(real_write(case, o))
            except Exception as ex:
                return _by_family(case, pair, [(f"{pair}.no_exception", _exc(f"write (chart {i})", ex))])
            prev = texts[-1]
            for k in range(1, n_more + 1):  # the same converted chart written again
                try:
                    prev = real_write(case, o, k, prev)
                except Exception as ex:
                    return _by_family(case, pair, [(f"{pair}.no_exception", _exc(f"write #{k + 1} of the same converted chart (chart {i})", ex))])
                later.append((i, k, prev))
    fails = []
    if len(texts) != len(want):
        return [(f"{pair}.objects", f"the source file holds {len(want)} chart(s), the conversion gave {len(texts)} file(s)")]
    for i, k, text in [(i, 0, t) for i, t in enumerate(texts)] + later:
        w = want[i]
        tag = (f"chart {i}: " if len(want) > 1 else "") + (f"write #{k + 1} of the same converted chart: " if k else "")
        bad, got = denote_target(case["tgt"], text, case.get("out_layout"))
        if bad:
            fails.append((f"{pair}.valid", tag + "; ".join(bad)[:600]))
        if got is not None:
            fails += [(f"{pair}.{a}", tag + d) for a, d in compare_with_offset_family(case, w, got)]
    return _by_family(case, pair, _by_early_sv(case, pair, fails))


def _by_early_sv(case, pair, fails):
    """ONE id for one root cause: a file with a scroll-velocity point BEFORE its first tempo point whose written timeline is
    moved by one constant (start_offset), while the same file without those points has no start_offset failure, reports
    `<Src>To<Tgt>.sv_before_first_tempo_point` instead (beat 0 of the target was taken from the earliest object of any kind)."""
    early = [x for x in case.get("svs") or () if Fraction(x[0]) < 0]
    if not early or f"{pair}.start_offset" not in {w for w, _ in fails}:
        return fails
    twin = dict(case, svs=[x for x in case["svs"] if Fraction(x[0]) >= 0])
    if f"{pair}.start_offset" in {w for w, _ in run_case(twin)}:
        return fails
    return [(f"{pair}.sv_before_first_tempo_point", f"scroll-velocity point(s) at beat {[x[0] for x in early]} before the first tempo point; without them the same file has no start_offset failure.  " + d) if w == f"{pair}.start_offset" else (w, d) for w, d in fails]


def _top_column_unused(case):
    return case["src"] != "bms" and any(max((o[0] for o in ch["objs"]), default=-1) < ch["keys"] - 1 for ch in case["score"]["charts"])


def _uniq(fails):
    seen, uniq = set(), []
    for w_, d in fails:  # one detail per clause
        if w_ not in seen:
            seen.add(w_)
            uniq.append((w_, d))
    return uniq


def _by_family(case, pair, fails):
    """One detail per clause.  A file whose top column holds no object (its declared key count exceeds the highest
    used column + 1) reports the clauses that ALSO fail for its twin - the same file plus one hit in the top column -
    under their own ids, and everything the twin does not show under ONE id, `declared_key_count` (one root cause,
    one id: the key count was taken from the used columns instead of the file's declaration)."""
    fails = _uniq(fails)
    if not fails or not _top_column_unused(case):
        return fails
    import copy

    twin = copy.deepcopy(case)
    for ch in twin["score"]["charts"]:
        if max((o[0] for o in ch["objs"]), default=-1) < ch["keys"] - 1:
            ch["objs"].append([ch["keys"] - 1, "1/2", "0"])
    twin_ids = {w for w, _ in run_case(twin)}
    own = [f for f in fails if f[0] not in twin_ids]
    if not own:
        return fails
    ch = next(ch for ch in case["score"]["charts"] if max((o[0] for o in ch["objs"]), default=-1) < ch["keys"] - 1)
    detail = f"the source file declares {ch['keys']} keys and uses columns {sorted({o[0] for o in ch['objs']})}; with one more hit, in column {ch['keys'] - 1}, the same file passes these clause(s): {[w for w, _ in own]}; first: {own[0][1]}"
    return [f for f in fails if f[0] in twin_ids] + [(f"{pair}.declared_key_count", detail)]


# ============================================================================= the bounded stand-ins


def _nontrivial(case):
    sc = case["score"]
    return len(sc["tempo"]) >= 2 and any(Fraction(o[2]) for ch in sc["charts"] for o in ch["objs"])


def _drive(rep, src, n_quick, n_thorough):
    rng = rep.rng
    N = rep.n(n_quick, n_thorough)
    tgts = TARGETS[src]
    extra = {
        "osu": "object times written as whole ms in half of the files (then <= 0.5 ms off the grid), exact decimals in the other half; timing-point times always exact; one SV line in half of the files",
        "qua": "Mode Keys4 / Keys7; object times written as whole ms in half of the files, exact in the other half; block / flow records; one SV in half of the files",
        "sm": "1-2 charts (hits and holds only, symbols 1 2 3), rows per measure the smallest of {4,8,12,16,24,48,192} that fits, `#STOPS:;`, plain / no comments",
        "bms": "layout = any of the 5 channel layouts with enough lanes; tempo changes through channel 03 (integer bpm <= 255) or 08; #LNOBJ ZZ long notes; one line per (measure, lane), lines in measure order, so file order = time order in every lane (the reader pairs long notes in file order: known finding F6, kept away from)",
        "o2j": "3 difficulties sharing the tempo events (header tempo + channel-1 events at measure starts), 7 columns, hits / head-tail pairs across packages and measures; O2JToBMS called with its default move_right_by=1 (expected column + 1) or with 0",
    }[src]
    rep.bound = (
        f"per target ({[NAME[t] for t in tgts]}) first the smallest files (per key count one hit, then hit + hold + hit with a tempo change; beat 0 at 0 / 500 ms), then {N} generated {NAME[src]} source files = {N * len(tgts)} random cases: 2-6 measures of 4/4 (8%: 20-60 measures), 1-4 tempo points ON MEASURE LINES (15% of the changes repeat the previous bpm) (bpm pool {list(BPM_POOL)}: <= 3 decimals, float32-exact), "
        f"beat 0 at {sorted(set(T0_POOL)) if src in ('osu', 'qua', 'sm') else [0]} ms, 1-5 used columns incl. the top one (in 10% of the osu / Quaver / .sm / O2Jam files the top column is left empty instead: family declared_key_count), 1-4 objects per column at k/d beat, d in {list(DENS)} (the 1/48-beat grid), 40% holds of {list(HOLD_BEATS)} beats (across tempo changes and measure lines), "
        f">= 1/4 beat between objects of one column; key counts: Quaver side {list(QUA_KEYCOUNTS)}, .sm side {list(SM_TYPE)}, osu <-> BMS 1..10, O2Jam 7; BMS target layout = any layout with enough lanes; metadata text plain ASCII, in a quarter of the files (not O2Jam) from another pool: Shift-JIS full-width / U+3000, general Unicode incl. tab, U+00A0, U+3000, emoji, wave dash (not into / out of BMS), punctuation ':' ',' '#' '/' '\"' (never ';', which ends a .sm tag, nor '//', which starts a .sm comment). {extra}. "
        f"MIXTURES (35% of the files draw one object shape from {list(SHAPES)}: hits only / holds only / top column holds only / every object in a chord at exactly one beat, also beat 0 / objects on beat 0, measure lines and the tempo changes / a chart without objects - the only one, or the middle one of three - ; 15% of those put beat 0 at {list(T0_FAR)} ms); "
        "osu / Quaver timing points in shuffled file order (30%); Quaver files with every omissible key omitted and record keys shuffled (40%); osu <-> BMS key counts 1..10; move_right_by 1 or 2 (OsuToBMS / QuaToBMS, 30%), default / 0 / 2 (O2JToBMS); "
        "CALLS (40% another way of reading: str / list with line ends / through an instance / Quaver safe=False / BMS layout positional or defaulted / read_file with str or pathlib.Path, LF or CRLF; 20% convert through an instance; raise_bad_mode=False / True given where the converter has it (30%); 10% the same read object first converted to another game and written; 10% convert + write twice, second output compared; "
        "25% write_file instead of write; BMS target: no_sample_default given (25%), note_channel_config defaulted when it is BME). "
        f"FILE-SYSTEM STATE / REPETITION / VALUE RANGE: half of the write_file calls go to a path that already holds another file (300 KB of target-format lines, or 3 bytes); 40% of the read_file calls use a path from which another file of the format was read before; "
        "15% write the SAME converted chart 1-2 further times (write <-> write_file alternating, write_file onto the previous output), every output compared; 8% send another small file of the source format through read -> convert -> write first; "
        "8% call - change - call again: convert + write, then the same read object changed through the list properties or the stack (osu / Quaver / .sm sources: every time moved by 250 / 1000 / -125 / 3 ms; every source: the objects of the highest and the lowest used column exchanged), then convert + write again, compared with the source's denotation changed in the same way; "
        f"10% of the scores draw half of their tempo values from {list(BPM_EDGE)} (255 = the top of BMS channel 03); 15% of the OsuToBMS / QuaToBMS / O2JToBMS cases pass a NEGATIVE move_right_by (-1 / -2) on a file whose lowest columns were emptied. "
        f"RELATIVE ORDER OF LIST KINDS / ALL FIELDS / SPECIAL VALUES / OTHER GRIDS (each a function of the case): 35% of the osu / Quaver files carry 1-3 further scroll-velocity points, the first of them BEFORE the first tempo point (-3/2, -1/48, -16, -5/4 beat) or ON it, others on the last tempo change / 3 beats after the last object (osu: lines in time order unless shuffled; 40% of these osu files with 1-2 storyboard samples before the first tempo point); "
        "20% `rich`: every column of every record non-default and different from its siblings (osu y / hit sound / hit-sample numbers / file name per object, sample set / index / volume per timing point; Quaver HitSound + EditorLayer per record; .sm every header tag with a text of its own incl. #BGCHANGES / #FGCHANGES / #DISPLAYBPM / SELECTABLE NO, chart description / meter / radar; BMS #GENRE #SUBTITLE #SUBARTIST #STAGEFILE #BANNER #DIFFICULTY #TOTAL #RANK); "
        "30% of the BMS files: no #LNOBJ header at all (files without holds) or #LNOBJ ZY / 02 / AA, with id ZZ an ordinary sample of some hits; 30% of the BMS files start with a BGM sample line (channel 01) on the first measure line and end with one two measures after the last line; "
        f"20%: 60% of the objects moved to whole beat + k/q, q from {list(FINE_Q)}, where their column's neighbours leave room (.sm sources only when every measure fits 192 rows). "
        "Kept away from (known limitations): ';' and '//' in metadata text (the .sm writer emits them unescaped: stray text after the tag / the tag's own ';' and the next tag commented out), zero-length holds and two tempo points at one time (a .sm / BMS file cannot say them), tempo changes off measure lines (.sm #BPMS beats have two decimals; reseating of changes < 0.001 measure apart), BMS lines out of time order, objects before the first tempo point, stops, measure-length changes, SM mines / rolls / lifts / fakes"
    )
    rep.rule = "a case is one source file + one target game + the way the three calls are made (real read -> real convert -> real write -> target oracle vs source oracle); non-trivial when the score has a tempo change and a hold; every source file is first parsed by its own oracle and compared with the score it was made from (self-check)"
    per = {t: 0 for t in tgts}
    by_clause, classes = {}, dict(beat0_not_at_0ms=0, top_column_unused=0, whole_ms_object_times=0, long_20_to_60_measures=0)
    simple = {t: simple_cases(src, t) for t in tgts}
    for i in range(-max(len(v) for v in simple.values()), N):
        for tgt in tgts:
            if rep.out_of_time(40, 540):
                break
            if i < 0:
                k = i + len(simple[tgt])
                if k < 0:
                    continue
                case = simple[tgt][k]
            else:
                case = gen_case(rng, src, tgt)
            rep.case(case, nontrivial=_nontrivial(case))
            per[tgt] += 1
            classes["beat0_not_at_0ms"] += case["score"]["t0"] != 0
            classes["top_column_unused"] += _top_column_unused(case)
            classes["whole_ms_object_times"] += bool(case.get("int_ms"))
            classes["long_20_to_60_measures"] += max((Fraction(o[1]) for ch in case["score"]["charts"] for o in ch["objs"]), default=0) >= 28
            if case.get("shape"):
                classes["shape_" + case["shape"]] = classes.get("shape_" + case["shape"], 0) + 1
            for k_, v_ in (case.get("via") or {}).items():
                key = f"via_{k_}_{v_}" if k_ in ("read", "pre") else f"via_{k_}"
                classes[key] = classes.get(key, 0) + 1
            for k_ in ("tps_shuffled", "sparse", "text", "svs", "early_samples", "rich", "fine", "bgm"):
                classes[k_] = classes.get(k_, 0) + bool(case.get(k_))
            if case.get("svs"):
                classes["sv_before_first_tempo_point"] = classes.get("sv_before_first_tempo_point", 0) + any(Fraction(b) < 0 for b, _ in case["svs"])
                classes["sv_on_first_tempo_point"] = classes.get("sv_on_first_tempo_point", 0) + any(Fraction(b) == 0 for b, _ in case["svs"])
            if "lnobj" in case:
                classes[f"lnobj_{case['lnobj']}"] = classes.get(f"lnobj_{case['lnobj']}", 0) + 1
            if case.get("move_right_by") is not None:
                classes[f"move_right_by_{case['move_right_by']}"] = classes.get(f"move_right_by_{case['move_right_by']}", 0) + 1
            for what, d in run_case(case):
                by_clause[what] = by_clause.get(what, 0) + 1
                rep.fail(what, case, d)
    rep.extra["cases_per_pair"] = {f"{NAME[src]}To{NAME[t]}": n for t, n in per.items()}
    rep.extra["cases_by_class"] = classes
    rep.extra["failing_cases_by_clause"] = by_clause


@bounded("C09", note="generated .osu files -> real OsuMap.read -> OsuToQua / OsuToSM / OsuToBMS -> real write -> den_qua / den_sm / den_bms of the written text vs den_osu of the source: valid, same objects, columns, hold ends, tempo timeline")
def c09_from_osu(rep):
    _drive(rep, "osu", 150, 3000)


@bounded("C09", note="generated .qua files -> real QuaMap.read -> QuaToOsu / QuaToSM / QuaToBMS -> real write -> den_osu / den_sm / den_bms of the written text vs den_qua of the source")
def c09_from_quaver(rep):
    _drive(rep, "qua", 150, 3000)


@bounded("C09", note="generated .sm files -> real SMMapSet.read -> SMToOsu / SMToQua / SMToBMS -> real write (one file per chart) -> den_osu / den_qua / den_bms of the written text vs den_sm of the source")
def c09_from_sm(rep):
    _drive(rep, "sm", 130, 2600)


@bounded("C09", note="generated BMS files (all five layouts) -> real BMSMap.read -> BMSToOsu / BMSToQua / BMSToSM -> real write -> den_osu / den_qua / den_sm of the written text vs den_bms of the source")
def c09_from_bms(rep):
    _drive(rep, "bms", 150, 3000)


@bounded("C09", note="generated .ojn files (3 difficulties) -> real O2JMapSet.read -> O2JToOsu / O2JToQua / O2JToSM / O2JToBMS -> real write (one file per difficulty) -> den_osu / den_qua / den_sm / den_bms of the written text vs den_ojn of the source")
def c09_from_o2jam(rep):
    _drive(rep, "o2j", 60, 1200)


def _replay(case, what):
    hit = [d for w, d in run_case(case) if w == what]
    return (bool(hit), hit[0] if hit else "passes")


for _name in ("c09_from_osu", "c09_from_quaver", "c09_from_sm", "c09_from_bms", "c09_from_o2jam"):
    replayer(_name)(_replay)
