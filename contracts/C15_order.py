"""C15 - a chart is a set of timed objects: results do not depend on row order.

Deductive part (relational / 2-safety): the REAL operation is executed symbolically on a chart and on the same
chart with the rows of EVERY list permuted (all permutations of the 0..3 rows of each list, one lemma instance
per permutation choice), over the static-shape frame model; the two results must hold the same objects (rows as
multisets).  Covered this way: rate, the converters OsuToQua / QuaToOsu / OsuToBMS, sv_normalize (override).
Writers, full_ln, hitsound_copy, dominant_bpm and scroll_speed: the permutation twin contracts/C15_bounded.py.
"""
import itertools

from pyvc.dsl import contract, lemma, bounded, Int, Real, Bool, Obj, Const, Choice, ListT, TimedListT, MapT, resolve
from pyvc.ghost import rows, labels, columns, same_multiset, eqr
from contracts.C12_stack import _lists, _rand_map, OSU, BMS, SHAPE_NOTE

QUA = "reamber.quaver.QuaMap:QuaMap"
_POSBPM = dict(bpms=dict(bpm=Real(lo=1)))
SHAPES = [MapT(OSU, dict(hits=3, holds=2, bpms=2, svs=2), overrides=_POSBPM), MapT(OSU, dict(hits=2, holds=0, bpms=3, svs=1), overrides=_POSBPM)]
QSHAPES = [MapT(QUA, dict(hits=2, holds=2, bpms=2, svs=2), overrides=_POSBPM)]

PERMS = {0: [()], 1: [(0,)], 2: [(1, 0)], 3: [(1, 2, 0), (2, 1, 0), (0, 2, 1)]}  # non-identity permutations per length (identity is trivial)


def permuted(m, pick):
    """The same chart with every list's rows reordered (deep copy first; labels travel with their rows)."""
    m2 = m.deepcopy()
    for name in list(m2.objs):
        L = m2.objs[name]
        n = len(L)
        ps = PERMS.get(n, [tuple(range(n))])
        p = ps[pick % len(ps)]
        if n > 1:
            m2.objs[name] = type(L)(L.df.iloc[list(p)])
    return m2


def _same_objects(a, b):
    return all(len(rows(x)) == len(rows(y)) and same_multiset(rows(x), rows(y)) for x, y in zip(_lists(a), _lists(b)))


def _wit(rng, cls):
    for _ in range(30):
        yield dict(m=_rand_map(rng, cls), pick=rng.randrange(0, 3), by=float(rng.choice([0.5, 1.5, 2.0])))


@lemma("C15", args=dict(m=Choice(SHAPES), pick=Choice([0, 1, 2]), by=Real(lo=0.25)))
class rate_is_order_independent:
    assumes = SHAPE_NOTE + ["relational (2-safety): the operation is run on the chart and on its row-permuted twin"]

    def body(m, pick, by):
        return (m.rate(by), permuted(m, pick).rate(by))

    def ensures_same_objects(m, pick, by, result):
        return _same_objects(result[0], result[1])

    def witnesses(rng):
        return _wit(rng, OSU)


@lemma("C15", args=dict(m=Choice(SHAPES), pick=Choice([0, 1, 2])))
class osu_to_qua_is_order_independent:
    assumes = SHAPE_NOTE + ["relational (2-safety)"]

    def body(m, pick):
        from reamber.algorithms.convert.OsuToQua import OsuToQua

        return (OsuToQua.convert(m, False), OsuToQua.convert(permuted(m, pick), False))

    def ensures_same_objects(m, pick, result):
        return _same_objects(result[0], result[1])

    def witnesses(rng):
        return ({k: v for k, v in w.items() if k != "by"} for w in _wit(rng, OSU))


@lemma("C15", args=dict(m=Choice(QSHAPES), pick=Choice([0, 1, 2])))
class qua_to_osu_is_order_independent:
    assumes = SHAPE_NOTE + ["relational (2-safety)"]

    def body(m, pick):
        from reamber.algorithms.convert.QuaToOsu import QuaToOsu

        return (QuaToOsu.convert(m), QuaToOsu.convert(permuted(m, pick)))

    def ensures_same_objects(m, pick, result):
        return _same_objects(result[0], result[1])

    def witnesses(rng):
        return ({k: v for k, v in w.items() if k != "by"} for w in _wit(rng, QUA))


@lemma("C15", args=dict(m=Choice(SHAPES), pick=Choice([0, 1, 2]), ref=Real(lo=1)))
class sv_normalize_is_order_independent:
    assumes = SHAPE_NOTE + ["relational (2-safety); override given"]

    def body(m, pick, ref):
        from reamber.algorithms.generate.sv_normalize import sv_normalize

        return (sv_normalize(m, ref), sv_normalize(permuted(m, pick), ref))

    def ensures_same_svs(m, pick, ref, result):
        return len(rows(result[0])) == len(rows(result[1])) and same_multiset(rows(result[0]), rows(result[1]))

    def witnesses(rng):
        for w in _wit(rng, OSU):
            if len(w["m"].bpms):
                yield dict(m=w["m"], pick=w["pick"], ref=150.0)
