"""C13 - rate change.

Deductive part: Map.rate / OsuMap.rate executed from their REAL source (deepcopy, stack, the three stacked
assignments, the osu extras) over the static-shape frame model.  Write -> read of rated charts, mapsets and
the StepMania file offset: contracts/C13_bounded.py.
"""
from pyvc.dsl import contract, lemma, bounded, Int, Real, Bool, Obj, Const, Choice, ListT, TimedListT, MapT, resolve
from pyvc.ghost import rows, labels, columns, unchanged, implies, eqr
from contracts.C12_stack import _lists, _col, _rand_map, OSU, BMS, SHAPE_NOTE

QUA = "reamber.quaver.QuaMap:QuaMap"

SHAPES = [
    MapT(OSU, dict(hits=2, holds=1, bpms=1, svs=1), fields=dict(preview_time=1000)),
    MapT(BMS, dict(hits=1, holds=2, bpms=1)),
    MapT(QUA, dict(hits=1, holds=0, bpms=1, svs=0)),
    MapT(OSU, dict(hits=0, holds=0, bpms=0, svs=0)),
]

TIME_COLS = ("offset", "length")


def _rated_row(r, by):
    return {k: (v / by if k in TIME_COLS else (v * by if k == "bpm" else v)) for k, v in r.items()}


def _row_eq(a, b):
    return all(eqr(a[k], b[k]) if k in ("offset", "length", "bpm") else a[k] == b[k] for k in b)


@lemma("C13", args=dict(m=Choice(SHAPES), by=Real()))
class rate_scales_time_uniformly:
    """rate(by): every time and duration / by, every bpm * by, every other field unchanged, list classes,
    lengths and order kept; the original is untouched and shares no frame with the result."""

    assumes = SHAPE_NOTE

    def requires(m, by):
        return by > 0

    def body(m, by):
        return m.rate(by)

    def ensures_every_list_rated(m, by, result, old):
        return all(
            type(a) is type(b) and columns(a) == columns(b) and len(rows(a)) == len(rows(b))
            and all(_row_eq(ra, _rated_row(rb, by)) for ra, rb in zip(rows(a), rows(b)))
            for a, b in zip(_lists(result), _lists(old.m))
        )

    def ensures_original_untouched(m, by, result, old):
        return all(unchanged(a, b) for a, b in zip(_lists(m), _lists(old.m)))

    def ensures_new_chart(m, by, result, old):
        return result is not m and all(a.df is not b.df for a, b in zip(_lists(result), _lists(m))) and type(result) is type(m)

    def witnesses(rng):
        for _ in range(60):
            yield dict(m=_rand_map(rng, rng.choice([OSU, BMS, QUA])), by=float(rng.choice([0.5, 0.75, 1, 1.1, 1.5, 2])))


@lemma("C13", args=dict(m=Choice(SHAPES[:3]), a=Real(), b=Real()))
class rate_composes:
    """rate(a).rate(b) == rate(a * b), and rate(1) is the identity (over the reals: A1)."""

    assumes = SHAPE_NOTE + ["composition proved over real arithmetic only (exact float equality is not claimed)"]

    def requires(m, a, b):
        return a > 0 and b > 0

    def body(m, a, b):
        return (m.rate(a).rate(b), m.rate(a * b), m.rate(1))

    def ensures_composition(m, a, b, result, old):
        return all(all(_row_eq(x, y) for x, y in zip(rows(p), rows(q))) and len(rows(p)) == len(rows(q)) for p, q in zip(_lists(result[0]), _lists(result[1])))

    def ensures_rate_one_is_identity(m, a, b, result, old):
        return all(all(_row_eq(x, y) for x, y in zip(rows(p), rows(q))) and len(rows(p)) == len(rows(q)) for p, q in zip(_lists(result[2]), _lists(old.m)))

    def witnesses(rng):
        for _ in range(40):
            yield dict(m=_rand_map(rng, rng.choice([OSU, BMS])), a=float(rng.choice([0.5, 1.5, 2])), b=float(rng.choice([0.75, 1, 3])))


@lemma("C13", args=dict(m=MapT(OSU, dict(hits=1, holds=1, bpms=1, svs=0), fields=dict(preview_time=1234)), by=Real()))
class osu_rate_scales_preview_point:
    """OsuMap.rate also scales the preview point (and leaves the other header fields alone)."""

    assumes = SHAPE_NOTE

    def requires(m, by):
        return by > 0

    def body(m, by):
        return m.rate(by)

    def ensures_preview_scaled(m, by, result, old):
        return eqr(result.preview_time * by, 1234) and result.title == m.title and result.circle_size == m.circle_size and m.preview_time == 1234

    def witnesses(rng):
        for by in (0.5, 1.0, 1.5, 2.0):
            m = _rand_map(rng, OSU)
            m.preview_time = 1234
            yield dict(m=m, by=by)
