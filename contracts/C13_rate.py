"""C13 - rate change.

Deductive part: Map.rate / OsuMap.rate executed from their REAL source (deepcopy, stack, the three stacked
assignments, the osu extras) over the static-shape frame model.  Write -> read of rated charts, mapsets and
the StepMania file offset: contracts/C13_bounded.py.
"""
from pyvc.dsl import contract, lemma, bounded, Int, Real, Bool, Obj, Const, Choice, ListT, TimedListT, MapT, resolve
from pyvc.ghost import rows, labels, columns, unchanged, implies, eqr
from contracts.C12_stack import _lists, _col, _rand_map, OSU, BMS, SHAPE_NOTE

QUA = "reamber.quaver.QuaMap:QuaMap"

SHAPES = [
    MapT(OSU, dict(hits=2, holds=1, bpms=1, svs=1), fields=dict(preview_time=1000)),
    MapT(BMS, dict(hits=1, holds=2, bpms=1)),
    MapT(QUA, dict(hits=1, holds=0, bpms=1, svs=0)),
    MapT(OSU, dict(hits=0, holds=0, bpms=0, svs=0)),
]

TIME_COLS = ("offset", "length")


def _rated_row(r, by):
    return {k: (v / by if k in TIME_COLS else (v * by if k == "bpm" else v)) for k, v in r.items()}


def _row_eq(a, b):
    return all(eqr(a[k], b[k]) if k in ("offset", "length", "bpm") else a[k] == b[k] for k in b)


@lemma("C13", args=dict(m=Choice(SHAPES), by=Real()))
class rate_scales_time_uniformly:
    """rate(by): every time and duration / by, every bpm * by, every other field unchanged, list classes,
    lengths and order kept; the original is untouched and shares no frame with the result."""

    assumes = SHAPE_NOTE

    def requires(m, by):
        return by > 0

    def body(m, by):
        return m.rate(by)

    def ensures_every_list_rated(m, by, result, old):
        return all(
            type(a) is type(b) and columns(a) == columns(b) and len(rows(a)) == len(rows(b))
            and all(_row_eq(ra, _rated_row(rb, by)) for ra, rb in zip(rows(a), rows(b)))
            for a, b in zip(_lists(result), _lists(old.m))
        )

    def ensures_original_untouched(m, by, result, old):
        return all(unchanged(a, b) for a, b in zip(_lists(m), _lists(old.m)))

    def ensures_new_chart(m, by, result, old):
        return result is not m and all(a.df is not b.df for a, b in zip(_lists(result), _lists(m))) and type(result) is type(m)

    def witnesses(rng):
        for _ in range(60):
            yield dict(m=_rand_map(rng, rng.choice([OSU, BMS, QUA])), by=float(rng.choice([0.5, 0.75, 1, 1.1, 1.5, 2])))


@lemma("C13", args=dict(m=Choice(SHAPES[:3]), a=Real(), b=Real()))
class rate_composes:
    """rate(a).rate(b) == rate(a * b), and rate(1) is the identity (over the reals: A1)."""

    assumes = SHAPE_NOTE + ["composition proved over real arithmetic only (exact float equality is not claimed)"]

    def requires(m, a, b):
        return a > 0 and b > 0

    def body(m, a, b):
        return (m.rate(a).rate(b), m.rate(a * b), m.rate(1))

    def ensures_composition(m, a, b, result, old):
        return all(all(_row_eq(x, y) for x, y in zip(rows(p), rows(q))) and len(rows(p)) == len(rows(q)) for p, q in zip(_lists(result[0]), _lists(result[1])))

    def ensures_rate_one_is_identity(m, a, b, result, old):
        return all(all(_row_eq(x, y) for x, y in zip(rows(p), rows(q))) and len(rows(p)) == len(rows(q)) for p, q in zip(_lists(result[2]), _lists(old.m)))

    def witnesses(rng):
        for _ in range(40):
            yield dict(m=_rand_map(rng, rng.choice([OSU, BMS])), a=float(rng.choice([0.5, 1.5, 2])), b=float(rng.choice([0.75, 1, 3])))


@lemma("C13", args=dict(m=MapT(OSU, dict(hits=1, holds=1, bpms=1, svs=0), fields=dict(preview_time=1234)), by=Real()))
class osu_rate_scales_preview_point:
    """OsuMap.rate also scales the preview point (and leaves the other header fields alone)."""

    assumes = SHAPE_NOTE

    def requires(m, by):
        return by > 0

    def body(m, by):
        return m.rate(by)

    def ensures_preview_scaled(m, by, result, old):
        return eqr(result.preview_time * by, 1234) and result.title == m.title and result.circle_size == m.circle_size and m.preview_time == 1234

    def witnesses(rng):
        for by in (0.5, 1.0, 1.5, 2.0):
            m = _rand_map(rng, OSU)
            m.preview_time = 1234
            yield dict(m=m, by=by)


# ----------------------------------------------------------------------------- bounded: charts built in code from integer literals


def _int_chart(game, rows):
    """A chart built the way user code builds one: items with INTEGER literals (so the frames' columns are
    int64 before the rate change)."""
    from reamber.base.Hit import Hit
    from reamber.base.Hold import Hold
    from reamber.base.Bpm import Bpm

    if game == "base":
        from reamber.base.Map import Map
        from reamber.base.lists.notes.HitList import HitList
        from reamber.base.lists.notes.HoldList import HoldList
        from reamber.base.lists.BpmList import BpmList

        m = Map()
        m.hits = HitList([Hit(offset=o, column=c) for o, c in rows["hits"]])
        m.holds = HoldList([Hold(offset=o, column=c, length=l) for o, c, l in rows["holds"]])
        m.bpms = BpmList([Bpm(offset=o, bpm=b) for o, b in rows["bpms"]])
        return m
    if game == "osu":
        from reamber.osu.OsuMap import OsuMap
        from reamber.osu.OsuHit import OsuHit
        from reamber.osu.OsuHold import OsuHold
        from reamber.osu.OsuBpm import OsuBpm
        from reamber.osu.lists.notes.OsuHitList import OsuHitList
        from reamber.osu.lists.notes.OsuHoldList import OsuHoldList
        from reamber.osu.lists.OsuBpmList import OsuBpmList

        m = OsuMap()
        m.hits = OsuHitList([OsuHit(offset=o, column=c) for o, c in rows["hits"]])
        m.holds = OsuHoldList([OsuHold(offset=o, column=c, length=l) for o, c, l in rows["holds"]])
        m.bpms = OsuBpmList([OsuBpm(offset=o, bpm=b) for o, b in rows["bpms"]])
        return m
    from reamber.sm.SMMap import SMMap
    from reamber.sm.SMHit import SMHit
    from reamber.sm.SMHold import SMHold
    from reamber.sm.SMBpm import SMBpm
    from reamber.sm.lists.notes.SMHitList import SMHitList
    from reamber.sm.lists.notes.SMHoldList import SMHoldList
    from reamber.sm.lists.SMBpmList import SMBpmList

    m = SMMap()
    m.hits = SMHitList([SMHit(offset=o, column=c) for o, c in rows["hits"]])
    m.holds = SMHoldList([SMHold(offset=o, column=c, length=l) for o, c, l in rows["holds"]])
    m.bpms = SMBpmList([SMBpm(offset=o, bpm=b) for o, b in rows["bpms"]])
    return m


def _int_case_fails(case):
    m = _int_chart(case["game"], case["rows"])
    by = case["by"]
    out = []
    try:
        r = m.rate(by)
        if case.get("then") is not None:
            r = r.rate(case["then"])
            by = by * case["then"]
    except Exception as ex:
        return [("int_typed_chart_rate_raises", f"{type(ex).__name__}: {ex}")]
    tol = 1e-9

    def close(a, b):
        return abs(float(a) - float(b)) <= tol * max(1.0, abs(float(b)))

    for (o, c), (_, row) in zip(case["rows"]["hits"], r.hits.df.iterrows()):
        if not close(row["offset"], o / by) or row["column"] != c:
            out.append(("int_typed_times_divided", f"hit ({o},{c}) rate {by}: offset {row['offset']} want {o / by}"))
            break
    for (o, c, l), (_, row) in zip(case["rows"]["holds"], r.holds.df.iterrows()):
        if not close(row["offset"], o / by) or not close(row["length"], l / by):
            out.append(("int_typed_times_divided", f"hold ({o},{c},{l}) rate {by}: got ({row['offset']},{row['length']}) want ({o / by},{l / by})"))
            break
    for (o, b), (_, row) in zip(case["rows"]["bpms"], r.bpms.df.iterrows()):
        if not close(row["bpm"], b * by) or not close(row["offset"], o / by):
            out.append(("int_typed_bpm_multiplied", f"bpm ({o},{b}) rate {by}: got ({row['offset']},{row['bpm']}) want ({o / by},{b * by})"))
            break
    return out


@bounded("C13", note="rate on charts built in code from integer literals (int64 columns): times / r, bpm * r exactly as for float-typed charts; also rate(a).rate(b)")
def rate_int_typed_charts(rep):
    rng = rep.rng
    N = rep.n(150, 2000)
    rep.bound = f"{N} charts of 3 classes (base Map, OsuMap, SMMap) built from items with integer literals: 1-4 hits, 0-3 holds, 1-2 bpms; rates from (0.3, 0.75, 1.6, 4, 7) and pairs of them"
    rep.rule = "a case is (class, rows, rate[, second rate]); non-trivial when some rated value is not an integer"
    for _ in range(N):
        rows = dict(hits=[(rng.randrange(0, 5000), rng.randrange(0, 4)) for _ in range(rng.randrange(1, 5))],
                    holds=[(rng.randrange(0, 5000), rng.randrange(0, 4), rng.randrange(1, 900)) for _ in range(rng.randrange(0, 4))],
                    bpms=[(0, rng.choice([120, 123, 175]))] + ([(rng.randrange(1, 4000), rng.choice([90, 200, 181]))] if rng.random() < 0.5 else []))
        case = dict(game=rng.choice(["base", "osu", "sm"]), rows=rows, by=rng.choice([0.3, 0.75, 1.6, 4, 7]), then=rng.choice([None, None, 0.75, 1.6]))
        nontrivial = any((o / case["by"]) != int(o / case["by"]) for o, _ in rows["hits"])
        rep.case(case, nontrivial=nontrivial)
        for what, detail in _int_case_fails(case):
            rep.fail(what, case, detail)


from pyvc.bounded import replayer  # noqa: E402


@replayer("rate_int_typed_charts")
def _replay_int(case, what):
    hit = [d for w, d in _int_case_fails(case) if w == what]
    return (bool(hit), hit[0] if hit else "passes")
