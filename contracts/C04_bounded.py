"""C04 (BMS reading) - bounded stand-in.

`den_bms` is an independent, exact (fractions.Fraction) interpreter of the BMS/BME/PMS text format written from
the format description in DESIGN appendix B (NOT from reamber's reader).  The bounded check generates BMS texts
inside the property's domain, reads them with the REAL `BMSMap.read` / `BMSMap.read_file` and compares.
"""
from __future__ import annotations

import os
import re
import tempfile
from decimal import Decimal
from fractions import Fraction

from pyvc.dsl import bounded
from pyvc.bounded import replayer

# =============================================================================================== the oracle

_DATA = re.compile(rb"^#([0-9]{3})([0-9A-Za-z]{2}):([0-9A-Za-z]*)$")
_B36 = "0123456789ABCDEFGHIJKLMNOPQRSTUVWXYZ"
ENC = "shift_jis"


def b36(n: int) -> bytes:
    return (_B36[n // 36] + _B36[n % 36]).encode("ascii")


class BMSDen:
    """What a BMS text denotes under one channel layout."""

    def __init__(self):
        self.title = self.artist = self.level = None  # bytes or None (header absent)
        self.bpm_text = None  # bytes
        self.bpm0 = None  # Fraction: the #BPM header
        self.exbpm = {}  # id -> Fraction
        self.exbpm_text = {}  # id -> bytes
        self.wav = {}  # id -> file name bytes
        self.lnobj = None  # bytes or None
        self.other = {}  # remaining `#KEY value` headers
        self.tempo_beats = []  # [(beat, bpm)] sorted, first at beat 0
        self.tempo = []  # [(ms, bpm)]
        self.hits = []  # [(col, ms, sample|None, beat, id)]
        self.holds = []  # [(col, ms, length_ms, sample|None, beat_head, beat_tail, id_head)]
        self.problems = []  # texts outside the format's well-formed part (unpaired LNOBJ, unknown #BPMxx id ...)
        self.bad_lines = []  # `#` lines that are neither `#KEY value` nor `#mmmcc:pairs`

    def ms(self, beat: Fraction) -> Fraction:
        """Exact time of a beat position: integral of 60000/bpm ms per beat from 0 ms at beat 0."""
        t = Fraction(0)
        tb = self.tempo_beats
        for i, (b0, bpm) in enumerate(tb):
            b1 = tb[i + 1][0] if i + 1 < len(tb) else None
            if b1 is None or beat < b1:
                return t + (beat - b0) * 60000 / bpm
            t += (b1 - b0) * 60000 / bpm
        raise AssertionError("empty tempo timeline")


def _to_lines(src):
    if isinstance(src, (bytes, bytearray)):
        return [ln.strip() for ln in bytes(src).replace(b"\r\n", b"\n").replace(b"\r", b"\n").split(b"\n")]
    out = []
    for ln in src:
        out.append((ln if isinstance(ln, (bytes, bytearray)) else ln.encode(ENC)).strip())
    return out


def note_lanes(layout) -> dict:
    """channel (2 bytes) -> column, for the note channels of a layout table (values that are ints)."""
    return {k: int(v) for k, v in layout.items() if isinstance(v, int) and not isinstance(v, bool)}


def den_bms(src, layout) -> BMSDen:
    """Denotation of a BMS text (bytes, or a list of str/bytes lines) under `layout` (a BMSChannel table).

    Header `#KEY value`; data `#mmmcc:o_0..o_{d-1}`: object j != 00 sits at beat 4*mmm + 4*j/d (4/4 only; a
    channel-02 line is reported in `problems`).  Channel 03: tempo int(o,16); 08: tempo #BPMxx[o]; a tempo event
    at beat 0 replaces #BPM.  Note channels/lanes come from `layout`; per lane in TIME order an object equal to
    #LNOBJ ends a long note begun by the previous object of the lane, any other object is a hit with sample
    #WAV[o]."""
    d = BMSDen()
    lanes = note_lanes(layout)
    events = []  # (beat, channel, id)
    for ln in _to_lines(src):
        if not ln.startswith(b"#"):
            continue  # comments / separators / blank lines carry no meaning
        m = _DATA.match(ln)
        if m:
            measure, ch, seq = int(m.group(1)), m.group(2).upper(), m.group(3)
            if ch == b"02":
                d.problems.append("channel 02 (measure length) is outside the domain")
                continue
            if len(seq) % 2 or not seq:
                d.bad_lines.append(ln)
                continue
            n = len(seq) // 2
            for j in range(n):
                o = seq[2 * j : 2 * j + 2]
                if o == b"00":
                    continue
                events.append((4 * measure + Fraction(4 * j, n), ch, o))
            continue
        parts = ln[1:].split(None, 1)
        if len(parts) != 2:
            if re.match(rb"^#[0-9]", ln):
                d.bad_lines.append(ln)
            continue  # `#KEY` without value: nothing to retain
        key, val = parts[0], parts[1].strip()
        ku = key.upper()
        if ku == b"TITLE":
            d.title = val
        elif ku == b"ARTIST":
            d.artist = val
        elif ku == b"PLAYLEVEL":
            d.level = val
        elif ku == b"LNOBJ":
            d.lnobj = val
        elif ku == b"BPM":
            d.bpm_text, d.bpm0 = val, Fraction(Decimal(val.decode("ascii")))
        elif ku.startswith(b"BPM") and len(ku) == 5:
            d.exbpm[key[3:]] = Fraction(Decimal(val.decode("ascii")))
            d.exbpm_text[key[3:]] = val
        elif ku.startswith(b"WAV") and len(ku) == 5:
            d.wav[key[3:]] = val
        else:
            d.other[key] = val
    if d.bpm0 is None:
        d.problems.append("no #BPM header")
        d.bpm0 = Fraction(130)  # the format's conventional default

    # ---- tempo timeline
    tempo = {}
    for beat, ch, o in events:
        if ch == b"03":
            v = Fraction(int(o, 16))
        elif ch == b"08":
            if o not in d.exbpm:
                d.problems.append(f"channel 08 uses undefined #BPM{o.decode()}")
                continue
            v = d.exbpm[o]
        else:
            continue
        if beat in tempo and tempo[beat] != v:
            d.problems.append(f"two different tempo events at beat {beat}")
        tempo[beat] = v
    if Fraction(0) not in tempo:
        tempo[Fraction(0)] = d.bpm0
    d.tempo_beats = sorted(tempo.items())
    d.tempo = [(d.ms(b), v) for b, v in d.tempo_beats]

    # ---- notes, lane by lane in time order
    per_lane = {}
    for beat, ch, o in events:
        if ch in lanes:
            per_lane.setdefault(lanes[ch], []).append((beat, o))
    for col in sorted(per_lane):
        objs = sorted(per_lane[col], key=lambda x: x[0])
        for a, b in zip(objs, objs[1:]):
            if a[0] == b[0]:
                d.problems.append(f"two objects at beat {a[0]} of column {col}")
        open_head = None  # (beat, id) of the latest object that is still a plain hit
        out = []
        for beat, o in objs:
            if d.lnobj is not None and o.upper() == d.lnobj.upper():
                if open_head is None:
                    d.problems.append(f"#LNOBJ object at beat {beat} of column {col} has no head")
                    continue
                hb, ho = open_head
                out.remove(("hit", hb, ho))
                out.append(("hold", hb, ho, beat))
                open_head = None
            else:
                out.append(("hit", beat, o))
                open_head = (beat, o)
        for e in out:
            if e[0] == "hit":
                d.hits.append((col, d.ms(e[1]), d.wav.get(e[2]), e[1], e[2]))
            else:
                t0, t1 = d.ms(e[1]), d.ms(e[3])
                d.holds.append((col, t0, t1 - t0, d.wav.get(e[2]), e[1], e[3], e[2]))
    d.hits.sort(key=lambda x: (x[0], x[1]))
    d.holds.sort(key=lambda x: (x[0], x[1]))
    return d


# =============================================================================================== generator

LAYOUT_NAMES = ("BMS", "BME", "PMS", "PMS_BME", "PMS_5B")
SUBDIVS = (1, 2, 3, 4, 8, 16, 48, 192)
#: extra subdivisions used only by the "tempo spacing off the snap grid" class: with these the beat distance
#: between two consecutive tempo events can have a fractional part whose denominator exceeds 96
FINE_SUBDIVS = (5, 7, 11, 13, 25, 64, 100, 128, 256, 400, 768, 1000)
#: unusual subdivisions for NOTE lines (objects only, never tempo lines): positions are exact rationals for the reader
NOTE_FINE_SUBDIVS = (5, 7, 480, 1000)
#: (dimension 18) further subdivisions, coarser and finer than the 1/96-beat family the timing engine snaps to: with these objects and tempo
#: changes sit on beat k + 1/24, k + 1/32, k + 1/96 (and, with 768, k + 1/192: off that grid, the class `tempo_spacing_off_snap_grid`)
MORE_SUBDIVS = (6, 12, 24, 32, 96, 128, 384, 768)
#: (dimension 16) ids that have a special meaning only when a header says so: the conventional / default #LNOBJ ids.  Without that header
#: (or with another id in it) they are ordinary object ids
SPECIAL_IDS = ("ZZ", "ZY", "02", "AA")
TOL_MS = 1e-3

TITLES = ["plain title", "Title with  two spaces", "searoad tracks =side blue= (LN-Applied)", "海の道 -remix-", "a:b#c", "7"]
ARTISTS = ["someone", "sasakure.UK / obj:moya", "作曲者 feat. X", "A"]
OTHERS = [("PLAYER", "1"), ("GENRE", "Intelligence(7-OriginalEdit)"), ("TOTAL", "300"), ("RANK", "3"), ("STAGEFILE", "bg image.png"), ("DIFFICULTY", "5"), ("SUBTITLE", "[ANOTHER]")]
EXBPM_POOL = ["177.5", "0.75", "128.571", "999.999", "60", "222.22", "33.3333", "1000", "150.0"]
#: further `#KEY value` headers of real charts (5-character keys that are NOT #BPMxx / #WAVxx, keys with digits, values with ':' ',' ';' '//')
OTHERS_MORE = [("BMP01", "bg 01.bmp"), ("VOLWAV", "100"), ("LNTYPE", "1"), ("BANNER", "banner.png"), ("SUBARTIST", "obj:someone, bga:other"), ("COMMENT", "\"re:start // 1,2,3; #4\""),
               ("MAKER", "x;y"), ("BACKBMP", "back.bmp"), ("STOP01", "48"), ("BGA01", "01 0 0 256 256 0 0"), ("PREVIEW", "pre view.ogg")]
#: keys that charts carry without any value (nothing to retain, the line must simply not disturb anything)
VALUELESS = ["SUBTITLE", "BACKBMP", "COMMENT", "MAKER", "STAGEFILE"]
#: text values with punctuation of the text format itself, a tab, and Shift-JIS specials: the wave dash / double bar / minus / cent / pound /
#: not sign (bytes 81 60, 81 61, 81 7C, 81 91, 81 92, 81 CA), the double-byte space 81 40 INSIDE the value, half-width katakana
#: (single bytes A1..DF) and double-byte characters whose second byte is 5C / 7C / 40
TEXT_MORE = ["re:start // side-B", "1,2,3; #4 *5*", "tab\tinside", "夏祭り〜Summer Remix〜", "DJ A−B feat. C‖D", "¢£¬ ±×÷", "全角　スペース　入り", "ﾊﾝｶｸ ｶﾀｶﾅ｡", "ソ表能 十申ポ", "―‐／＼｜…", "ＡＢＣ＃１：２"]
BPM_POOL_MORE = ["128.5714285", "0120", "120.", "99.99999", "1.5", "655.36", "12345.678"]
EXBPM_POOL_MORE = ["128.5714285714", "0.125", "100.001", "59.94", "7", "4096.5", "173.333333"]
COMMENTS = ["*---------------------- comment", "// #00111:0101 a commented-out line", "; #BPM 999", "%URL http://example.org/a#b", "＊〜コメント〜 ‖ −", "　", "\t"]


def layout_of(name):
    from reamber.bms.BMSChannel import BMSChannel

    return getattr(BMSChannel, name)


def _spacing_on_grid(beats):
    """beats: sorted beat positions of the tempo events (beat 0 included).  The timing engine re-derives every
    tempo position from the previous one by snapping the beat distance to fractions with denominator <= 96."""
    return all(((b - a) % 1).denominator <= 96 for a, b in zip(beats, beats[1:]))


def gen_case(rng, layout_name, *, subdivs=SUBDIVS, n_lines=None, ln=False, order="shuffle", tempo="mixed", fine_tempo=False, via_file=False, measures=6, jp=True, content="any", extras=True):
    """Build the JSON-able description of one BMS text.  `lines` = [dict(m, ch, d, slots={j: id})] in file order.

    content: "any" | "notes_only" (no tempo line) | "tempo_only" (no visible note) | "empty" (no data line at all);
    extras: add the text / layout-of-the-file / call dimensions of `add_dimensions` as a mixture."""
    lay = layout_of(layout_name)
    lanes = note_lanes(lay)
    chans = sorted(c.decode() for c in lanes)
    if extras and subdivs is SUBDIVS and rng.random() < 0.25:
        subdivs = SUBDIVS + MORE_SUBDIVS  # positions on other grids than the default ones (1/24, 1/32, 1/96, 1/192 of a beat)
    lnobj = rng.choice(["ZZ", "ZY", "02", "AA"]) if ln or rng.random() < 0.3 else None
    if content == "notes_only":
        tempo = "none"
    if content == "empty":
        n_lines = 0
    n_wav = 0 if extras and rng.random() < 0.06 else rng.randrange(1, 12)  # 0: a text without any #WAV line
    wav_ids = set()
    while len(wav_ids) < n_wav:
        i = b36(rng.randrange(1, 36 * 36)).decode()
        if i != lnobj:
            wav_ids.add(i)
    wav_ids = sorted(wav_ids)
    if wav_ids and rng.random() < 0.2:
        # ids are two base-36 characters; files in the wild also use lower case - consistently in #WAVxx and the data
        low = [i.lower() for i in wav_ids]
        if len(set(low)) == len(low) and (lnobj or "").lower() not in low:
            wav_ids = low
    wav = {i: rng.choice(["kick", "snare 02", "ピアノ_c4", "hat"]) + f"_{k}" + rng.choice([".wav", ".ogg"]) for k, i in enumerate(wav_ids)}
    if not jp:
        wav = {k: v.replace("ピアノ", "piano") for k, v in wav.items()}
    no_wav_id = next(b36(k).decode() for k in range(1, 1296) if b36(k).decode() not in wav and b36(k).decode() != lnobj)
    ex_ids = sorted({b36(rng.randrange(1, 36 * 36)).decode() for _ in range(rng.randrange(1, 5))})
    if extras and tempo in ("none", "int") and rng.random() < 0.5:
        ex_ids = []  # no #BPMxx table at all (nothing refers to it)
    more_num = extras and rng.random() < 0.3  # decimal texts with more digits, leading zero, trailing point
    exbpm = {i: rng.choice(EXBPM_POOL + EXBPM_POOL_MORE if more_num else EXBPM_POOL) for i in ex_ids}
    header = dict(
        TITLE=rng.choice(TITLES if jp else TITLES[:3]),
        ARTIST=rng.choice(ARTISTS if jp else ARTISTS[:2]),
        PLAYLEVEL=str(rng.randrange(0, 30)),
        BPM=rng.choice(["120", "130", "177.5", "60", "240", "89.99", "400"] + (BPM_POOL_MORE if more_num else [])),
    )
    others = dict(rng.sample(OTHERS, rng.randrange(0, 4)))

    n_lines = n_lines if n_lines is not None else rng.randrange(1, 14)
    used = {}  # (m, group) -> set of positions in the measure
    lines = []
    for _ in range(n_lines):
        r = rng.random()
        if tempo != "none" and (r < 0.22 or content == "tempo_only"):
            ch = "03" if tempo == "int" or not ex_ids else "08" if tempo == "ext" else rng.choice(["03", "08"])
            group = "tempo"
        elif r < 0.30:
            ch = rng.choice(["01", "04"])  # BGM / BGA: no visible note
            group = None
        else:
            ch = rng.choice(chans)
            group = ch
        m = rng.randrange(0, measures)
        if group == "tempo":
            d = rng.choice(FINE_SUBDIVS if fine_tempo and rng.random() < 0.7 else subdivs)
        elif group is not None and not fine_tempo and rng.random() < 0.12:
            d = rng.choice(NOTE_FINE_SUBDIVS)  # note lines may use any subdivision ("any measure subdivision per line")
        else:
            d = rng.choice(subdivs)
        k = min(d, rng.choice([1, 1, 2, 3, 4]))
        if extras and d <= 16 and rng.random() < 0.05:
            k = d  # a line with an object in EVERY slot (the most a line of that subdivision can carry)
        slots = {}
        for j in sorted(rng.sample(range(d), k)):
            if group is not None:
                p = Fraction(j, d)
                if p in used.setdefault((m, group), set()):
                    continue
                used[(m, group)].add(p)
            if ch == "03":
                v = "%02X" % rng.choice([1, 30, 60, 90, 120, 128, 150, 200, 255, rng.randrange(1, 256)])
            elif ch == "08":
                v = rng.choice(ex_ids)
            else:
                v = rng.choice(wav_ids) if wav_ids and rng.random() < 0.9 else no_wav_id
            slots[str(j)] = v
        if slots:
            lines.append(dict(m=m, ch=ch, d=d, slots=slots))

    rng.shuffle(lines)
    if ln and lnobj:
        # lanes that get long notes: in "safe" order each such lane's lines are put in time order and the
        # tails are only placed where file order == time order; in "shuffle" order anything goes.
        for ch in chans:
            idx = [i for i, l in enumerate(lines) if l["ch"] == ch]
            if not idx or rng.random() < 0.35:
                continue
            if order == "safe":
                srt = sorted((lines[i] for i in idx), key=lambda l: (l["m"], min(Fraction(int(j), l["d"]) for j in l["slots"])))
                for i, l in zip(idx, srt):
                    lines[i] = l
            objs = [(4 * lines[i]["m"] + Fraction(4 * int(j), lines[i]["d"]), i, j) for i in idx for j in sorted(lines[i]["slots"], key=int)]
            if order == "safe" and objs != sorted(objs, key=lambda x: x[0]):
                continue  # interleaved repeated lines: leave this lane without long notes
            prev_tail = True
            for _, i, j in sorted(objs, key=lambda x: x[0]):
                if not prev_tail and rng.random() < 0.5:
                    lines[i]["slots"][j] = lnobj
                    prev_tail = True
                else:
                    prev_tail = False
    case = dict(layout=layout_name, header=header, others=others, lnobj=lnobj, wav=wav, exbpm=exbpm, lines=lines, via_file=via_file, decor=rng.random() < 0.5)
    if extras:
        add_dimensions_r5(rng, case, content=content, fine_tempo=fine_tempo)
        add_dimensions(rng, case, jp=jp)
        if case.get("distinct"):
            _make_distinct(case)
    return case


def _note_slots(case):
    """[(line index, slot key)] of the visible-note objects that are not #LNOBJ ends"""
    lanes = note_lanes(layout_of(case["layout"]))
    ln = (case["lnobj"] or "").upper()
    return [(i, j) for i, l in enumerate(case["lines"]) if l["ch"].encode() in lanes for j in sorted(l["slots"], key=int) if l["slots"][j].upper() != ln or not ln]


def add_dimensions_r5(rng, case, content="any", fine_tempo=False):
    """Further input dimensions (each on a fraction of the texts; all recorded in `case`; run BEFORE `add_dimensions`, which lays out the file):

      special ids (16)     the ids that are long-note END markers only when #LNOBJ names them (ZZ - also the library's default for that
                           field -, ZY, 02, AA) used as ORDINARY object ids of visible notes in texts WITHOUT #LNOBJ and in texts whose #LNOBJ
                           names another id: as first object of a lane, after another object, with and without a #WAV entry; the id that IS
                           the #LNOBJ (or ZZ) also as a BGM object (channel 01) and as a #BPMxx id used on channel 08, where it is no marker
      all headers (14)     every other header of the pools at once, all values (also title / artist / level / #BPM / #BPMxx / #WAVxx values)
                           pairwise different, so that a value retained under the wrong field shows
      order of kinds (17)  a tempo change after the last note (measures beyond all notes); a BGM / BGA object as the very first data line,
                           at measure 0 position 0"""
    lanes = note_lanes(layout_of(case["layout"]))
    chans = sorted(c.decode() for c in lanes)
    ln = (case["lnobj"] or "").upper()
    # ---- 16: would-be-special ids as ordinary ids
    if content in ("any", "notes_only") and rng.random() < 0.3:
        specials = [s for s in SPECIAL_IDS if s != ln]
        if not ln and rng.random() < 0.6:
            chosen = ["ZZ"] + rng.sample(specials[1:], rng.choice([0, 0, 1]))  # no #LNOBJ header: the id the library would default to
        else:
            chosen = rng.sample(specials, rng.choice([1, 1, 2]))
        low = {k.upper() for k in case["wav"] if k != k.upper()}
        chosen = [s for s in chosen if s not in low and s.lower() not in case["wav"]]
        for n, s in enumerate(chosen):
            if rng.random() < 0.7 and s not in case["wav"]:
                case["wav"][s] = f"special_{s}_{n}.wav"
            slots = _note_slots(case)
            if not slots or rng.random() < 0.3:
                # a line of its own: the id as the only / first object of a lane's line
                m = rng.randrange(0, 6)
                ch = rng.choice(chans)
                taken = {4 * l["m"] + Fraction(4 * int(j), l["d"]) for l in case["lines"] if l["ch"] == ch for j in l["slots"]}
                d = rng.choice([1, 2, 4, 8])
                free = [j for j in range(d) if 4 * m + Fraction(4 * j, d) not in taken]
                if free and not (case["lnobj"] and any(l["ch"] == ch for l in case["lines"])):
                    case["lines"].insert(rng.randrange(0, len(case["lines"]) + 1), dict(m=m, ch=ch, d=d, slots={str(rng.choice(free)): s}))
                    slots = _note_slots(case)
            for i, j in rng.sample(slots, min(len(slots), rng.choice([1, 2, 3]))):
                case["lines"][i]["slots"][j] = s
        case["special_ids_as_ordinary"] = chosen
    if case["lnobj"] and rng.random() < 0.25 and case["lnobj"].lower() not in {k.lower() for k in case["wav"]}:
        case["wav"][case["lnobj"]] = "ln_end_sound.wav"  # the marker id has a #WAV entry of its own (the hold carries the sample of its HEAD's id)
    if rng.random() < 0.12:
        s = case["lnobj"] or "ZZ"
        if rng.random() < 0.6:
            case["lines"].insert(rng.randrange(0, len(case["lines"]) + 1), dict(m=rng.randrange(0, 6), ch="01", d=4, slots={str(rng.randrange(4)): s, "3": "ZZ"}))
        if case["exbpm"] and s not in case["exbpm"] and s.lower() not in case["exbpm"]:
            old = rng.choice(sorted(case["exbpm"]))
            case["exbpm"] = {(s if k == old else k): v for k, v in case["exbpm"].items()}
            for l in case["lines"]:
                if l["ch"] == "08":
                    l["slots"] = {j: (s if v == old else v) for j, v in l["slots"].items()}
        case["marker_id_in_other_tables"] = s
    # ---- 17: a tempo change after the last note; a BGM object as the first data line at measure 0 position 0
    if content == "any" and not fine_tempo and rng.random() < 0.12:
        top = max([l["m"] for l in case["lines"]] + [5])
        if case["exbpm"] and rng.random() < 0.5:
            case["lines"].insert(rng.randrange(0, len(case["lines"]) + 1), dict(m=top + rng.choice([1, 2]), ch="08", d=rng.choice([1, 2, 3, 4]), slots={"0": rng.choice(sorted(case["exbpm"]))}))
        else:
            case["lines"].insert(rng.randrange(0, len(case["lines"]) + 1), dict(m=top + rng.choice([1, 2]), ch="03", d=rng.choice([1, 2, 4, 8]), slots={"0": "%02X" % rng.choice([45, 90, 180, 250])}))
    if content != "empty" and rng.random() < 0.1:
        case["lines"].insert(0, dict(m=0, ch=rng.choice(["01", "04"]), d=rng.choice([1, 4]), slots={"0": rng.choice(sorted(case["wav"]) or ["01"])}))
    # ---- 14: every header at once; the values are made pairwise different by `_make_distinct` after the text dimensions were drawn
    if rng.random() < 0.2:
        for k, v in OTHERS + OTHERS_MORE:
            case["others"].setdefault(k, v)
        case["distinct"] = True


def _make_distinct(case):
    """Pairwise different values (values only: the number and order of the lines stay): every text header differs from every other text
    header, every numeric header from every other numeric header and from #BPM, every #BPMxx from #BPM and from each other, every #WAV name
    from every other.  A duplicate gets its key appended (texts) or is moved to the next free number."""
    h, o = case["header"], case["others"]
    seen = set()

    def is_num(v):
        return re.fullmatch(r"[0-9]+\.?[0-9]*", v) is not None

    for d in (h, o):
        for k in list(d):
            if k == "BPM":
                continue
            v = d[k]
            if is_num(v):
                while v in seen or ("BPM" in h and float(v) == float(h["BPM"])):
                    v = str(int(float(v)) + 1)
            elif v in seen:
                v = f"{v} ({k.lower()})"
            seen.add(v)
            d[k] = v
    used = {float(h["BPM"])} if "BPM" in h else set()
    pool = [x for x in EXBPM_POOL + EXBPM_POOL_MORE]
    for k in list(case["exbpm"]):
        v = case["exbpm"][k]
        if float(v) in used:
            v = next((x for x in pool if float(x) not in used), str(max(used) + 1.5))
        used.add(float(v))
        case["exbpm"][k] = v
    names = set()
    for k in list(case["wav"]):
        v = case["wav"][k]
        if v in names:
            v = f"{k}_{v}"
        names.add(v)
        case["wav"][k] = v


def add_dimensions(rng, case, jp=True):
    """Mixture of input dimensions the statement quantifies over but the basic generator holds fixed (each with a small probability, so
    that every clause keeps being exercised by plain texts as well).  Everything is recorded in `case`, from which `source` rebuilds the input.

      omitted headers      #TITLE / #ARTIST / #PLAYLEVEL absent (nothing is asserted about an absent field; objects must still be placed)
      more headers         other `#KEY value` headers incl. 5-character keys that are not #BPMxx/#WAVxx; keys without a value;
                           the table keys written '#wavXX' / '#bpmXX'
      text                 ':' ',' ';' '#' '//' and a tab inside values; Shift-JIS punctuation (wave dash, double bar, minus ...), double-byte
                           space inside a value, half-width katakana, second byte 5C/7C/40 - in header values, #WAV file names and comments
      header placement     header lines in any order, after the data, or interleaved with the data lines (data lines keep their order)
      measures             the whole chart shifted to measures up to 999 (large times)
      io (in memory)       each line ending in '\n' / '\r\n' (as readlines() gives them), trailing / leading blanks around a line
      io (file)            CRLF / LF / mixed line ends, trailing blank lines, no final line end, path as str / pathlib.Path, suffix .bms/.bme/.pms
      call                 layout passed by keyword / positionally / not at all (the documented default is the BME layout) / through an instance
      again                the same text read a SECOND time after the first result has been edited in place through its public lists / tables
                           (io.again = 'edit'), or - read_file - from a path that held ANOTHER, longer / shorter file which was read first
                           (io.again = 'reused_longer' / 'reused_shorter'): what is returned is determined by the text alone"""
    h = case["header"]
    if rng.random() < 0.12:
        for k in rng.sample(["TITLE", "ARTIST", "PLAYLEVEL"], rng.choice([1, 1, 2, 3])):
            h.pop(k, None)
    if rng.random() < 0.3:
        for k, v in rng.sample(OTHERS_MORE, rng.randrange(1, 4)):
            case["others"].setdefault(k, v)
    if rng.random() < 0.15:
        case["valueless"] = [k for k in rng.sample(VALUELESS, rng.randrange(1, 3)) if k not in case["others"]]
    if rng.random() < 0.3:
        pool = TEXT_MORE if jp else TEXT_MORE[:3]
        for k in ("TITLE", "ARTIST"):
            if k in h and rng.random() < 0.6:
                h[k] = rng.choice(pool)
        if rng.random() < 0.5:
            case["others"]["GENRE"] = rng.choice(pool)
        if jp and case["wav"] and rng.random() < 0.5:
            k = rng.choice(sorted(case["wav"]))
            case["wav"][k] = rng.choice(["ソロ 十_", "〜wave〜", "ｷｯｸ", "全角　名"]) + case["wav"][k]
    if rng.random() < 0.1:
        case["key_case"] = "lower_tables"
    if rng.random() < 0.3:
        case["comments"] = rng.sample(COMMENTS if jp else COMMENTS[:4], rng.randrange(1, 4))
    n_head = len(_header_lines(case))
    n_all = n_head + len(case["lines"])
    r = rng.random()
    if r < 0.30 and n_all:
        hp = list(range(n_head))
        rng.shuffle(hp)
        dp = list(range(n_head, n_all))
        how = rng.choice(["shuffled_top", "bottom", "interleaved"])
        if how == "shuffled_top":
            perm = hp + dp
        elif how == "bottom":
            perm = dp + hp
        else:
            perm = list(dp)
            for i in hp:
                perm.insert(rng.randrange(0, len(perm) + 1), i)
        case["perm"] = perm
    if case["lines"] and rng.random() < 0.1:
        top = max(l["m"] for l in case["lines"])
        shift = rng.choice([94, 500, 999 - top, rng.randrange(1, 999 - top + 1)])
        if not any(l["ch"] in ("03", "08") and l["m"] == 0 and "0" in l["slots"] for l in case["lines"]):
            for l in case["lines"]:
                l["m"] += min(shift, 999 - top)
    io = {}
    if case.get("via_file"):
        io["eol"] = rng.choice(["crlf", "crlf", "lf", "mixed"])
        io["tail"] = rng.choice([0, 0, 1, 3])
        io["final_eol"] = rng.random() < 0.7
        io["path"] = rng.choice(["str", "Path"])
        io["ext"] = rng.choice([".bms", ".bme", ".pms"])
    else:
        io["line_end"] = rng.choice(["", "", "\n", "\r\n"])
        io["tail"] = rng.choice([0, 0, 2])
    io["pad"] = rng.random() < 0.2
    calls = ["kw", "kw", "pos", "instance"] + (["default", "default"] if case["layout"] == "BME" else [])
    io["call"] = rng.choice(calls)
    r = rng.random()
    if r < 0.15:
        io["again"] = "edit"
    elif r < 0.45 and case.get("via_file"):
        io["again"] = rng.choice(["reused_longer", "reused_shorter"])
    case["io"] = io
    return case


def _header_lines(case):
    """the header lines of a case in canonical order (keys in lower case when case['key_case'] == 'lower')"""
    low = case.get("key_case") == "lower"
    K = (lambda k: k.lower()) if low else (lambda k: k)
    T = (lambda k: k.lower()) if case.get("key_case") in ("lower", "lower_tables") else (lambda k: k)  # '#wav0A' / '#bpm0A' as old charts write them
    out = []
    for k, v in case["header"].items():
        out.append(f"#{K(k)} {v}")
    for k, v in case["others"].items():
        out.append(f"#{K(k)} {v}")
    for k in case.get("valueless") or []:
        out.append(f"#{K(k)}")
    if case["lnobj"]:
        out.append(f"#{K('LNOBJ')} {case['lnobj']}")
    for k, v in case["exbpm"].items():
        out.append(f"#{T('BPM')}{k} {v}")
    for k, v in case["wav"].items():
        out.append(f"#{T('WAV')}{k} {v}")
    return out


def _data_line(l):
    seq = ["00"] * l["d"]
    for j, v in l["slots"].items():
        seq[int(j)] = v
    return "#%03d%s:%s" % (l["m"], l["ch"], "".join(seq))


def render(case):
    """case -> list of text lines (str), without line ends."""
    out = []
    decor = case.get("decor")
    comments = list(case.get("comments") or [])
    head = _header_lines(case)
    if case.get("perm") is not None:
        # header lines placed anywhere among the data lines (the relative order of the data lines is kept)
        allv = head + [_data_line(l) for l in case["lines"]]
        assert sorted(case["perm"]) == list(range(len(allv)))
        if decor:
            out += ["", "*---------------------- HEADER FIELD", ""]
        out += comments[:1]
        for n, i in enumerate(case["perm"]):
            out.append(allv[i])
            if comments[1:] and n % 4 == 1:
                out.append(comments[1 + (n // 4) % len(comments[1:])])
        return out
    if decor:
        out += ["", "*---------------------- HEADER FIELD", ""]
    out += comments[:1]
    out += head
    if decor:
        out += ["", "*---------------------- MAIN DATA FIELD", ""]
    out += comments[1:]
    for l in case["lines"]:
        out.append(_data_line(l))
        if decor and l["m"] % 2:
            out.append("")
    return out


def source(case):
    """What the reader is given: bytes (the content of the file, Shift-JIS) for a read_file case, else the list of str lines."""
    lines = render(case)
    io = case.get("io") or {}
    if io.get("pad"):
        lines = [("  " if i % 5 == 2 else "\t" if i % 7 == 3 else "") + ln + ("  " if i % 3 == 1 else " \t" if i % 11 == 5 else "") for i, ln in enumerate(lines)]
    if case.get("via_file"):
        if "io" not in case:  # the form of the cases saved before the io dimension existed
            return "\r\n".join(lines).encode(ENC)
        eol = io.get("eol", "crlf")
        ends = [b"\r\n" if eol == "crlf" or (eol == "mixed" and i % 2 == 0) else b"\n" for i in range(len(lines))]
        if ends and not io.get("final_eol", True) and not io.get("tail", 0):
            ends[-1] = b""
        out = b"".join(ln.encode(ENC) + e for ln, e in zip(lines, ends))
        return out + (b"\n" if eol == "lf" else b"\r\n") * io.get("tail", 0)
    end = io.get("line_end", "")
    return [ln + end for ln in lines] + [end] * io.get("tail", 0)


def classify(case):
    """Which special class a case belongs to (decides the clause a failure is reported under)."""
    lay = layout_of(case["layout"])
    lanes = note_lanes(lay)
    ln_sensitive = False
    if case["lnobj"]:
        per = {}
        for i, l in enumerate(case["lines"]):
            if l["ch"].encode() in lanes:
                for j in sorted(l["slots"], key=int):
                    per.setdefault(l["ch"], []).append((4 * l["m"] + Fraction(4 * int(j), l["d"]), l["slots"][j]))
        for ch, objs in per.items():
            if any(v == case["lnobj"] for _, v in objs) and [b for b, _ in objs] != sorted(b for b, _ in objs):
                ln_sensitive = True
    tb = sorted({Fraction(0)} | {4 * l["m"] + Fraction(4 * int(j), l["d"]) for l in case["lines"] if l["ch"] in ("03", "08") for j in l["slots"]})
    fine = not _spacing_on_grid(tb)
    first_tempo = next((l for l in case["lines"] if l["ch"] in ("03", "08")), None)
    has_m0 = any(l["ch"] in ("03", "08") and l["m"] == 0 and "0" in l["slots"] for l in case["lines"])
    m0_not_first = has_m0 and not (first_tempo["m"] == 0 and min(int(j) for j in first_tempo["slots"]) == 0)
    return dict(ln_sensitive=ln_sensitive, fine_tempo=fine, m0_override_not_first=m0_not_first,
                no_bpm_header="BPM" not in case["header"], lower_keys=case.get("key_case") == "lower")


def _r5_flags(case):
    """which of the round-5 dimensions a case exercises (computed from the text itself, not from the generator's marks)"""
    lanes = note_lanes(layout_of(case["layout"]))
    ln = (case["lnobj"] or "").upper()
    notes = [(4 * l["m"] + Fraction(4 * int(j), l["d"]), v) for l in case["lines"] if l["ch"].encode() in lanes for j, v in l["slots"].items()]
    tempo = [4 * l["m"] + Fraction(4 * int(j), l["d"]) for l in case["lines"] if l["ch"] in ("03", "08") for j in l["slots"]]
    first = case["lines"][0] if case["lines"] else None
    texts = [v for k, v in list(case["header"].items()) + list(case["others"].items()) if k != "BPM"]
    return dict(
        ZZ_ordinary_without_lnobj=not ln and any(v.upper() == "ZZ" for _, v in notes),
        special_id_ordinary_with_other_lnobj=bool(ln) and any(v.upper() in SPECIAL_IDS and v.upper() != ln for _, v in notes),
        marker_id_in_other_tables=bool(case.get("marker_id_in_other_tables")), marker_id_has_wav_entry=bool(ln) and ln in {k.upper() for k in case["wav"]},
        all_headers_pairwise_different=len(case["others"]) >= len(OTHERS) + len(OTHERS_MORE) and len(set(texts)) == len(texts),
        tempo_change_after_last_note=bool(notes and tempo) and max(tempo) > max(b for b, _ in notes),
        note_before_first_tempo_change=bool(notes and [t for t in tempo if t > 0]) and min(b for b, _ in notes) < min(t for t in tempo if t > 0),
        first_data_line_is_bgm=bool(first) and first["ch"] in ("01", "04"),
        first_data_line_is_tempo=bool(first) and first["ch"] in ("03", "08"),
        other_grid_subdivisions=any(l["d"] in MORE_SUBDIVS for l in case["lines"]),
    )


# =============================================================================================== one case


def _txt(x):
    if x is None:
        return None
    return x if isinstance(x, bytes) else str(x).encode(ENC)


def read_real(case):
    from pathlib import Path

    from reamber.bms.BMSMap import BMSMap

    lay = layout_of(case["layout"])
    src = source(case)
    io = case.get("io") or {}
    call = io.get("call", "kw")
    if call == "default":
        assert case["layout"] == "BME"  # the documented default layout
    owner = BMSMap() if call == "instance" else BMSMap
    if case.get("via_file"):
        fd, p = tempfile.mkstemp(suffix=io.get("ext", ".bms"))
        try:
            with os.fdopen(fd, "wb") as f:
                f.write(src)
            arg = Path(p) if io.get("path") == "Path" else p
            if call == "default":
                return owner.read_file(arg)
            if call == "pos":
                return owner.read_file(arg, lay)
            return owner.read_file(arg, note_channel_config=lay)
        finally:
            os.unlink(p)
    if call == "default":
        return owner.read(src)
    if call == "pos":
        return owner.read(src, lay)
    return owner.read(src, note_channel_config=lay)


def _edit_result(bms):
    """Change a returned map in place through its public lists, tables and fields (every step on its own: a step the library refuses is
    simply skipped - what an edit does is not this property's business)."""
    steps = [
        lambda: setattr(bms.hits, "offset", bms.hits.offset + 1234.5),
        lambda: setattr(bms.hits, "column", 0),
        lambda: setattr(bms.hits, "sample", b"edited.wav"),
        lambda: setattr(bms.holds, "offset", bms.holds.offset - 77.25),
        lambda: setattr(bms.holds, "length", bms.holds.length * 2 + 1),
        lambda: setattr(bms.holds, "column", 1),
        lambda: setattr(bms.bpms, "bpm", 33.0),
        lambda: setattr(bms.bpms, "offset", bms.bpms.offset + 10.0),
        lambda: bms.samples.update({k: b"edited_" + bytes(k) for k in list(bms.samples)}),
        lambda: bms.samples.__setitem__(b"ZX", b"added.wav"),
        lambda: bms.exbpms.update({k: 1.0 for k in list(bms.exbpms)}),
        lambda: bms.misc.__setitem__(b"EDITED", b"1"),
        lambda: bms.misc.update({k: b"edited" for k in list(bms.misc)}),
        lambda: setattr(bms, "title", b"edited"),
        lambda: setattr(bms, "artist", b"edited"),
        lambda: setattr(bms, "version", b"99"),
        lambda: setattr(bms, "ln_end_channel", b"QQ"),
    ]
    for st in steps:
        try:
            st()
        except Exception:  # noqa
            pass


_SHORT_PRIOR = b"#TITLE prior\r\n#ARTIST prior\r\n#BPM 99\r\n#WAV01 prior.wav\r\n#00111:01\r\n"


def _prior_file_content(case, how):
    """ANOTHER BMS text for the path that will afterwards hold the case's text: the case's text followed by 60 more header / data lines
    (longer: other title, every #WAV id given another file, an object in every lane of measures 900..911), or a five-line text (shorter)."""
    if how == "reused_shorter":
        return _SHORT_PRIOR
    lanes = sorted(c.decode() for c in note_lanes(layout_of(case["layout"])))
    more = ["#TITLE prior content of the path", "#GENRE prior", "#BPM7Q 55.5"]
    more += [f"#WAV{k} prior_{k}.wav" for k in list(case["wav"])[:20]] + ["#WAVZX prior_zx.wav"]
    for m in range(900, 912):
        more += [f"#{m:03d}{ch}:ZX00ZX00" for ch in lanes[: 3 + m % 3]]
    src = source(case)
    return src + (b"" if src.endswith(b"\n") or not src else b"\r\n") + "\r\n".join(more).encode(ENC) + b"\r\n"


def read_real_on_a_used_path(case, how):
    """read_file on a path that held another file before: write the other content, read it, overwrite the file with the case's text, read."""
    from pathlib import Path

    from reamber.bms.BMSMap import BMSMap

    lay = layout_of(case["layout"])
    io = case.get("io") or {}
    fd, p = tempfile.mkstemp(suffix=io.get("ext", ".bms"))
    os.close(fd)
    try:
        arg = Path(p) if io.get("path") == "Path" else p
        with open(p, "wb") as f:
            f.write(_prior_file_content(case, how))
        try:
            BMSMap.read_file(arg, note_channel_config=lay)
        except Exception:  # noqa: the other file is not this case's business
            pass
        with open(p, "wb") as f:
            f.write(source(case))
        return BMSMap.read_file(arg, note_channel_config=lay)
    finally:
        os.unlink(p)


def run_case(case):
    """-> list of (clause id, detail).  Empty = the real reader agrees with the denotation."""
    import logging
    import warnings

    lay = layout_of(case["layout"])
    den = den_bms(source(case), lay)
    cls = classify(case)
    problems = list(den.problems)
    if cls["no_bpm_header"]:
        # the one text class without a #BPM header that the statement still determines completely: a tempo event at measure 0,
        # position 0 gives the tempo from the start, so no default tempo is needed to place the objects
        assert Fraction(0) in dict(den.tempo_beats) and den.bpm_text is None
        problems.remove("no #BPM header")
    if problems or den.bad_lines:
        raise AssertionError(f"generator left the property's domain: {problems} {den.bad_lines}")
    special = ("ln_pairing_line_order" if cls["ln_sensitive"] else "tempo_spacing_off_snap_grid" if cls["fine_tempo"]
               else "no_bpm_header_tempo_from_measure0" if cls["no_bpm_header"] else "header_keys_lower_case" if cls["lower_keys"] else None)
    fails = []

    def fail(what, detail):
        fails.append((special or what, f"[{what}] {detail}" if special else detail))

    logging.disable(logging.WARNING)
    try:
        with warnings.catch_warnings():
            warnings.simplefilter("ignore")
            bms = read_real(case)
    except Exception as e:  # noqa
        fail("read_raises", f"{type(e).__name__}: {e}")
        return fails
    finally:
        logging.disable(logging.NOTSET)
    again = (case.get("io") or {}).get("again")
    f0 = _fingerprint(bms) if again else None

    # ---- header fields retained
    h = case["header"]
    for field, attr in (("TITLE", "title"), ("ARTIST", "artist"), ("PLAYLEVEL", "version")):
        if field not in h:
            continue  # header absent from the text: the statement says nothing about the field
        got = _txt(getattr(bms, attr))
        if got != h[field].encode(ENC):
            fail(f"header_{field.lower()}", f"{attr}={got!r} want {h[field].encode(ENC)!r}")
    for k, v in case["others"].items():
        got = _txt(bms.misc.get(k.encode()))
        if got is None and case.get("key_case") == "lower":
            got = _txt(bms.misc.get(k.lower().encode()))  # an other header is retained under its key; as written is as good as upper case
        if got != v.encode(ENC):
            fail("header_other", f"misc[{k}]={got!r} want {v!r}")
    for k, v in case["exbpm"].items():
        got = bms.exbpms.get(k.encode())
        if got is None or abs(float(got) - float(den.exbpm[k.encode()])) > 1e-9:
            fail("header_extended_tempos", f"exbpms[{k}]={got!r} want {v}")
    for k, v in case["wav"].items():
        got = _txt(bms.samples.get(k.encode()))
        if got != v.encode(ENC):
            fail("header_wav_table", f"samples[{k}]={got!r} want {v!r}")
    if case["lnobj"] and _txt(bms.ln_end_channel) != case["lnobj"].encode():
        fail("header_lnobj", f"ln_end_channel={bms.ln_end_channel!r} want {case['lnobj']!r}")
    # initial tempo retained: the first tempo point is at 0 ms and carries #BPM, or the measure-0 event that
    # replaces it (the statement does not say which of the two must be kept when both exist: accept either)
    # Asserted only when a whole number of measures follows beat 0 up to the next tempo change: otherwise the
    # reader's re-seating (property C11: "the original bpm is kept wherever a whole number of measures follows")
    # re-expresses the first segment with another bpm by design.
    whole = len(den.tempo_beats) == 1 or den.tempo_beats[1][0] % 4 == 0
    try:
        b0 = bms.bpms[0]
        ok_vals = {float(den.tempo_beats[0][1])} | ({float(den.bpm0)} if den.bpm_text is not None else set())
        if not whole:
            pass
        elif abs(float(b0.offset)) > TOL_MS or not any(abs(float(b0.bpm) - v) <= 1e-9 for v in ok_vals):
            fail("header_initial_tempo", f"first tempo point ({b0.offset} ms, {b0.bpm}) want 0 ms and one of {sorted(ok_vals)}")
    except Exception as e:  # noqa
        fail("header_initial_tempo", f"no tempo point: {e}")
    obs = {}
    try:
        if not whole and not any(abs(float(bms.bpms[0].bpm) - v) <= 1e-9 for v in ok_vals):
            obs["initial_tempo_reexpressed"] = 1
        obs["tempo_points_at_0ms"] = sum(1 for o in bms.bpms.offset if abs(float(o)) <= TOL_MS)
    except Exception:  # noqa
        pass
    run_case.last_obs = obs

    # ---- hits
    got_h = sorted(zip([int(c) for c in bms.hits.column], [float(o) for o in bms.hits.offset], list(bms.hits.sample)), key=lambda x: (x[0], x[1]))
    if len(got_h) != len(den.hits):
        fail("hit_count", f"{len(got_h)} hits, the text denotes {len(den.hits)}: got {[(c, round(t, 3)) for c, t, _ in got_h][:12]} want {[(c, round(float(t), 3)) for c, t, *_ in den.hits][:12]}")
    else:
        for (gc, gt, gs), (wc, wt, ws, wb, wid) in zip(got_h, den.hits):
            if gc != wc or abs(gt - float(wt)) > TOL_MS:
                fail("hit_column_time", f"hit (col {gc}, {gt} ms) want (col {wc}, {float(wt)} ms) [beat {wb}, id {wid.decode()}]")
                break
        else:
            for (gc, gt, gs), (wc, wt, ws, wb, wid) in zip(got_h, den.hits):
                if ws is not None and _txt(gs) != ws:
                    fail("hit_sample", f"hit col {gc} at {gt} ms has sample {gs!r}, #WAV{wid.decode()} is {ws!r}")
                    break
    # ---- holds
    got_l = sorted(
        zip([int(c) for c in bms.holds.column], [float(o) for o in bms.holds.offset], [float(x) for x in bms.holds.length], list(bms.holds.sample)),
        key=lambda x: (x[0], x[1]),
    )
    if len(got_l) != len(den.holds):
        fail("hold_count", f"{len(got_l)} holds, the text denotes {len(den.holds)}")
    else:
        for (gc, gt, gl, gs), (wc, wt, wl, ws, hb, tb, wid) in zip(got_l, den.holds):
            if gc != wc or abs(gt - float(wt)) > TOL_MS:
                fail("hold_column_time", f"hold (col {gc}, {gt} ms) want (col {wc}, {float(wt)} ms) [beat {hb}]")
                break
            if abs(gl - float(wl)) > TOL_MS:
                fail("hold_length", f"hold col {gc} at {gt} ms has length {gl}, want {float(wl)} [beats {hb}..{tb}]")
                break
            if ws is not None and _txt(gs) != ws:
                fail("hold_sample", f"hold col {gc} at {gt} ms has sample {gs!r}, head #WAV{wid.decode()} is {ws!r}")
                break
    if again and not fails:
        # the text alone determines what is returned: a SECOND read of it gives the same values, whatever happened to the first result
        # and whatever the path held before
        clause = "read_again_after_editing_the_first_result" if again == "edit" else "read_file_of_a_path_that_held_another_file"
        logging.disable(logging.WARNING)
        try:
            with warnings.catch_warnings():
                warnings.simplefilter("ignore")
                if again == "edit":
                    _edit_result(bms)
                    assert _fp_diff(f0, _fingerprint(bms)), "the edit changed nothing"
                    bms2 = read_real(case)
                elif case.get("via_file"):
                    bms2 = read_real_on_a_used_path(case, again)
                else:
                    bms2 = None
            if bms2 is not None:
                d = _fp_diff(f0, _fingerprint(bms2))
                if d:
                    fail(clause, ("after the first result was edited in place, the same text read again gives other values: " if again == "edit" else
                                  f"the path held another ({again[7:]}) file, which was read; then the file was overwritten with this text and read: other values than the same bytes give on a fresh path: ") + "; ".join(d[:3]))
        except AssertionError:
            raise
        except Exception as e:  # noqa
            fail(clause, f"{type(e).__name__}: {e}")
        finally:
            logging.disable(logging.NOTSET)
    return fails


def _fingerprint(bms):
    """everything the statement speaks about, as plain values (deep copies)"""
    import copy

    return dict(
        title=_txt(bms.title), artist=_txt(bms.artist), level=_txt(bms.version), lnobj=_txt(bms.ln_end_channel),
        misc=copy.deepcopy(dict(bms.misc)), exbpms=copy.deepcopy(dict(bms.exbpms)), samples=copy.deepcopy(dict(bms.samples)),
        hits=sorted(zip([int(c) for c in bms.hits.column], [float(o) for o in bms.hits.offset], [_txt(x) for x in bms.hits.sample])),
        holds=sorted(zip([int(c) for c in bms.holds.column], [float(o) for o in bms.holds.offset], [float(x) for x in bms.holds.length], [_txt(x) for x in bms.holds.sample])),
        tempo=[(float(o), float(b)) for o, b in zip(bms.bpms.offset, bms.bpms.bpm)],
    )


def _fp_diff(a, b):
    return [f"{k}: {a[k]!r} -> {b[k]!r}"[:300] for k in a if a[k] != b[k]]


def run_pair(case):
    """case = dict(pair=[A, B]): read A, read B, read A again - in one process, both results alive.  The map read from a text is
    determined by that text (columns, times, samples, header fields), so (1) the first result must still be what it was after the other
    text has been read, and (2) reading the same text again must give the same values.  -> [(clause, detail)]"""
    import logging
    import warnings

    a, b = case["pair"]
    fails = []
    logging.disable(logging.WARNING)
    try:
        with warnings.catch_warnings():
            warnings.simplefilter("ignore")
            try:
                m1 = read_real(a)
                f1 = _fingerprint(m1)
                m2 = read_real(b)
                f2 = _fingerprint(m2)
                m3 = read_real(a)
            except Exception:  # noqa: a text that cannot be read is reported by the single-text clauses
                return fails
            d = _fp_diff(f1, _fingerprint(m1))
            if d:
                fails.append(("earlier_result_changed_by_later_read", "after reading the second text, then the first again, the FIRST result changed: " + "; ".join(d[:3])))
            d = _fp_diff(f2, _fingerprint(m2))
            if d and not fails:
                fails.append(("earlier_result_changed_by_later_read", "after reading the first text again, the result of the SECOND text changed: " + "; ".join(d[:3])))
            d = _fp_diff(f1, _fingerprint(m3))
            if d:
                fails.append(("same_text_read_again_differs", "the first text read again after another text gives other values: " + "; ".join(d[:3])))
    finally:
        logging.disable(logging.NOTSET)
    return fails


# =============================================================================================== the check

CLAUSES = (
    "read_raises hit_count hit_column_time hit_sample hold_count hold_column_time hold_length hold_sample header_title header_artist "
    "header_playlevel header_other header_extended_tempos header_wav_table header_lnobj header_initial_tempo "
    "ln_pairing_line_order tempo_spacing_off_snap_grid no_bpm_header_tempo_from_measure0 header_keys_lower_case "
    "earlier_result_changed_by_later_read same_text_read_again_differs "
    "read_again_after_editing_the_first_result read_file_of_a_path_that_held_another_file"
).split()


def _grid_cases():
    """Small exhaustive grid: every layout x every lane x every subdivision x first/last slot, one object in
    measure 2 after an integer tempo change at measure 1 (and, separately, an extended one in mid-measure)."""
    import random

    for name in LAYOUT_NAMES:
        lanes = note_lanes(layout_of(name))
        for ch in sorted(lanes):
            for d in SUBDIVS:
                for j in sorted({0, d // 2, d - 1}):
                    for tch, td, tj, tv in (("03", 1, 0, "B4"), ("08", 3, 2, "0A")):
                        yield dict(
                            layout=name,
                            header=dict(TITLE="grid", ARTIST="a", PLAYLEVEL="3", BPM="150"),
                            others={},
                            lnobj=None,
                            wav={"0A": "x.wav"},
                            exbpm={"0A": "177.5"},
                            lines=[dict(m=1, ch=tch, d=td, slots={str(tj): tv}), dict(m=2, ch=ch.decode(), d=d, slots={str(j): "0A"})],
                            via_file=False,
                            decor=False,
                        )


def _grid_ln_cases():
    """every layout x every lane: a long note whose head and tail sit in different measures around a tempo change
    (lines in time order), plus a plain hit after it."""
    for name in LAYOUT_NAMES:
        for ch in sorted(note_lanes(layout_of(name))):
            for d in (1, 4, 192):
                yield dict(
                    layout=name,
                    header=dict(TITLE="grid ln", ARTIST="a", PLAYLEVEL="3", BPM="120"),
                    others={},
                    lnobj="ZZ",
                    wav={"0A": "x.wav", "0B": "y.wav"},
                    exbpm={"01": "88.5"},
                    lines=[
                        dict(m=1, ch=ch.decode(), d=d, slots={str(d - 1): "0A"}),
                        dict(m=2, ch="08", d=2, slots={"1": "01"}),
                        dict(m=3, ch=ch.decode(), d=4, slots={"1": "ZZ", "3": "0B"}),
                    ],
                    via_file=False,
                    decor=False,
                )


def _witness_cases():
    """Hand-made smallest members of the two special classes (always run, whatever the seed)."""
    base = dict(layout="BME", header=dict(TITLE="t", ARTIST="a", PLAYLEVEL="1", BPM="120"), others={}, lnobj="ZZ", wav={"01": "a.wav"}, exbpm={}, via_file=False, decor=False)
    # the #LNOBJ line precedes the line of its head
    yield dict(base, lines=[dict(m=2, ch="11", d=1, slots={"0": "ZZ"}), dict(m=1, ch="11", d=1, slots={"0": "01"})])
    # two lines for the same (measure, channel): head 4, tail 5 (second line), hit 6
    yield dict(base, lines=[dict(m=1, ch="11", d=2, slots={"0": "01", "1": "01"}), dict(m=1, ch="11", d=4, slots={"1": "ZZ"})])
    # tempo events 1/192 and 1/256 into two measures: 4 - 1/48 + 1/64 beats apart
    yield dict(base, lnobj=None, lines=[dict(m=0, ch="03", d=192, slots={"1": "3C"}), dict(m=1, ch="03", d=256, slots={"1": "F0"}), dict(m=2, ch="11", d=1, slots={"0": "01"})])
    # one tempo event 1/768 measure after the start
    yield dict(base, lnobj=None, lines=[dict(m=0, ch="03", d=768, slots={"1": "F0"}), dict(m=1, ch="11", d=1, slots={"0": "01"})])


def _sjis_chars():
    """Every character Shift-JIS encodes with lead byte 0x81 (JIS X 0208 rows 1-2: punctuation and symbols, incl. the double-byte space,
    wave dash, double bar, minus, cent, pound, not sign), every half-width katakana (single bytes A1..DF), and for every lead byte the
    characters whose second byte is one of 40 5C 7C 7E 80 9E 9F FC (ASCII look-alikes '@' '\\' '|' '~' and the row boundaries)."""
    def ok(b):
        try:
            return b.decode(ENC).encode(ENC) == b and b.decode(ENC)
        except UnicodeError:
            return None

    row1 = [c for c in (ok(bytes([0x81, t])) for t in range(0x40, 0xFD)) if c]
    kana = [c for c in (ok(bytes([t])) for t in range(0xA1, 0xE0)) if c]
    edge = [c for c in (ok(bytes([l, t])) for l in list(range(0x82, 0xA0)) + list(range(0xE0, 0xEB)) for t in (0x40, 0x5C, 0x7C, 0x7E, 0x80, 0x9E, 0x9F, 0xFC)) if c]
    return row1, kana, edge


def _grid_text_cases():
    """Header text through both entry points: every character of `_sjis_chars` once inside a #TITLE / #ARTIST / #GENRE value, a #WAV file
    name and a comment line (12 characters per value, between ASCII brackets so that no value starts or ends with a blank), one object
    after a tempo change so that the placement clauses are exercised by the same text."""
    row1, kana, edge = _sjis_chars()
    chunks = []
    for pool in (row1, kana, edge):
        chunks += ["".join(pool[i : i + 12]) for i in range(0, len(pool), 12)]
    k = 0
    for i in range(0, len(chunks), 3):
        a, b, c = (chunks + chunks[:2])[i : i + 3]
        for via_file in (True, False):
            name = LAYOUT_NAMES[k % 5]
            k += 1
            ch = sorted(note_lanes(layout_of(name)))[k % 5].decode()
            yield dict(
                layout=name,
                header=dict(TITLE=f"[{a}]", ARTIST=f"<{b}>", PLAYLEVEL="3", BPM="150"),
                others=dict(GENRE=f"({c})"),
                lnobj=None,
                wav={"0A": f"{a[:4]}x.wav"},
                exbpm={"0A": "177.5"},
                comments=[f"* {c} {a}"],
                lines=[dict(m=1, ch="08", d=3, slots={"2": "0A"}), dict(m=2, ch=ch, d=4, slots={"1": "0A"})],
                via_file=via_file,
                decor=False,
                io=dict(call="kw", eol="crlf", final_eol=True, tail=0, path="str", ext=".bms") if via_file else dict(call="kw", line_end=""),
            )


def _grid_small_cases():
    """Smallest texts, each through read and read_file and with every way of passing the layout: no data line at all; one object and
    nothing else; one tempo change and no object; an object at measure 0 position 0; an object exactly on a tempo change; objects of two
    lanes at the same position; measure 999; no #WAV / #BPMxx table; #TITLE / #ARTIST / #PLAYLEVEL absent; headers after the data."""
    base = dict(header=dict(TITLE="t", ARTIST="a", PLAYLEVEL="1", BPM="120"), others={}, lnobj=None, wav={"01": "a.wav"}, exbpm={"01": "88.5"}, decor=False)
    texts = dict(
        no_data=[],
        one_object=[dict(m=0, ch="@0", d=1, slots={"0": "01"})],
        one_tempo=[dict(m=1, ch="03", d=2, slots={"1": "5A"})],
        on_tempo_change=[dict(m=1, ch="08", d=4, slots={"1": "01"}), dict(m=1, ch="@0", d=4, slots={"1": "01", "2": "01"}), dict(m=1, ch="@1", d=8, slots={"2": "01"})],
        chord=[dict(m=0, ch="@0", d=2, slots={"1": "01"}), dict(m=0, ch="@1", d=4, slots={"2": "01"}), dict(m=0, ch="@2", d=2, slots={"1": "02"})],
        measure_999=[dict(m=500, ch="03", d=1, slots={"0": "F0"}), dict(m=999, ch="@0", d=192, slots={"191": "01"})],
        all_ln=[dict(m=1, ch="@0", d=2, slots={"0": "01", "1": "ZZ"}), dict(m=2, ch="@1", d=1, slots={"0": "01"}), dict(m=3, ch="@1", d=1, slots={"0": "ZZ"})],
    )
    k = 0
    for name in LAYOUT_NAMES:
        chans = sorted(c.decode() for c in note_lanes(layout_of(name)))
        for label, lines in texts.items():
            for variant in ("plain", "bare", "bottom"):
                k += 1
                via_file = k % 2 == 0
                ls = [dict(l, ch=chans[int(l["ch"][1])] if l["ch"].startswith("@") else l["ch"], slots=dict(l["slots"])) for l in lines]
                case = dict(base, layout=name, header=dict(base["header"]), wav=dict(base["wav"]), exbpm=dict(base["exbpm"]), lines=ls, via_file=via_file,
                            lnobj="ZZ" if label == "all_ln" else None)
                calls = ["kw", "pos", "instance"] + (["default"] if name == "BME" else [])
                io = dict(call=calls[k % len(calls)], pad=False)
                io.update(dict(eol=["crlf", "lf", "mixed"][k % 3], tail=k % 2, final_eol=bool(k % 3), path=["str", "Path"][k % 2], ext=[".bms", ".bme", ".pms"][k % 3]) if via_file
                          else dict(line_end=["", "\n", "\r\n"][k % 3], tail=k % 2))
                io["again"] = {0: "reused_longer", 2: "reused_shorter", 1: "edit", 3: None}[k % 4]  # k even <=> read_file
                case["io"] = io
                if variant == "bare":
                    # only what the data needs: no #TITLE / #ARTIST / #PLAYLEVEL, no #WAV table, #BPMxx only when channel 08 is used
                    case["header"] = dict(BPM="120")
                    case["wav"] = {}
                    if not any(l["ch"] == "08" for l in ls):
                        case["exbpm"] = {}
                elif variant == "bottom":
                    n_head = len(_header_lines(case))
                    case["perm"] = list(range(n_head, n_head + len(ls))) + list(range(n_head - 1, -1, -1))
                yield case


def _grid_special_ids():
    """(dimension 16) every layout x every id that is a long-note end marker only when #LNOBJ says so (ZZ - the library's default for the
    field -, ZY, 02, AA) as an ORDINARY id: text without #LNOBJ / with #LNOBJ naming another id (which does close a long note in the same
    text); the id as the first object of a lane, right after another object of the lane, in a chord; with / without a #WAV entry; the id
    also as BGM object and as #BPMxx id used on channel 08.  Alternating read / read_file."""
    k = 0
    for name in LAYOUT_NAMES:
        chans = sorted(c.decode() for c in note_lanes(layout_of(name)))
        a, b, c = chans[0], chans[1], chans[-1]
        for sid in SPECIAL_IDS:
            for lnobj in (None, "ZX" if sid != "ZZ" else "AA", "ZZ" if sid != "ZZ" else "ZY"):
                for with_wav in (True, False):
                    k += 1
                    wav = {"01": "kick.wav", "0B": "snare.wav"}
                    if with_wav:
                        wav[sid] = "crash.wav"
                    lines = [
                        dict(m=1, ch=a, d=4, slots={"0": "01"}),
                        dict(m=2, ch=a, d=4, slots={"0": "01", "2": sid}),  # the id right after another object of the lane
                        dict(m=2, ch=b, d=1, slots={"0": sid}),  # the id as the first object of a lane (and in a chord)
                        dict(m=3, ch=b, d=2, slots={"1": "0B"}),
                        dict(m=3, ch=a, d=1, slots={"0": sid}),
                        dict(m=1, ch="01", d=2, slots={"1": sid}),  # BGM object with that id
                        dict(m=2, ch="08", d=4, slots={"1": sid}),  # #BPMxx with that id
                    ]
                    if lnobj and with_wav:
                        wav[lnobj] = "ln_end_sound.wav"  # a #WAV entry for the marker id itself
                    if lnobj:
                        lines += [dict(m=4, ch=c, d=2, slots={"0": sid, "1": lnobj}), dict(m=5, ch=c, d=1, slots={"0": "01"})]  # the id as the HEAD of a long note
                    via_file = k % 2 == 0
                    yield dict(
                        layout=name, header=dict(TITLE="special ids", ARTIST="a", PLAYLEVEL="3", BPM="150"), others={}, lnobj=lnobj, wav=wav,
                        exbpm={sid: "88.5"}, lines=lines, via_file=via_file, decor=False, special_ids_as_ordinary=[sid],
                        io=dict(call="kw", eol="crlf", final_eol=True, tail=0, path="str", ext=".bms") if via_file else dict(call="kw", line_end=""),
                    )


def _witness_new_classes():
    """smallest members of the two header classes that have clauses of their own"""
    base = dict(layout="BME", others={}, lnobj=None, wav={"01": "a.wav"}, exbpm={}, via_file=False, decor=False)
    # no #BPM header, the tempo comes from a channel-03 object at measure 0 position 0
    yield dict(base, header=dict(TITLE="t", ARTIST="a", PLAYLEVEL="1"), lines=[dict(m=0, ch="03", d=1, slots={"0": "78"}), dict(m=1, ch="11", d=1, slots={"0": "01"})])
    # header keys written in lower case
    yield dict(base, header=dict(TITLE="t", ARTIST="a", PLAYLEVEL="1", BPM="120"), key_case="lower", lines=[dict(m=1, ch="11", d=1, slots={"0": "01"})])


@bounded("C04", note="generated BMS/BME/PMS texts read by the real BMSMap.read / read_file and compared with an independent exact BMS interpreter (den_bms), all five layouts")
def bms_read_vs_interpreter(rep):
    rng = rep.rng
    N = rep.n(220, 3000)
    grid = list(_grid_cases())
    if rep.tier == "quick":
        grid = grid[:: max(1, len(grid) // 400)]
    grid += list(_grid_ln_cases()) + list(_witness_cases())
    n_old_grid = len(grid)
    text_grid = list(_grid_text_cases())
    small_grid = list(_grid_small_cases())
    special_grid = list(_grid_special_ids())
    grid += text_grid + small_grid + list(_witness_new_classes()) + special_grid
    row1, kana, edge = _sjis_chars()
    rep.bound = (
        f"grid: {n_old_grid} texts = single objects (5 layouts x every lane x subdivisions {SUBDIVS} x slot first/middle/last x integer|extended tempo change before it"
        f"{'' if rep.tier != 'quick' else ', strided subset in the quick tier'}) + one long note across a tempo change per layout x lane x 3 subdivisions + 4 hand-made witnesses of the two special classes; "
        f"text grid: {len(text_grid)} texts = every Shift-JIS character with lead byte 81 ({len(row1)}), every half-width katakana ({len(kana)}) and {len(edge)} double-byte characters with second byte 40/5C/7C/7E/80/9E/9F/FC, "
        f"each once in #TITLE/#ARTIST/#GENRE, a #WAV name and a comment, through read_file AND read; "
        f"small grid: {len(small_grid)} texts = 5 layouts x (no data line | one object at measure 0 position 0 | one tempo change, no object | object exactly on a tempo change | chord | measure 999 | only long notes) "
        f"x (full header | only #BPM, no #WAV table | headers after the data), alternating read/read_file, layout passed by keyword / positionally / through an instance / omitted (BME), "
        f"line ends '' / LF / CRLF (lines) and CRLF / LF / mixed, trailing blank lines, no final line end, str / pathlib.Path, .bms/.bme/.pms (file); + 2 witnesses of the header classes; "
        f"special-id grid: {len(special_grid)} texts = 5 layouts x ids {SPECIAL_IDS} (long-note end markers only when #LNOBJ names them; ZZ is also the library's default for the field) used as ORDINARY ids "
        f"x (no #LNOBJ | #LNOBJ naming another id, twice) x (with | without #WAV entry): the id first in its lane, right after another object, in a chord, as head of a long note, as BGM object and as #BPMxx id on channel 08; "
        f"random: {N} texts over 5 layouts, 0..13 data lines in measures 0..5 (1/10 shifted up to measure 999), subdivisions {SUBDIVS}, channels 03/08 at any slot, #LNOBJ long notes, repeated (measure, channel) lines, "
        f"shuffled lines, #WAV table (possibly empty), BGM/BGA lines, Shift-JIS header text, 1/4 through read_file; plus classes: LN with fully shuffled lines, tempo changes at subdivisions {FINE_SUBDIVS} (distance between consecutive tempo events not a multiple of any 1/d beat, d <= 96); "
        f"mixture on every random text (add_dimensions): absent #TITLE/#ARTIST/#PLAYLEVEL, {len(OTHERS_MORE)} more other headers, keys without value, '#wavXX' / '#bpmXX' table keys, ':' ',' ';' '#' '//' tab and Shift-JIS punctuation / double-byte space / half-width kana in values, #WAV names and comments, "
        f"header lines shuffled / after / between the data lines, decimal tempo texts with up to 13 digits, leading zero or trailing point, padded lines, line-end and call variants as in the small grid; "
        f"notes-only, tempo-only and empty texts (1/10); texts without #BPM whose tempo comes from measure 0 position 0, texts with lower-case header keys (1/40 each, clauses of their own); "
        f"{rep.n(30, 300)} pairs of random texts read A, B, A in one process (state between calls); "
        f"second reads: 15 % of the random texts (and a quarter of the small grid) are read a second time after the FIRST result was edited in place (offsets, columns, samples, tempo, "
        f"#WAV / #BPMxx / other-header tables, title ...); 30 % of the read_file texts (half of the small grid's) are read from a path that held another - longer (60 more lines, other #WAV names) or "
        f"shorter (5 lines) - file, itself read first: in both cases the second result must have the values the text gave on the first read; 5 % of the lines with <= 16 slots carry an object in every slot; "
        f"round-5 dimensions on the random texts (add_dimensions_r5): 30 % use 1-2 of the ids {SPECIAL_IDS} that the text's #LNOBJ does NOT name (60 % of the texts without #LNOBJ: ZZ) as ordinary ids of 1-3 visible notes, with / without #WAV entry, "
        f"also on a line of their own; 12 % carry the #LNOBJ id (or ZZ) as BGM object and as #BPMxx id; 25 % of the texts with #LNOBJ give the marker id a #WAV entry of its own; 20 % carry all {len(OTHERS) + len(OTHERS_MORE)} other headers at once with title / artist / level / every other header / #BPM / every #BPMxx / every #WAV name pairwise different; "
        f"12 % have a tempo change one or two measures after the last object, 10 % a BGM / BGA object at measure 0 position 0 as first data line; 25 % draw subdivisions also from {MORE_SUBDIVS} (objects and tempo changes on 1/24, 1/32, 1/96, 1/192 of a beat)"
    )
    rep.rule = ("a case is one BMS text + layout + the way it is handed to the reader (or a pair of such); non-trivial when it has >= 1 tempo event after beat 0 and >= 1 note object, or a long note; "
                "a pair is non-trivial when the two texts differ in header tables and objects")
    seen = {w: 0 for w in CLAUSES}
    klass = dict(plain=0, ln_safe=0, ln_sensitive=0, fine_tempo=0, via_file=0, m0_override_not_first=0, observed_two_tempo_points_at_0ms=0)
    klass["observed_initial_tempo_reexpressed_by_reseat_(first_change_mid_measure)"] = 0
    dims = {}

    def count_dims(case):
        io = case.get("io") or {}
        flags = dict(
            no_data_line=not case["lines"], no_wav_table=not case["wav"], no_exbpm_table=not case["exbpm"], header_field_absent=len(case["header"]) < 4,
            valueless_key=bool(case.get("valueless")), headers_moved=case.get("perm") is not None, comments=bool(case.get("comments")),
            non_ascii_text=any(ord(c) > 127 for v in list(case["header"].values()) + list(case["others"].values()) + list(case["wav"].values()) for c in v),
            measure_over_99=any(l["m"] > 99 for l in case["lines"]), padded_lines=bool(io.get("pad")), layout_omitted=io.get("call") == "default",
            layout_positional=io.get("call") == "pos", through_instance=io.get("call") == "instance", path_object=io.get("path") == "Path",
            lines_with_line_end=bool(io.get("line_end")), file_lf_or_mixed=io.get("eol") in ("lf", "mixed"), trailing_blank_lines=bool(io.get("tail")),
            read_again_after_edit=io.get("again") == "edit", read_file_of_a_used_path=str(io.get("again")).startswith("reused") and bool(case.get("via_file")),
            full_line=any(len(l["slots"]) == l["d"] > 1 for l in case["lines"]),
            no_bpm_header="BPM" not in case["header"], lower_case_keys=case.get("key_case") == "lower", lower_case_table_keys=case.get("key_case") == "lower_tables",
        )
        flags.update(_r5_flags(case))
        for k, v in flags.items():
            dims[k] = dims.get(k, 0) + bool(v)

    def one(case):
        lanes = note_lanes(layout_of(case["layout"]))
        n_notes = sum(len(l["slots"]) for l in case["lines"] if l["ch"].encode() in lanes)
        n_tempo = sum(1 for l in case["lines"] if l["ch"] in ("03", "08") for j in l["slots"] if l["m"] or int(j))
        has_ln = case["lnobj"] is not None and any(v == case["lnobj"] for l in case["lines"] if l["ch"].encode() in lanes for v in l["slots"].values())
        rep.case(case, nontrivial=(n_tempo >= 1 and n_notes >= 1) or has_ln)
        c = classify(case)
        klass["ln_sensitive" if c["ln_sensitive"] else "fine_tempo" if c["fine_tempo"] else "ln_safe" if has_ln else "plain"] += 1
        klass["via_file"] += bool(case.get("via_file"))
        klass["m0_override_not_first"] += bool(c["m0_override_not_first"])
        count_dims(case)
        run_case.last_obs = {}
        for what, d in run_case(case):
            seen[what] = seen.get(what, 0) + 1
            rep.fail(what, case, d)
        if run_case.last_obs.get("tempo_points_at_0ms", 1) > 1:
            klass["observed_two_tempo_points_at_0ms"] += 1
        if run_case.last_obs.get("initial_tempo_reexpressed"):
            klass["observed_initial_tempo_reexpressed_by_reseat_(first_change_mid_measure)"] += 1

    for case in grid:
        if rep.out_of_time(20, 150):
            break
        one(case)
    n_pairs = 0
    for i in range(N):
        if rep.out_of_time(40, 420):
            break
        name = LAYOUT_NAMES[i % 5]
        mode = i % 10
        via_file = rng.random() < 0.25
        content = rng.choice(["notes_only", "tempo_only", "empty"]) if rng.random() < 0.1 else "any"
        if mode in (0, 1, 2, 3):
            case = gen_case(rng, name, ln=False, via_file=via_file, content=content)
        elif mode in (4, 5, 6):
            case = gen_case(rng, name, ln=True, order="safe", via_file=via_file, content=content)
        elif mode in (7, 8):
            case = gen_case(rng, name, ln=True, order="shuffle", via_file=via_file)
        else:
            case = gen_case(rng, name, ln=rng.random() < 0.3, order="safe", fine_tempo=True, via_file=via_file)
        if mode < 7 and i % 40 == 13:
            # class with a clause of its own: no #BPM header, tempo from a channel-03 object at measure 0 position 0 (moved to the front so
            # that the measure-0 object is also the first tempo object of the file)
            case["header"].pop("BPM", None)
            case["lines"] = [l for l in case["lines"] if not (l["ch"] in ("03", "08") and l["m"] == 0 and "0" in l["slots"])]
            case["lines"].insert(0, dict(m=0, ch="03", d=1, slots={"0": "%02X" % rng.choice([60, 120, 150, 200])}))
            case.pop("perm", None)
        elif mode < 7 and i % 40 == 33:
            case["key_case"] = "lower"  # class with a clause of its own
        one(case)
        if n_pairs < rep.n(30, 300) and i % 5 == 4:
            # two texts that have NOT been read before in this process (a table that only accumulates would otherwise already hold their
            # entries): read A, B, A; afterwards each is also checked on its own like every other text
            pair = []
            while len(pair) < 2:
                x = gen_case(rng, LAYOUT_NAMES[(i + len(pair)) % 5], ln=rng.random() < 0.4, order="safe", via_file=rng.random() < 0.25)
                c = classify(x)
                if not (c["ln_sensitive"] or c["fine_tempo"]):
                    pair.append(x)
            pair = dict(pair=pair)
            a, b = pair["pair"]
            rep.case(pair, nontrivial=a["wav"] != b["wav"] and a["lines"] != b["lines"])
            n_pairs += 1
            for what, d in run_pair(pair):
                seen[what] = seen.get(what, 0) + 1
                rep.fail(what, pair, d)
            one(a)
            one(b)
    rep.extra["cases_by_class"] = klass
    rep.extra["cases_by_dimension"] = dims
    rep.extra["pairs"] = n_pairs
    rep.extra["failures_by_clause"] = {k: v for k, v in seen.items() if v}


@replayer("bms_read_vs_interpreter")
def _replay(case, what):
    failed = run_pair(case) if "pair" in case else run_case(case)
    hit = [d for w, d in failed if w == what]
    return (bool(hit), hit[0] if hit else "passes")
