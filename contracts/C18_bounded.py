"""C18 bounded stand-in: the real `hitsound_copy` on pairs of small osu charts against the clauses of the
property statement (same notes as the target; no sound that the source lacks at that time; counts bounded by the
source and by what the target's notes can hold; every named sample kept on a note or as an event sample;
inputs untouched).  Per-bit counting only - which bit the library calls clap / whistle does not matter."""
from __future__ import annotations

from collections import Counter

from pyvc.dsl import bounded
from pyvc.bounded import replayer

TIMES = [0.0, 100.0, 250.0, 1000.5, 1000.9]  # the last two lie inside the same millisecond
BITS = (2, 4, 8)                      # whistle, finish, clap in the .osu format
VOLUMES = [0, 20, 30]
FILES = ["a.wav", "b.wav", "c.ogg", "d.wav", "e.wav"]
OWN_FILES = ["own1.wav", "own2.wav"]  # names that never occur in a source chart


# ---------------------------------------------------------------------------------------------- chart building
def _build(notes, events=()):
    """notes: [[time, column, length | None, hitsound bits, volume, file name]] in list order."""
    from reamber.osu import OsuMap, OsuHit, OsuHold, OsuBpm
    from reamber.osu.OsuSample import OsuSample
    from reamber.osu.lists import OsuBpmList
    from reamber.osu.lists.OsuSampleList import OsuSampleList
    from reamber.osu.lists.notes import OsuHitList, OsuHoldList

    m = OsuMap()
    m.bpms = OsuBpmList([OsuBpm(0.0, 120.0)])
    m.hits = OsuHitList([OsuHit(offset=t, column=c, hitsound_set=hs, volume=v, hitsound_file=f) for t, c, ln, hs, v, f in notes if ln is None])
    m.holds = OsuHoldList([OsuHold(offset=t, column=c, length=ln, hitsound_set=hs, volume=v, hitsound_file=f) for t, c, ln, hs, v, f in notes if ln is not None])
    m.samples = OsuSampleList([OsuSample(offset=t, sample_file=f, volume=v) for t, f, v in events])
    return m


def _freeze(m):
    out = {}
    for k in ("hits", "holds", "bpms", "svs", "samples"):
        df = getattr(m, k).df
        out[k] = (list(df.columns), repr(df.to_numpy().tolist()), repr(df.index.tolist()), repr(df.dtypes.tolist()))
    return out


def _read_notes(m):
    out = []
    h = m.hits.df
    for t, c, hs, f in zip(h["offset"].tolist(), h["column"].tolist(), h["hitsound_set"].tolist(), h["hitsound_file"].tolist()):
        out.append((float(t), int(c), None, int(hs), f))
    h = m.holds.df
    for t, c, ln, hs, f in zip(h["offset"].tolist(), h["column"].tolist(), h["length"].tolist(), h["hitsound_set"].tolist(), h["hitsound_file"].tolist()):
        out.append((float(t), int(c), float(ln), int(hs), f))
    return out


# ---------------------------------------------------------------------------------------------- the clauses
def _run_case(case):
    from reamber.algorithms.osu.hitsound_copy import hitsound_copy

    src_notes, tgt_notes = case["src"], case["tgt"]
    src, tgt = _build(src_notes), _build(tgt_notes, case.get("tgt_events", ()))
    f_src, f_tgt = _freeze(src), _freeze(tgt)
    try:
        res = hitsound_copy(src, tgt)
    except Exception as ex:
        return [("completes", f"hitsound_copy raised {type(ex).__name__}: {ex}")]
    failed = []

    # neither input is modified
    if _freeze(src) != f_src:
        failed.append(("source_not_modified", "source chart differs after the call"))
    if _freeze(tgt) != f_tgt:
        failed.append(("target_not_modified", "target chart differs after the call"))

    got = _read_notes(res)
    ev = [(float(t), f) for t, f in zip(res.samples.df["offset"].tolist(), res.samples.df["sample_file"].tolist())]

    # exactly the target's notes: time, column, length, kind
    want_notes = Counter((float(t), int(c), None if ln is None else float(ln)) for t, c, ln, *_ in tgt_notes)
    got_notes = Counter((t, c, ln) for t, c, ln, _, _ in got)
    if want_notes != got_notes:
        failed.append(("same_notes_as_target", f"missing {sorted((want_notes - got_notes).elements(), key=repr)}, extra {sorted((got_notes - want_notes).elements(), key=repr)}"))
        return failed

    times = sorted({float(n[0]) for n in src_notes} | {float(n[0]) for n in tgt_notes} | {t for t, _ in ev})
    for t in times:
        s_at = [n for n in src_notes if float(n[0]) == t]
        t_at = [n for n in tgt_notes if float(n[0]) == t]
        r_at = [n for n in got if n[0] == t]
        slots = len(t_at)
        s_files = Counter(n[5] for n in s_at if n[5])
        r_files = Counter(n[4] for n in r_at if n[4])
        e_files = Counter(f for tt, f in ev if tt == t)
        own_bits = {b for n in t_at for b in BITS if n[3] & b}
        own_files = {n[5] for n in t_at if n[5]}
        s_cnt = {b: sum(1 for n in s_at if n[3] & b) for b in BITS}
        r_cnt = {b: sum(1 for n in r_at if n[3] & b) for b in BITS}

        # every hitsound the result carries was present in the source at the same time ...
        for b in BITS:
            if r_cnt[b] > 0 and s_cnt[b] == 0:
                what = "target_own_sounds_not_carried" if b in own_bits else "carried_hitsound_present_in_source"
                failed.append((what, f"time {t}: bit {b} on {r_cnt[b]} result note(s), on no source note (the target had it itself: {b in own_bits})"))
        for f in r_files:
            if f not in s_files:
                what = "target_own_sounds_not_carried" if f in own_files else "carried_sample_file_present_in_source"
                failed.append((what, f"time {t}: result note carries file {f!r}; source files at that time {sorted(s_files)} (the target had it itself: {f in own_files})"))
        for f in e_files:
            if f not in s_files:
                failed.append(("event_sample_present_in_source", f"time {t}: event sample {f!r}; source files at that time {sorted(s_files)}"))

        # ... with no more claps, finishes or whistles per time than the source had
        for b in BITS:
            if s_cnt[b] > 0 and r_cnt[b] > s_cnt[b]:
                what = "target_own_sounds_not_carried" if b in own_bits else "no_more_hitsounds_than_source"
                failed.append((what, f"time {t}: bit {b} {r_cnt[b]} times in the result, {s_cnt[b]} times in the source"))

        # ... and as many as the target's notes at that time can hold.  Three packing-neutral consequences:
        vols = sorted({n[4] for n in s_at if n[3] or n[5]})
        need = sum(max([sum(1 for n in s_at if n[4] == v and n[3] & b) for b in BITS]) + sum(1 for n in s_at if n[4] == v and n[5]) for v in vols)
        clean = not own_bits and not own_files
        if clean:
            # (i) one note per sound-per-volume is enough room: nothing may be dropped
            if need <= slots and any(r_cnt[b] != s_cnt[b] for b in BITS):
                failed.append(("nothing_dropped_when_it_fits", f"time {t}: source counts {s_cnt}, result counts {r_cnt}, {slots} target notes, {need} needed"))
            # (ii) one volume, no named samples: exactly min(source count, number of target notes)
            if len(vols) == 1 and not s_files and any(r_cnt[b] != min(s_cnt[b], slots) for b in BITS):
                failed.append(("as_many_as_notes_can_hold", f"time {t}: source counts {s_cnt}, {slots} target notes, result counts {r_cnt}"))
            # (iii) a hitsound is dropped only when every target note at that time is in use
            if any(r_cnt[b] < s_cnt[b] for b in BITS) and any(n[3] == 0 and not n[4] for n in r_at):
                failed.append(("no_silent_note_while_sound_dropped", f"time {t}: source counts {s_cnt}, result counts {r_cnt}, silent result notes exist"))

        # every named sample of the source ends up on a target note at that time or as an event sample at that time
        lost = s_files - (r_files + e_files)
        if lost:
            # lost although every target note at that time is in use: it was an excess sample, which must become an event sample
            full = all(n[3] or n[4] for n in r_at)
            what = "every_excess_named_sample_becomes_event" if full else "named_sample_kept_on_note_or_event"
            failed.append((what, f"time {t}: source files {sorted(s_files.elements())}, on result notes {sorted(r_files.elements())}, event samples {sorted(e_files.elements())}, lost {sorted(lost.elements())}"))
    # de-duplicate clause ids, keep first detail
    seen, out = set(), []
    for w, d in failed:
        if w not in seen:
            seen.add(w)
            out.append((w, d))
    return out


# ---------------------------------------------------------------------------------------------- generation
def _side(rng, times, max_per_time, sound_p, file_pool, hold_p, files_per_time=None):
    notes = []
    for t in times:
        k = rng.randrange(1, max_per_time + 1)
        cols = [rng.randrange(0, 4) for _ in range(k)] if rng.random() < 0.2 else rng.sample(range(4), min(k, 4))
        pool = list(file_pool)
        rng.shuffle(pool)
        nf = files_per_time if files_per_time is not None else 0
        one_vol = rng.choice(VOLUMES) if rng.random() < 0.4 else None
        for i, c in enumerate(cols):
            ln = rng.choice([50.0, 300.0, 300.0, 0.0]) if rng.random() < hold_p else None  # a hold may have length 0
            hs = rng.choice([0, 2, 4, 6, 8, 10, 12, 14]) if rng.random() < sound_p else 0
            v = one_vol if one_vol is not None else rng.choice(VOLUMES)
            f = pool.pop() if (i < nf and pool) else ""
            notes.append([t, c, ln, hs, v, f])
    rng.shuffle(notes)
    return notes


def _random_case(rng):
    ts = rng.sample(TIMES, rng.randrange(1, 5))
    tt = [t for t in TIMES if rng.random() < 0.6] if rng.random() < 0.7 else list(ts)
    case = {}
    src = []
    for t in ts:
        nf = rng.choice([0, 0, 1, 2, 3, 4])
        src += _side(rng, [t], max(rng.randrange(1, 4), nf), 0.75, FILES, 0.3, files_per_time=nf)
    rng.shuffle(src)
    case["src"] = src
    dirty = rng.random() < 0.25
    tgt = _side(rng, tt, 3, 0.5 if dirty else 0.0, OWN_FILES, 0.3, files_per_time=(rng.choice([0, 1]) if dirty else 0)) if tt else []
    if not dirty:
        for n in tgt:
            n[4] = 0
    case["tgt"] = tgt
    case["tgt_events"] = [[rng.choice(TIMES), "old_event.wav", 40]] if rng.random() < 0.15 else []
    return case


def _stats(case):
    s = set()
    by_t = Counter(float(n[0]) for n in case["tgt"])
    for t in {float(n[0]) for n in case["src"]}:
        s_at = [n for n in case["src"] if float(n[0]) == t]
        files = sum(1 for n in s_at if n[5])
        sounds = sum(1 for n in s_at if n[3]) + files
        if sounds > by_t.get(t, 0):
            s.add("more_sounds_than_target_notes")
        if files > by_t.get(t, 0) + 1:
            s.add("two_or_more_excess_files")
        if len({n[4] for n in s_at}) > 1:
            s.add("several_volumes")
        if by_t.get(t, 0) == 0:
            s.add("source_time_without_target_note")
    if any(n[3] or n[5] for n in case["tgt"]):
        s.add("target_has_own_sounds")
    if any(n[2] is not None for n in case["src"]) and any(n[2] is not None for n in case["tgt"]):
        s.add("holds_on_both_sides")
    return s


@bounded("C18", note="real hitsound_copy on pairs of small osu charts (<= 4 times, <= 3-4 notes per time and side, all 8 hitsound bit sets, volumes {0,20,30}, 0-4 named samples per time, hits and holds) against the statement's clauses")
def hitsound_copy_vs_statement(rep):
    rng = rep.rng
    N = rep.n(1200, 40000)
    rep.bound = (f"up to {N} seeded pairs of osu charts: source 1..4 times from {TIMES} with 1..4 notes per time, hitsound bits in all 8 subsets of {{2,4,8}}, volumes {VOLUMES}, "
                 "0..4 distinct named sample files per time, 30% holds; target 0..4 times (any overlap) with 1..3 notes per time (20% repeated columns), 30% holds; "
                 "25% of the targets carry own hitsounds / own sample files, 15% an own event sample")
    rep.rule = "a case is one (source notes, target notes, target event samples); non-trivial when some source time carries a sound and the target has a note at that time"
    st = Counter()
    for _ in range(N):
        if rep.out_of_time(22, 300):
            break
        case = _random_case(rng)
        tt = {float(n[0]) for n in case["tgt"]}
        rep.case(case, nontrivial=any((n[3] or n[5]) and float(n[0]) in tt for n in case["src"]))
        for k in _stats(case):
            st[k] += 1
        for what, d in _run_case(case):
            rep.fail(what, case, d)
    rep.extra["feature_counts"] = dict(st)


@replayer("hitsound_copy_vs_statement")
def _replay(case, what):
    failed = _run_case(case)
    hit = [d for w, d in failed if w == what]
    return (bool(hit), hit[0] if hit else "passes")
