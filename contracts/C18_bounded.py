"""C18 bounded stand-in: the real `hitsound_copy` on pairs of small osu charts against the clauses of the
property statement (same notes as the target; no sound that the source lacks at that time; counts bounded by the
source and by what the target's notes can hold; every named sample kept on a note or as an event sample;
inputs untouched).  Per-bit counting only - which bit the library calls clap / whistle does not matter.

Input dimensions besides the notes themselves (all stored in the case, so it can be rebuilt): row labels of every
list of both charts (default / reversed / offset / gappy / permuted), rows in any order, the offset column int64-typed,
either chart without hits / without holds / without any note, times from a pool with negative, large, sub-millisecond
and 1-ulp-apart values, the 'normal' bit (1) next to whistle / finish / clap, sample / addition / custom set numbers on
notes of either side, the same sample name several times at one time, sample names with non-ASCII letters, blanks,
',' ':' '#' ';' and differing only in case, event samples in the source chart, the same chart object as source and
target, a second call that uses the first result as its source or as its target (`then`), a second call on the SAME two
chart objects after they were changed through public operations (`then.role == "edited"`: hitsound bits / sample names set
through the list properties, target notes shifted in place, the source shifted through its stack, a note appended to
either chart as a list or as one item, both charts replaced by their rate(2) / rate(0.5)) - judged against the charts as
they are then -, and columns up to 17 (the 18-key end of the column range).

Clauses added for them:
  result_shares_no_data_with_inputs       editing the inputs after the call changes the result, or editing the result
                                          changes an input (the inputs are then not really left alone)
  holds_after_append_of_an_item           any clause failing in a second call after a note was appended to an input as ONE
                                          item (kept apart: such a list has object-typed columns; the clause is in the detail)
  holds_after_stack_write_to_source       any clause failing in a second call after the SOURCE went through its stack
                                          (stack().offset += d, rate()) - kept apart: its integer columns are float64 then
  sample_name_with_semicolon_kept_whole   every per-time clause at a time where a source sample name contains ';'
                                          (kept apart: a name with ';' comes out as several names)
"""
from __future__ import annotations

from collections import Counter

from pyvc.dsl import bounded
from pyvc.bounded import replayer

TIMES = [0.0, 100.0, 250.0, 1000.5, 1000.9]  # the last two lie inside the same millisecond
MORE_TIMES = [-500.25, -0.5, 250.00000000000003, 333.3333333333333, 1000.0, 3600000.125, 0.001]  # negative; 250 + 1 ulp; inside the ms of 1000.5 / 1000.9; large; sub-ms
BITS = (2, 4, 8)                      # whistle, finish, clap in the .osu format
VOLUMES = [0, 20, 30]
MORE_VOLUMES = [5, 100]
FILES = ["a.wav", "b.wav", "c.ogg", "d.wav", "e.wav"]
ODD_FILES = ["\u30c9\u30e9\u30e0\u301c.wav", "snare hit.wav", "A.WAV", "x,y.wav", "c:d.wav", " lead.wav", "tail.wav ", "#1.wav", "\u3000\u00a0.wav", "caf\u00e9//1.ogg", "\"q\".wav"]
SEMI_FILES = ["kick;01.wav", ";.wav", "a.wav;b.wav"]
OWN_FILES = ["own1.wav", "own2.wav"]  # names that never occur in a source chart
EDIT_KINDS = ["src_bits", "src_files", "shift_tgt", "shift_src_stack", "append_src_list", "append_src_item", "append_tgt_item", "append_tgt_list", "rate", "rate_tgt", "shift_tgt_stack"]
LABEL_SCHEMES = ["default", "default", "default", "reversed", "offset", "gappy", "permuted"]


# ---------------------------------------------------------------------------------------------- chart building
def _build(notes, events=(), labels=None, int_offsets=False, timing=None):
    """notes: [[time, column, length | None, hitsound bits, volume, file name (, [sample set, addition set, custom set])]] in
    list order.  labels: {"hits" | "holds" | "samples": [row labels]} (default 0..n-1).  int_offsets: the offset columns
    of lists whose times are all whole numbers are typed int64."""
    from reamber.osu import OsuMap, OsuHit, OsuHold, OsuBpm
    from reamber.osu.OsuSample import OsuSample
    from reamber.osu.lists import OsuBpmList
    from reamber.osu.lists.OsuSampleList import OsuSampleList
    from reamber.osu.lists.notes import OsuHitList, OsuHoldList

    def sets(n):
        return dict(zip(("sample_set", "addition_set", "custom_set"), n[6])) if len(n) > 6 else {}

    m = OsuMap()
    m.bpms = OsuBpmList([OsuBpm(0.0, 120.0)])
    if timing:
        # dimension 17: tempo points / SVs before the first note, after the last note, on a note's time; rows in the given order
        from reamber.osu import OsuSv
        from reamber.osu.lists import OsuSvList
        m.bpms = OsuBpmList([OsuBpm(float(t), float(b)) for t, b in timing.get("bpms") or [[0.0, 120.0]]])
        m.svs = OsuSvList([OsuSv(float(t), float(x)) for t, x in timing.get("svs") or []])
    m.hits = OsuHitList([OsuHit(offset=n[0], column=n[1], hitsound_set=n[3], volume=n[4], hitsound_file=n[5], **sets(n)) for n in notes if n[2] is None])
    m.holds = OsuHoldList([OsuHold(offset=n[0], column=n[1], length=n[2], hitsound_set=n[3], volume=n[4], hitsound_file=n[5], **sets(n)) for n in notes if n[2] is not None])
    m.samples = OsuSampleList([OsuSample(offset=t, sample_file=f, volume=v) for t, f, v in events])
    for k in ("hits", "holds", "samples"):
        lst = getattr(m, k)
        df = lst.df
        if int_offsets and len(df) and all(float(x).is_integer() for x in df["offset"]):
            df = df.astype({"offset": "int64"})
        if labels and labels.get(k) is not None:
            assert len(labels[k]) == len(df)
            df = df.set_axis(list(labels[k]), axis=0)
        if df is not lst.df:
            lst.df = df
    return m


def _freeze(m):
    out = {}
    for k in ("hits", "holds", "bpms", "svs", "samples"):
        df = getattr(m, k).df
        out[k] = (list(df.columns), repr(df.to_numpy().tolist()), repr(df.index.tolist()), repr(df.dtypes.tolist()),
                  # dimension 15: the class of the list, the type of its row labels and the type of every cell (1 / 1.0 / True / numpy scalars)
                  type(getattr(m, k)).__name__, str(df.index.dtype), repr([[type(v).__name__ for v in df[c].tolist()] for c in df.columns]) if df.columns.is_unique else "")
    # ... and every other attribute of the chart with its exact type (a preview time re-typed int -> float IS a modification)
    import dataclasses
    from reamber.base.lists.TimedList import TimedList
    for f in dataclasses.fields(m):
        v = getattr(m, f.name, None)
        if f.name == "objs" or isinstance(v, TimedList):
            continue
        out["field:" + f.name] = (type(v).__name__, repr(v), repr([type(x).__name__ for x in v]) if isinstance(v, (list, tuple)) else "")
    return out


def _read_notes(m):
    out = []
    h = m.hits.df
    for t, c, hs, f in zip(h["offset"].tolist(), h["column"].tolist(), h["hitsound_set"].tolist(), h["hitsound_file"].tolist()):
        out.append((float(t), int(c), None, int(hs), f))
    h = m.holds.df
    for t, c, ln, hs, f in zip(h["offset"].tolist(), h["column"].tolist(), h["length"].tolist(), h["hitsound_set"].tolist(), h["hitsound_file"].tolist()):
        out.append((float(t), int(c), float(ln), int(hs), f))
    return out


def _as_input_notes(m):
    """the notes of a chart in the input form [time, column, length | None, bits, volume, file] (for a chart that a first
    call returned and a second call receives)."""
    out = []
    for lst, hold in ((m.hits, False), (m.holds, True)):
        h = lst.df
        for i in range(len(h)):
            r = h.iloc[i]
            out.append([float(r["offset"]), int(r["column"]), float(r["length"]) if hold else None, int(r["hitsound_set"]), int(r["volume"]), r["hitsound_file"]])
    return out


def _edit_in_place(m, k):
    for lst in (m.hits, m.holds, m.samples):
        df = lst.df
        if len(df):
            df.loc[:, "offset"] = df["offset"] + 7 * k
            df.loc[:, "volume"] = df["volume"] + k


def _edit_inputs(src, tgt, edits):
    """Legitimate changes of the two chart objects between two calls, through public operations only; -> (src, tgt)."""
    from reamber.osu import OsuHit
    from reamber.osu.lists.notes import OsuHitList

    for kind, arg in edits:
        if kind == "src_bits":          # the documented list property, in place
            for lst in [x for x in (src.hits, src.holds) if len(x.df)]:      # (assigning [] to a column of an empty list would retype it)
                lst.hitsound_set = [[0, 2, 4, 6, 8, 10, 12, 14][(i + arg) % 8] for i in range(len(lst.df))]
        elif kind == "src_files":
            for lst in [x for x in (src.hits, src.holds) if len(x.df)]:
                lst.hitsound_file = [FILES[(i + arg) % len(FILES)] if (i + arg) % 2 else "" for i in range(len(lst.df))]
        elif kind == "shift_tgt":
            tgt.hits.offset += arg
            tgt.holds.offset += arg
        elif kind == "shift_src_stack":
            st = src.stack()
            st.offset += arg
        elif kind == "append_src_list":
            src.hits = src.hits.append(OsuHitList([OsuHit(offset=arg, column=0, hitsound_set=14, volume=20, hitsound_file="app.wav")]))
        elif kind == "append_src_item":
            src.hits = src.hits.append(OsuHit(offset=arg, column=0, hitsound_set=14, volume=20, hitsound_file="app.wav"))
        elif kind == "append_tgt_item":
            tgt.hits = tgt.hits.append(OsuHit(offset=arg, column=3))
        elif kind == "append_tgt_list":
            tgt.hits = tgt.hits.append(OsuHitList([OsuHit(offset=arg, column=3), OsuHit(offset=arg, column=2)]), sort=True)
        elif kind == "rate":
            src, tgt = src.rate(arg), tgt.rate(arg)
        elif kind == "rate_tgt":
            tgt = tgt.rate(arg)
        elif kind == "shift_tgt_stack":
            st = tgt.stack()
            st.offset += arg
        else:
            raise ValueError(kind)
    return src, tgt


# ---------------------------------------------------------------------------------------------- the clauses
def _run_case(case):
    src_notes, tgt_notes = case["src"], case["tgt"]
    lab, ints = case.get("labels", {}), case.get("int_offsets", {})
    tim = case.get("timing", {})
    src = _build(src_notes, case.get("src_events", ()), lab.get("src"), ints.get("src", False), tim.get("src"))
    tgt = src if case.get("same_object") else _build(tgt_notes, case.get("tgt_events", ()), lab.get("tgt"), ints.get("tgt", False), tim.get("tgt"))
    failed, res = _check_call(src, tgt, src_notes, tgt_notes, case.get("src_events", ()), independence=case.get("then") is None)
    then = case.get("then")
    if then is not None and then["role"] == "edited" and res is not None and not failed:
        # the SAME two chart objects changed through public operations, then the call again: judged against the charts as they are now
        try:
            src, tgt = _edit_inputs(src, tgt, then["edits"])
        except Exception:  # noqa  (an edit that reamber refuses is not this property's business)
            src = None
        if src is not None:
            ev = [[float(t), f, int(v)] for t, f, v in zip(src.samples.df["offset"].tolist(), src.samples.df["sample_file"].tolist(), src.samples.df["volume"].tolist())]
            failed2, _ = _check_call(src, tgt, _as_input_notes(src), _as_input_notes(tgt), ev)
            item = any(k in ("append_src_item", "append_tgt_item") for k, _ in then["edits"])
            stack = any(k in ("rate", "shift_src_stack") for k, _ in then["edits"])
            failed += [("holds_after_stack_write_to_source" if stack else "holds_after_append_of_an_item" if item else w,
                        (f"[{w}] " if stack or item else "") + f"second call on the same chart objects after the edits {then['edits']}: " + d) for w, d in failed2]
    elif then is not None and res is not None and not failed:
        # a second call that receives what the first one returned (whatever row labels / dtypes that chart has)
        other = _build(then["other"], (), None, False)
        from_res = _as_input_notes(res)
        if then["role"] == "src":
            ev = [[float(t), f, int(v)] for t, f, v in zip(res.samples.df["offset"].tolist(), res.samples.df["sample_file"].tolist(), res.samples.df["volume"].tolist())]
            failed2, _ = _check_call(res, other, from_res, then["other"], ev)
        else:
            failed2, _ = _check_call(other, res, then["other"], from_res, ())
        failed += [(w, "second call (first result used as " + then["role"] + "): " + d) for w, d in failed2]
    # de-duplicate clause ids, keep first detail
    seen, out = set(), []
    for w, d in failed:
        if w not in seen:
            seen.add(w)
            out.append((w, d))
    return out


def _check_call(src, tgt, src_notes, tgt_notes, src_events, independence=True):
    """one call of the real function on (src, tgt) against the statement; -> (failed, result chart | None)"""
    from reamber.algorithms.osu.hitsound_copy import hitsound_copy

    f_src, f_tgt = _freeze(src), _freeze(tgt)
    try:
        res = hitsound_copy(src, tgt)
    except Exception as ex:
        return [("completes", f"hitsound_copy raised {type(ex).__name__}: {ex}")], None
    failed = []

    # neither input is modified
    g_src, g_tgt = _freeze(src), _freeze(tgt)
    if g_src != f_src:
        failed.append(("source_not_modified", "source chart differs after the call: " + "; ".join(f"{k}: {f_src[k]!r} -> {g_src.get(k)!r}"[:300] for k in f_src if g_src.get(k) != f_src[k])[:600]))
    if g_tgt != f_tgt:
        failed.append(("target_not_modified", "target chart differs after the call: " + "; ".join(f"{k}: {f_tgt[k]!r} -> {g_tgt.get(k)!r}"[:300] for k in f_tgt if g_tgt.get(k) != f_tgt[k])[:600]))

    _check_result(res, src_notes, tgt_notes, src_events, failed)

    if independence and not failed:
        # ... and stay unmodified: the result is a chart of its own (last, because it edits the charts)
        f_res = _freeze(res)
        _edit_in_place(src, 1)
        if tgt is not src:
            _edit_in_place(tgt, 2)
        if _freeze(res) != f_res:
            failed.append(("result_shares_no_data_with_inputs", "the result changed when the source / target charts were edited in place after the call"))
        f_src, f_tgt = _freeze(src), _freeze(tgt)
        _edit_in_place(res, 3)
        if _freeze(src) != f_src or _freeze(tgt) != f_tgt:
            failed.append(("result_shares_no_data_with_inputs", "an input chart changed when the result was edited in place"))
    return failed, res


def _check_result(res, src_notes, tgt_notes, src_events, failed):
    got = _read_notes(res)
    ev = [(float(t), f) for t, f in zip(res.samples.df["offset"].tolist(), res.samples.df["sample_file"].tolist())]

    # exactly the target's notes: time, column, length, kind
    want_notes = Counter((float(t), int(c), None if ln is None else float(ln)) for t, c, ln, *_ in tgt_notes)
    got_notes = Counter((t, c, ln) for t, c, ln, _, _ in got)
    if want_notes != got_notes:
        failed.append(("same_notes_as_target", f"missing {sorted((want_notes - got_notes).elements(), key=repr)}, extra {sorted((got_notes - want_notes).elements(), key=repr)}"))
        return

    times = sorted({float(n[0]) for n in src_notes} | {float(n[0]) for n in tgt_notes} | {t for t, _ in ev})
    for t in times:
        n_before = len(failed)
        s_at = [n for n in src_notes if float(n[0]) == t]
        t_at = [n for n in tgt_notes if float(n[0]) == t]
        r_at = [n for n in got if n[0] == t]
        slots = len(t_at)
        s_files = Counter(n[5] for n in s_at if n[5])
        r_files = Counter(n[4] for n in r_at if n[4])
        e_files = Counter(f for tt, f in ev if tt == t)
        own_bits = {b for n in t_at for b in BITS if n[3] & b}
        own_files = {n[5] for n in t_at if n[5]}
        s_cnt = {b: sum(1 for n in s_at if n[3] & b) for b in BITS}
        r_cnt = {b: sum(1 for n in r_at if n[3] & b) for b in BITS}

        # every hitsound the result carries was present in the source at the same time ...
        for b in BITS:
            if r_cnt[b] > 0 and s_cnt[b] == 0:
                what = "target_own_sounds_not_carried" if b in own_bits else "carried_hitsound_present_in_source"
                failed.append((what, f"time {t}: bit {b} on {r_cnt[b]} result note(s), on no source note (the target had it itself: {b in own_bits})"))
        for f in r_files:
            if f not in s_files:
                what = "target_own_sounds_not_carried" if f in own_files else "carried_sample_file_present_in_source"
                failed.append((what, f"time {t}: result note carries file {f!r}; source files at that time {sorted(s_files)} (the target had it itself: {f in own_files})"))
        s_event_files = {f for tt, f, _ in src_events if float(tt) == t}
        for f in e_files:
            if f not in s_files and f not in s_event_files:
                failed.append(("event_sample_present_in_source", f"time {t}: event sample {f!r}; source files at that time {sorted(s_files)}, source event samples {sorted(s_event_files)}"))

        # ... with no more claps, finishes or whistles per time than the source had
        for b in BITS:
            if s_cnt[b] > 0 and r_cnt[b] > s_cnt[b]:
                what = "target_own_sounds_not_carried" if b in own_bits else "no_more_hitsounds_than_source"
                failed.append((what, f"time {t}: bit {b} {r_cnt[b]} times in the result, {s_cnt[b]} times in the source"))

        # ... and as many as the target's notes at that time can hold.  Three packing-neutral consequences:
        vols = sorted({n[4] for n in s_at if n[3] or n[5]})
        need = sum(max([sum(1 for n in s_at if n[4] == v and n[3] & b) for b in BITS]) + sum(1 for n in s_at if n[4] == v and n[5]) for v in vols)
        clean = not own_bits and not own_files
        if clean:
            # (i) one note per sound-per-volume is enough room: nothing may be dropped
            if need <= slots and any(r_cnt[b] != s_cnt[b] for b in BITS):
                failed.append(("nothing_dropped_when_it_fits", f"time {t}: source counts {s_cnt}, result counts {r_cnt}, {slots} target notes, {need} needed"))
            # (ii) one volume, no named samples: exactly min(source count, number of target notes)
            if len(vols) == 1 and not s_files and any(r_cnt[b] != min(s_cnt[b], slots) for b in BITS):
                failed.append(("as_many_as_notes_can_hold", f"time {t}: source counts {s_cnt}, {slots} target notes, result counts {r_cnt}"))
            # (iii) a hitsound is dropped only when every target note at that time is in use
            if any(r_cnt[b] < s_cnt[b] for b in BITS) and any(n[3] == 0 and not n[4] for n in r_at):
                failed.append(("no_silent_note_while_sound_dropped", f"time {t}: source counts {s_cnt}, result counts {r_cnt}, silent result notes exist"))

        # every named sample of the source ends up on a target note at that time or as an event sample at that time
        lost = s_files - (r_files + e_files)
        if lost:
            # lost although every target note at that time is in use: it was an excess sample, which must become an event sample
            full = all(n[3] or n[4] for n in r_at)
            what = "every_excess_named_sample_becomes_event" if full else "named_sample_kept_on_note_or_event"
            failed.append((what, f"time {t}: source files {sorted(s_files.elements())}, on result notes {sorted(r_files.elements())}, event samples {sorted(e_files.elements())}, lost {sorted(lost.elements())}"))
        if any(";" in f for f in s_files):
            # kept apart (see the module text): whatever fails at a time with a ';' in a source sample name - the pieces
            # of a split name also take up target notes, so the counting clauses of that time are affected as well
            failed[n_before:] = [("sample_name_with_semicolon_kept_whole", w + ": " + d) for w, d in failed[n_before:]]


# ---------------------------------------------------------------------------------------------- generation
def _side(rng, times, max_per_time, sound_p, file_pool, hold_p, files_per_time=None, volumes=VOLUMES, odd=False):
    notes = []
    for t in times:
        k = rng.randrange(1, max_per_time + 1)
        cols = [rng.randrange(0, 4) for _ in range(k)] if rng.random() < 0.2 else rng.sample(range(4), min(k, 4))
        pool = list(file_pool)
        rng.shuffle(pool)
        if odd and rng.random() < 0.3 and pool:
            pool += [pool[-1]] * 2  # the same name several times at one time
        nf = files_per_time if files_per_time is not None else 0
        one_vol = rng.choice(volumes) if rng.random() < 0.4 else None
        for i, c in enumerate(cols):
            ln = rng.choice([50.0, 300.0, 300.0, 0.0]) if rng.random() < hold_p else None  # a hold may have length 0
            hs = rng.choice([0, 2, 4, 6, 8, 10, 12, 14]) if rng.random() < sound_p else 0
            if odd and rng.random() < 0.25:
                hs |= 1  # the 'normal' bit
            v = one_vol if one_vol is not None else rng.choice(volumes)
            f = pool.pop() if (i < nf and pool) else ""
            n = [t, c, ln, hs, v, f]
            if odd and rng.random() < 0.2:
                n.append([rng.randrange(0, 4), rng.randrange(0, 4), rng.choice([0, 0, 1, 7])])  # sample / addition / custom set
            notes.append(n)
    rng.shuffle(notes)
    return notes


def _labels(rng, n):
    scheme = rng.choice(LABEL_SCHEMES)
    if scheme == "default" or n == 0:
        return None
    if scheme == "reversed":
        return list(range(n - 1, -1, -1))
    if scheme == "offset":
        return list(range(1000, 1000 + n))
    if scheme == "gappy":
        return sorted(rng.sample(range(0, 3 * n + 5), n))
    out = list(range(n))
    rng.shuffle(out)
    return out


def _chart_labels(rng, notes, events):
    out = dict(hits=_labels(rng, sum(1 for n in notes if n[2] is None)), holds=_labels(rng, sum(1 for n in notes if n[2] is not None)), samples=_labels(rng, len(events)))
    return {k: v for k, v in out.items() if v is not None}


def _random_case(rng):
    # the pool of times of this case: the five standard ones, or five out of those and the unusual ones
    pool = list(TIMES) if rng.random() < 0.6 else sorted(rng.sample(TIMES + MORE_TIMES, 5))
    plain = rng.random() < 0.45  # 45% of the cases as before; the others mix the further dimensions in
    odd = not plain
    volumes = VOLUMES if plain or rng.random() < 0.6 else VOLUMES + MORE_VOLUMES
    files = list(FILES)
    if odd and rng.random() < 0.35:
        files = rng.sample(FILES, 2) + rng.sample(ODD_FILES, 3)
        if "A.WAV" in files and "a.wav" not in files:
            files[0] = "a.wav"
    if odd and rng.random() < 0.06:
        files[rng.randrange(len(files))] = rng.choice(SEMI_FILES)
    hold_p_src = 0.3 if plain else rng.choice([0.3, 0.3, 0.3, 0.0, 1.0])
    hold_p_tgt = 0.3 if plain else rng.choice([0.3, 0.3, 0.3, 0.0, 1.0])
    ts = rng.sample(pool, rng.randrange(1, 5))
    if odd and rng.random() < 0.05:
        ts = []  # a source chart without notes
    tt = [t for t in pool if rng.random() < 0.6] if rng.random() < 0.7 else list(ts)
    case = {}
    src = []
    for t in ts:
        nf = rng.choice([0, 0, 1, 2, 3, 4])
        src += _side(rng, [t], max(rng.randrange(1, 4), nf), 0.75, files, hold_p_src, files_per_time=nf, volumes=volumes, odd=odd)
    rng.shuffle(src)
    case["src"] = src
    dirty = rng.random() < 0.25
    tgt = _side(rng, tt, 3, 0.5 if dirty else 0.0, OWN_FILES, hold_p_tgt, files_per_time=(rng.choice([0, 1]) if dirty else 0), volumes=volumes, odd=odd and dirty) if tt else []
    if not dirty:
        for n in tgt:
            n[4] = 0
    case["tgt"] = tgt
    case["tgt_events"] = [[rng.choice(pool), "old_event.wav", 40]] if rng.random() < 0.15 else []
    if plain:
        return case
    if rng.random() < 0.2:
        # the source chart has event samples of its own (the statement's named samples are those of its notes)
        case["src_events"] = [[rng.choice(pool), rng.choice(["src_event.wav"] + files), rng.choice(volumes)] for _ in range(rng.randrange(1, 3))]
    if rng.random() < 0.06:
        # the same chart (object) as source and target
        case["same_object"] = True
        case["tgt"] = [list(n) for n in src]
        case["tgt_events"] = []
    if rng.random() < 0.6:
        lab = {}
        for side, notes, events in (("src", case["src"], case.get("src_events", [])), ("tgt", case["tgt"], case["tgt_events"])):
            d = _chart_labels(rng, notes, events)
            if d and not (side == "tgt" and case.get("same_object")):
                lab[side] = d
        if lab:
            case["labels"] = lab
    if rng.random() < 0.25:
        case["int_offsets"] = {side: True for side in ("src", "tgt") if rng.random() < 0.6}
    if rng.random() < 0.2 and not case.get("same_object"):
        # a second call: the first result as the source of another target, or as the target of another source
        role = rng.choice(["src", "tgt"])
        times2 = [t for t in pool if rng.random() < 0.6] or [pool[0]]
        if role == "src":
            other = _side(rng, times2, 3, 0.0, OWN_FILES, 0.3, files_per_time=0, volumes=[0])
        else:
            other = []
            for t in times2:
                nf = rng.choice([0, 0, 1, 2])
                other += _side(rng, [t], max(rng.randrange(1, 4), nf), 0.75, ["n1.wav", "n2.wav", "n3.wav"], 0.3, files_per_time=nf, volumes=volumes)
        case["then"] = dict(role=role, other=other)
    elif rng.random() < 0.25 and not case.get("same_object"):
        # the same two chart objects, changed through public operations, then the call again
        edits = []
        for kind in rng.sample(EDIT_KINDS, rng.choice([1, 1, 2, 3])):
            arg = dict(src_bits=rng.randrange(8), src_files=rng.randrange(5), shift_tgt=rng.choice([100.0, -100.0, 150.0, 0.5]), shift_src_stack=rng.choice([100.0, -150.0]),
                       rate=rng.choice([2.0, 0.5]), rate_tgt=rng.choice([2.0, 0.5]), shift_tgt_stack=rng.choice([100.0, -150.0])).get(kind)
            if arg is None:
                arg = rng.choice(pool)      # appended notes sit on a time of the pool
            edits.append([kind, arg])
        case["then"] = dict(role="edited", edits=edits)
    if rng.random() < 0.3:
        # dimension 17: which KIND of object is first / last in each chart: tempo points and SVs before every note, after every note, exactly on
        # the first / last note, the first note before the first tempo point; rows of the tempo list not in time order
        tim = {}
        for side in ("src", "tgt"):
            ts_ = sorted(float(n[0]) for n in case[side]) or [0.0]
            lo, hi = ts_[0], ts_[-1]
            bp = rng.choice([[[hi + 1000.0, 150.0], [lo - 1000.0, 120.0]], [[lo, 120.0], [hi, 90.0]], [[lo + 1.0, 120.0]], [[hi + 500.0, 200.0]], [[lo - 0.5, 60.0], [(lo + hi) / 2, 180.0], [hi + 0.5, 240.0]]])
            sv = rng.choice([[], [[lo - 2000.0, 0.5]], [[lo, 2.0], [hi + 2000.0, 0.75]], [[hi, 1.5], [lo - 1.0, 0.25]]])
            if rng.random() < 0.8:
                tim[side] = dict(bpms=bp, svs=sv)
        if tim and not case.get("same_object"):
            case["timing"] = tim
    if rng.random() < 0.15:
        # the upper end of the column range (18 keys): target / source notes in columns up to 17
        for n in case["src"] + (case["tgt"] if not case.get("same_object") else []):
            if rng.random() < 0.5:
                n[1] = rng.choice([4, 9, 16, 17])
        if case.get("same_object"):
            case["tgt"] = [list(n) for n in case["src"]]
    return case


def _stats(case):
    s = set()
    by_t = Counter(float(n[0]) for n in case["tgt"])
    for t in {float(n[0]) for n in case["src"]}:
        s_at = [n for n in case["src"] if float(n[0]) == t]
        files = sum(1 for n in s_at if n[5])
        sounds = sum(1 for n in s_at if n[3]) + files
        if sounds > by_t.get(t, 0):
            s.add("more_sounds_than_target_notes")
        if files > by_t.get(t, 0) + 1:
            s.add("two_or_more_excess_files")
        if len({n[4] for n in s_at}) > 1:
            s.add("several_volumes")
        if by_t.get(t, 0) == 0:
            s.add("source_time_without_target_note")
    if any(n[3] or n[5] for n in case["tgt"]):
        s.add("target_has_own_sounds")
    if any(n[2] is not None for n in case["src"]) and any(n[2] is not None for n in case["tgt"]):
        s.add("holds_on_both_sides")
    for side in ("src", "tgt"):
        notes = case[side]
        if not notes:
            s.add(side + "_without_notes")
        elif all(n[2] is None for n in notes):
            s.add(side + "_without_holds")
        elif all(n[2] is not None for n in notes):
            s.add(side + "_without_hits")
        if case.get("labels", {}).get(side):
            s.add(side + "_non_default_row_labels")
        if case.get("int_offsets", {}).get(side):
            s.add(side + "_int_typed_offsets")
    for k in ("src_events", "same_object", "then"):
        if case.get(k):
            s.add(k if k != "then" else ("then_first_result_as_" + case["then"]["role"]) if case["then"]["role"] != "edited" else "then_same_objects_after_public_edits")
    if case.get("then") and case["then"]["role"] == "edited":
        for k, _ in case["then"]["edits"]:
            s.add("edit_" + k)
    if any(n[1] > 3 for n in case["src"] + case["tgt"]):
        s.add("columns_above_3")
    names = {n[5] for n in case["src"] if n[5]}
    if any(";" in f for f in names):
        s.add("sample_name_with_semicolon")
    if names - set(FILES) - set(SEMI_FILES):
        s.add("unusual_sample_names")
    if any(len(n) > 6 for n in case["src"] + case["tgt"]):
        s.add("sample_set_numbers")
    if any(n[3] & 1 for n in case["src"] + case["tgt"]):
        s.add("normal_bit")
    if {float(n[0]) for n in case["src"] + case["tgt"]} & set(MORE_TIMES):
        s.add("unusual_times")
    for t in {float(n[0]) for n in case["src"]}:
        f_at = [n[5] for n in case["src"] if float(n[0]) == t and n[5]]
        if len(f_at) != len(set(f_at)):
            s.add("same_sample_name_twice_at_a_time")
    return s


@bounded("C18", note="real hitsound_copy on pairs of small osu charts (<= 4 times, <= 3-4 notes per time and side, all 8 hitsound bit sets, volumes {0,20,30}, 0-4 named samples per time, hits and holds; 55% with further dimensions: row labels, int-typed offsets, tempo points / SVs before the first, after the last and on the first / last note of either chart, charts lacking a kind of note, unusual names / volumes, source event samples, same chart twice, a second call on the first result) against the statement's clauses")
def hitsound_copy_vs_statement(rep):
    rng = rep.rng
    N = rep.n(1200, 40000)
    rep.bound = (f"up to {N} seeded pairs of osu charts: source 1..4 times from {TIMES} with 1..4 notes per time, hitsound bits in all 8 subsets of {{2,4,8}}, volumes {VOLUMES}, "
                 "0..4 distinct named sample files per time, 30% holds; target 0..4 times (any overlap) with 1..3 notes per time (20% repeated columns), 30% holds; "
                 "25% of the targets carry own hitsounds / own sample files, 15% an own event sample.  In 40% of the pairs the five times are drawn from "
                 f"{TIMES + MORE_TIMES} instead.  55% of the pairs additionally draw from: volumes + {MORE_VOLUMES}; source / target with hits only or holds only (20% each), source without notes (5%); "
                 "the 'normal' bit on 25% of the notes, sample / addition / custom set numbers on 20%; the same sample name up to 3 times at a time; sample names with non-ASCII "
                 "letters, blanks, U+3000 / U+00A0, ',' ':' '#' '//' quotes, 'A.WAV' next to 'a.wav' (35%), with ';' (6%); 1-2 event samples in the source chart (20%); the same "
                 "chart object as source and target (6%); row labels of hits / holds / samples of either chart reversed / offset / gappy / permuted (60%, each list 4/7); offset "
                 "columns int64-typed (25%); a second call with the first result as source or as target of a further chart (20%), or (20%) on the SAME two chart objects after 1-3 public edits of them "
                 f"({', '.join(EDIT_KINDS)}), judged against the charts as they are then; columns up to 17 on half of the notes (15%); after every single-call case both inputs and "
                 "the result are edited in place to see that they share no data")
    rep.rule = "a case is one (source notes, target notes, event samples, row labels, typing, optional second call); non-trivial when some source time carries a sound and the target has a note at that time"
    st = Counter()
    for _ in range(N):
        if rep.out_of_time(22, 300):
            break
        case = _random_case(rng)
        tt = {float(n[0]) for n in case["tgt"]}
        rep.case(case, nontrivial=any((n[3] or n[5]) and float(n[0]) in tt for n in case["src"]))
        for k in _stats(case):
            st[k] += 1
        for what, d in _run_case(case):
            rep.fail(what, case, d)
    rep.extra["feature_counts"] = dict(st)


@replayer("hitsound_copy_vs_statement")
def _replay(case, what):
    failed = _run_case(case)
    hit = [d for w, d in failed if w == what]
    return (bool(hit), hit[0] if hit else "passes")
