"""C03 - StepMania writing (deductive kernel; whole mapsets: contracts/C03_bounded.py).

The per-measure step of SMMap.write (body of `for measure, g in notes_gb`) as a loop-body unit: for the objects of
one measure given as (numerator, denominator) of their position inside the measure, the step
 * pads exactly measure - prev_measure - 1 empty measures of `keys` columns before it,
 * writes a measure of den_max = min(lcm of the denominators, 384) rows of `keys` characters,
 * puts every object's character in its own column at row numerator * den_max / denominator - exactly its
   position when the lcm fits (so times agree exactly), no other cell is set,
 * and remembers the measure number.
Denominators are enumerated (quick: single objects on 4, 8, 12, 16 rows and the pair (4,4); thorough: singles up to 48 rows, pairs (4,4), (4,8), (8,8), (4,12)), 3 columns, numerators, columns,
measure numbers symbolic; `np.lcm` on concrete denominators is evaluated (A2).
"""
from fractions import Fraction

from pyvc.dsl import contract, lemma, bounded, loop_unit, Ty, Int, Real, Bool, Obj, Const, Choice, ListT, FrameT
from pyvc.ghost import eqr, implies

WRITE = "reamber.sm.SMMap:SMMap.write"
DENS = (4, 8, 12, 16, 24, 48)
KEYS = 3


def GroupT(dens):
    """The rows of one measure: column (0..keys-1), char, den (concrete), num (0 <= num < den)."""

    class T(Ty):
        def make(self, name, ctx):
            import z3
            from pyvc.frames import SFrame

            n = len(dens)
            nums = [z3.Int(f"{name}.num[{i}]") for i in range(n)]
            cols = [z3.Int(f"{name}.column[{i}]") for i in range(n)]
            for i in range(n):
                ctx.assume(z3.And(nums[i] >= 0, nums[i] < dens[i], cols[i] >= 0, cols[i] < KEYS))
            return SFrame({"column": cols, "char": ["1", "M", "2"][:n], "den": list(dens), "num": nums}, list(range(5, 5 + n)))

        def concretize(self, name, model):
            import pandas as pd
            import z3
            from pyvc.dsl import _mval

            n = len(dens)
            return pd.DataFrame({"column": [float(_mval(model, z3.Int(f"{name}.column[{i}]")).as_long()) for i in range(n)], "char": ["1", "M", "2"][:n], "den": list(dens),
                                 "num": [_mval(model, z3.Int(f"{name}.num[{i}]")).as_long() for i in range(n)]}, index=list(range(5, 5 + n)))

    return T()


_SHAPES = [GroupT((d,)) for d in (4, 8, 12, 16)] + [GroupT((4, 4))]
_SHAPES_THOROUGH = [GroupT((d,)) for d in DENS] + [GroupT((4, 4)), GroupT((4, 8)), GroupT((8, 8)), GroupT((4, 12))]


def _lcm_cap(dens):
    from math import lcm

    L = 1
    for d in dens:
        L = min(lcm(L, d), 384)
    return min(L, 384)


@loop_unit("C03", WRITE, anchor="for measure, g in notes_gb",
           args=dict(g=Choice(_SHAPES), measure=Int(0), prev_measure=Int(-1), out=ListT(Real(), 0), keys=Const(KEYS), METRONOME=Const(4), MAX_SNAP=Const(384),
                     lcm_and_cap=Const(None)))
class measure_step:
    assumes = ["denominators enumerated over the row counts 4..48 (pairs), 4 columns; numerators, columns and measure numbers symbolic; padding count symbolic up to 2 (range over a symbolic count needs a bound: the state fixes measure - prev_measure - 1 in {0,1})"]
    max_paths = 40000
    explore_s = 240
    explore_s_thorough = 3000
    args_thorough = dict(g=Choice(_SHAPES_THOROUGH))

    def requires(g, measure, prev_measure, out, keys, METRONOME, MAX_SNAP, lcm_and_cap):
        return prev_measure < measure and measure - prev_measure <= 2

    def ensures_padding_and_one_measure_block(g, measure, prev_measure, out, keys, METRONOME, MAX_SNAP, lcm_and_cap, result, old):
        pad = measure - prev_measure - 1
        blocks = result.out
        return (result.prev_measure == measure and len(blocks) == pad + 1
                and all(blocks[i] == "\n".join(["0" * keys] * 4) for i in range(len(blocks) - 1)))

    def ensures_objects_at_their_exact_rows(g, measure, prev_measure, out, keys, METRONOME, MAX_SNAP, lcm_and_cap, result, old):
        dens = old.g["den"].tolist()
        dm = _lcm_cap(dens)
        rows_ = result.out[-1].split("\n")
        nums, cols, chars = old.g["num"].tolist(), old.g["column"].tolist(), old.g["char"].tolist()
        ok = len(rows_) == dm and all(len(r) == keys for r in rows_)
        for i in range(len(dens)):
            # exact placement: row / dm == num / den
            for r in range(dm):
                for c in range(keys):
                    here = (nums[i] * dm == r * dens[i]) and cols[i] == c
                    later_same_cell = any((nums[j] * dm == r * dens[j]) and cols[j] == c for j in range(i + 1, len(dens)))
                    ok = ok and implies(here and not later_same_cell, rows_[r][c] == chars[i])
        # nothing else is set
        for r in range(dm):
            for c in range(keys):
                used = any((nums[i] * dm == r * dens[i]) and cols[i] == c for i in range(len(dens)))
                ok = ok and implies(not used, rows_[r][c] == "0")
        return ok

    def witnesses(rng):
        import numpy as np
        import pandas as pd

        def lcm_and_cap(x, y):
            return min(np.lcm(x, y), 384)

        for _ in range(120):
            n = rng.randrange(1, 3)
            dens = [rng.choice(DENS) for _ in range(n)]
            g = pd.DataFrame({"column": [float(rng.randrange(KEYS)) for _ in range(n)], "char": ["1", "M"][:n], "den": dens, "num": [rng.randrange(d) for d in dens]}, index=list(range(5, 5 + n)))
            pm = rng.randrange(-1, 4)
            yield dict(g=g, measure=pm + rng.randrange(1, 4), prev_measure=pm, out=[], keys=KEYS, METRONOME=4, MAX_SNAP=384, lcm_and_cap=lcm_and_cap)
