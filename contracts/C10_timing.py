"""C10 - timing engine: Snap arithmetic, integration of beat length, snapping, sweep results in query order."""
from fractions import Fraction

from pyvc.dsl import contract, lemma, bounded, loop_unit, Ty, Int, Real, Bool, Obj, Const, Choice, ListT
from pyvc.ghost import eqr, implies, ler, floor

SNAP = "reamber.algorithms.timing.utils.snap:Snap"
BCO = "reamber.algorithms.timing.utils.BpmChangeOffset:BpmChangeOffset"
BCS = "reamber.algorithms.timing.utils.BpmChangeSnap:BpmChangeSnap"


def _mk_snap(measure, beat, metronome):
    from reamber.algorithms.timing.utils.snap import Snap

    s = Snap.__new__(Snap)  # bypass normalisation: the contract's `requires` states the invariant
    s.measure, s.beat, s.metronome = measure, beat, metronome
    return s


def SnapT(**kw):
    return Obj(SNAP, build=_mk_snap, measure=Int(), beat=Real("fraction"), metronome=Real("fraction"))


def normal(s):
    """Data-structure invariant of a Snap produced by its constructor."""
    return s.measure >= 0 and 0 <= s.beat and s.beat < s.metronome and s.metronome > 0


def pos(s):
    """Position in beats of a normalised snap."""
    return s.measure * s.metronome + s.beat


# ----------------------------------------------------------------------------- Snap construction


@contract("C10", SNAP, args=dict(measure=Int(), beat=Real("fraction"), metronome=Real("fraction")),
          returns=Obj(SNAP, build=lambda **k: None, measure=Int(), beat=Real("fraction"), metronome=Real("fraction")))
class snap_post_init:
    """Snap(measure, beat, metronome): value-preserving normalisation for measure >= 0."""

    def requires(measure, beat, metronome):
        return measure >= 0 and metronome > 0

    raises = {ValueError: lambda measure, beat, metronome: measure * metronome + beat < 0}

    def ensures_position_preserved(measure, beat, metronome, result):
        return eqr(result.measure * metronome + result.beat, measure * metronome + beat)

    def ensures_normalised(measure, beat, metronome, result):
        return 0 <= result.beat and result.beat < metronome and result.measure >= 0 and result.metronome == metronome

    def ensures_measure_integral(measure, beat, metronome, result):
        return result.measure == int(result.measure)

    def ensures_returns_only_if_nonnegative(measure, beat, metronome, result):
        return measure * metronome + beat >= 0

    def witnesses(rng):
        for _ in range(300):
            me = Fraction(rng.choice([1, 2, 3, 4, 5, 7, 8]))
            yield dict(measure=rng.randrange(0, 6), beat=Fraction(rng.randrange(-40, 60), rng.choice([1, 2, 3, 4, 8, 48])), metronome=me)


@contract("C10", SNAP + ".__lt__", args=dict(self=SnapT(), other=SnapT()))
class snap_lt:
    def requires(self, other):
        return normal(self) and normal(other) and self.metronome == other.metronome

    def ensures_is_position_order(self, other, result):
        return result == (pos(self) < pos(other))

    def witnesses(rng):
        for _ in range(200):
            m = Fraction(rng.choice([3, 4, 7]))
            yield dict(self=_mk_snap(rng.randrange(3), Fraction(rng.randrange(0, int(m) * 4), 4), m), other=_mk_snap(rng.randrange(3), Fraction(rng.randrange(0, int(m) * 4), 4), m))


@contract("C10", SNAP + ".__eq__", args=dict(self=SnapT(), other=SnapT()))
class snap_eq:
    def requires(self, other):
        return normal(self) and normal(other) and self.metronome == other.metronome

    def ensures_is_position_equality(self, other, result):
        return result == (pos(self) == pos(other))

    def witnesses(rng):
        for _ in range(200):
            m = Fraction(rng.choice([3, 4]))
            yield dict(self=_mk_snap(rng.randrange(2), Fraction(rng.randrange(0, int(m) * 2), 2), m), other=_mk_snap(rng.randrange(2), Fraction(rng.randrange(0, int(m) * 2), 2), m))


@contract("C10", SNAP + ".__sub__", args=dict(self=SnapT(), other=SnapT()))
class snap_sub:
    """a - b for a >= b under one metronome: a normalised snap whose position is the beat distance."""

    def requires(self, other):
        return normal(self) and normal(other) and self.metronome == other.metronome and pos(self) >= pos(other)

    def ensures_distance(self, other, result):
        return eqr(pos(result), pos(self) - pos(other)) and normal(result)

    def witnesses(rng):
        for _ in range(200):
            m = Fraction(rng.choice([3, 4, 5]))
            a = _mk_snap(rng.randrange(4), Fraction(rng.randrange(0, int(m) * 4), 4), m)
            b = _mk_snap(rng.randrange(4), Fraction(rng.randrange(0, int(m) * 4), 4), m)
            if pos(a) < pos(b):
                a, b = b, a
            yield dict(self=a, other=b)


def _mk_bco(bpm, metronome, offset):
    from reamber.algorithms.timing.utils.BpmChangeOffset import BpmChangeOffset

    return BpmChangeOffset(bpm, metronome, offset)


def BcoT():
    return Obj(BCO, build=_mk_bco, bpm=Real(), metronome=Real("fraction"), offset=Real())


@contract("C10", SNAP + ".offset", args=dict(self=SnapT(), bpm_active=BcoT()))
class snap_offset:
    """Duration in ms of a snap-distance under the active tempo: 60000/bpm per beat."""

    def requires(self, bpm_active):
        return bpm_active.bpm > 0 and bpm_active.metronome > 0 and self.metronome == bpm_active.metronome

    def ensures_linear_in_beats(self, bpm_active, result):
        return eqr(result * bpm_active.bpm, 60000 * (self.measure * bpm_active.metronome + self.beat))

    def witnesses(rng):
        for _ in range(200):
            m = Fraction(rng.choice([3, 4, 5]))
            yield dict(self=_mk_snap(rng.randrange(4), Fraction(rng.randrange(0, int(m) * 4), 4), m), bpm_active=_mk_bco(rng.choice([60.0, 120.0, 177.5, 200.0]), m, float(rng.randrange(-500, 500))))


# ----------------------------------------------------------------------------- tempo changes


def _mk_bcs(bpm, metronome, snap):
    from reamber.algorithms.timing.utils.BpmChangeSnap import BpmChangeSnap

    o = BpmChangeSnap.__new__(BpmChangeSnap)
    o.bpm, o.metronome, o.snap = bpm, metronome, snap
    return o


def BcsT():
    return Obj(BCS, build=_mk_bcs, bpm=Real(), metronome=Real("fraction"), snap=SnapT())


def wf_bcs(b):
    """A well-formed tempo change in snap form."""
    return b.bpm > 0 and b.metronome > 0 and normal(b.snap) and b.snap.metronome == b.metronome


def beats_between(parent, child):
    """Beat distance from tempo change `parent` to a later position `child` (a Snap), counted in
    parent's metronome: whole measures of parent.metronome beats plus the beat difference."""
    return (child.measure - parent.snap.measure) * parent.metronome + (child.beat - parent.snap.beat)


FBCS = "reamber.algorithms.timing.utils.from_bpm_changes_snap:from_bpm_changes_snap"


@loop_unit("C10", FBCS, anchor="for parent_bcs, child_bcs in zip",
           args=dict(parent_bcs=BcsT(), child_bcs=BcsT(), offset=Real(), bco_s=ListT(BcoT(), 1)))
class from_snap_accumulate_step:
    """One iteration of the accumulation loop from ANY state: the running offset advances by the beat
    distance between the two changes at the parent's beat length and exactly one BpmChangeOffset with the
    child's bpm / metronome is appended at that offset.  (Unbounded in the number of changes by induction:
    the loop visits consecutive pairs of the sorted list - zip/slice semantics, A3.)"""

    def requires(parent_bcs, child_bcs, offset, bco_s):
        return (wf_bcs(parent_bcs) and wf_bcs(child_bcs)
                and beats_between(parent_bcs, child_bcs.snap) >= 0
                and (child_bcs.snap.measure > parent_bcs.snap.measure
                     or (child_bcs.snap.measure == parent_bcs.snap.measure and child_bcs.snap.beat >= parent_bcs.snap.beat)))

    def ensures_offset_is_integrated(parent_bcs, child_bcs, offset, bco_s, result):
        return eqr((result.offset - offset) * parent_bcs.bpm, 60000 * beats_between(parent_bcs, child_bcs.snap))

    def ensures_one_change_appended(parent_bcs, child_bcs, offset, bco_s, result):
        return (result.outcome == "normal" and len(result.bco_s) == len(bco_s) + 1
                and result.bco_s[-1].bpm == child_bcs.bpm and result.bco_s[-1].metronome == child_bcs.metronome
                and eqr(result.bco_s[-1].offset, result.offset)
                and result.bco_s[0].offset == bco_s[0].offset and result.bco_s[0].bpm == bco_s[0].bpm)

    def witnesses(rng):
        for _ in range(200):
            m = Fraction(rng.choice([3, 4, 5]))
            m2 = Fraction(rng.choice([3, 4, 5]))
            p = _mk_bcs(float(rng.choice([60, 120, 177.5])), m, _mk_snap(rng.randrange(3), Fraction(rng.randrange(0, int(m) * 4), 4), m))
            c = _mk_bcs(float(rng.choice([60, 90, 240])), m2, _mk_snap(p.snap.measure + rng.randrange(0, 3), Fraction(rng.randrange(0, int(m2) * 4), 4), m2))
            yield dict(parent_bcs=p, child_bcs=c, offset=float(rng.randrange(-500, 5000)), bco_s=[_mk_bco(p.bpm, p.metronome, 0.0)])


def T_spec(bcs_sorted, initial, snap):
    """Piecewise-linear integration: ms of position `snap` under the sorted well-formed changes
    (start time of each segment accumulated unconditionally; the last change at or before `snap` is active)."""
    start = initial
    res = start + beats_between(bcs_sorted[0], snap) * 60000 / bcs_sorted[0].bpm
    for i in range(1, len(bcs_sorted)):
        start = start + beats_between(bcs_sorted[i - 1], bcs_sorted[i].snap) * 60000 / bcs_sorted[i - 1].bpm
        here = start + beats_between(bcs_sorted[i], snap) * 60000 / bcs_sorted[i].bpm
        res = here if _snap_le(bcs_sorted[i].snap, snap) else res
    return res


def _snap_le(a, b):
    return a.measure < b.measure or (a.measure == b.measure and a.beat <= b.beat)


def _sorted_changes(bcs_s):
    return all(_snap_le(a.snap, b.snap) and not (a.snap.measure == b.snap.measure and a.snap.beat == b.snap.beat) for a, b in zip(bcs_s[:-1], bcs_s[1:]))


def _rand_changes(rng, n, metro=None, on_measure=False):
    out = []
    pos = Fraction(0)
    for i in range(n):
        m = Fraction(metro or rng.choice([3, 4, 5]))
        if i == 0:
            sn = _mk_snap(0, Fraction(0), m)
            measure = 0
        else:
            measure = out[-1].snap.measure + rng.randrange(1, 4)
            sn = _mk_snap(measure, Fraction(0) if on_measure else Fraction(rng.randrange(0, int(m) * 4), 4), m)
        out.append(_mk_bcs(float(rng.choice([60, 90, 120, 177.5, 240])), m, sn))
    return out


@contract("C10", FBCS, args=dict(initial_offset=Real(), bcs_s=Choice([ListT(BcsT(), n) for n in (1, 2, 3)]), reseat=Const(False)))
class from_bpm_changes_snap_noreseat:
    max_paths = 4000

    """Whole function at 1..3 changes in ANY list order (shape-bounded; the unbounded argument is the
    step unit above): result k has the k-th sorted change's bpm/metronome and the integrated offset."""

    assumes = ["shape-bounded: 1..3 tempo changes (all values symbolic); unbounded count by from_snap_accumulate_step"]

    def requires(initial_offset, bcs_s, reseat):
        return (all(wf_bcs(b) for b in bcs_s)
                and all(not (a.snap.measure == b.snap.measure and a.snap.beat == b.snap.beat) for i, a in enumerate(bcs_s) for b in bcs_s[i + 1:])
                and any(b.snap.measure == 0 and b.snap.beat == 0 for b in bcs_s))

    def ensures_integration(initial_offset, bcs_s, reseat, result):
        s = sorted(bcs_s, key=lambda b: (b.snap.measure, b.snap.beat))
        bco = result.bpm_changes_offset
        return (len(bco) == len(bcs_s)
                and all(bco[k].bpm == s[k].bpm and bco[k].metronome == s[k].metronome for k in range(len(s)))
                and all(eqr(bco[k].offset, T_spec(s, initial_offset, s[k].snap)) for k in range(len(s))))

    def witnesses(rng):
        for _ in range(150):
            cs = _rand_changes(rng, rng.randrange(1, 4))
            rng.shuffle(cs)
            yield dict(initial_offset=float(rng.randrange(-2000, 2000)), bcs_s=cs, reseat=False)


# ----------------------------------------------------------------------------- Snapper (abstract table)

SNAPPER = "reamber.algorithms.timing.utils.Snapper:Snapper"


class SnapperT(Ty):
    """A Snapper whose table is abstract: functions val/num/den on [0, N) with the invariants I1-I4 (checked
    natively on the real default table every run by `snapper_table_invariants`)."""

    def make(self, name, ctx):
        import z3
        from pyvc.npmodel import SFuncArray
        from pyvc.engine import SObj
        from pyvc.dsl import resolve

        from pyvc.npmodel import TableTheory

        N = z3.Int(name + ".N")
        val = z3.Function(name + ".val", z3.IntSort(), z3.RealSort())
        num = z3.Function(name + ".num", z3.IntSort(), z3.IntSort())
        den = z3.Function(name + ".den", z3.IntSort(), z3.IntSort())
        th = TableTheory(ctx)
        ctx.assume(N >= 2)
        ctx.assume(val(0) == 0)
        ctx.assume(val(N - 1) == 1)
        inr = lambda i: z3.And(0 <= i, i < N)
        th.add_binary(lambda i, j: z3.Implies(z3.And(inr(i), inr(j), i < j), val(i) < val(j)))  # I2
        th.add_unary(lambda i: z3.Implies(inr(i), z3.And(den(i) >= 1, z3.ToReal(num(i)) / z3.ToReal(den(i)) == val(i))))  # I3
        th.add_unary(lambda i: z3.Implies(z3.And(0 <= i, i < N - 1), val(i + 1) - val(i) <= z3.RealVal("1/96")))  # I4
        th.add_unary(lambda i: z3.Implies(z3.And(0 < i, i < N), val(i) - val(i - 1) <= z3.RealVal("1/96")))  # I4 (other side)
        th.touch(z3.IntVal(0))
        th.touch(N - 1)
        return SObj(resolve(SNAPPER), {"val": SFuncArray(val, N, th), "num": SFuncArray(num, N, th), "den": SFuncArray(den, N, th)})

    def concretize(self, name, model):
        from reamber.algorithms.timing.utils.Snapper import Snapper

        return Snapper()


def _grid(self, j):
    """Native/ghost view of grid point j of a snapper."""
    return self.val[j]


@contract("C10", SNAPPER + ".snap", args=dict(self=SnapperT(), beat=Real("fraction"), j=Int()))
class snapper_snap:
    """Nearest allowed fraction (for EVERY grid index j), within 1/192, fixed point on the grid."""

    assumes = ["Snapper table abstracted by invariants I1-I4 (0 and 1 present, strictly increasing, val=num/den, max gap 1/96); "
               "checked natively on the real default table by snapper_table_invariants; Snapper.__init__ (numpy) is not verified"]

    def requires(self, beat, j):
        return 0 <= j and j < len(self.val)

    def ensures_nearest(self, beat, j, result):
        fl = floor(beat)
        return abs(result - beat) <= abs(self.val[j] + fl - beat)

    def ensures_within_grid_resolution(self, beat, j, result):
        return abs(result - beat) <= Fraction(1, 192)

    def ensures_fixed_point_on_grid(self, beat, j, result):
        return implies(beat - floor(beat) == self.val[j], result == beat)

    def ensures_same_beat_cell(self, beat, j, result):
        return floor(beat) <= result and result <= floor(beat) + 1

    def witnesses(rng):
        from reamber.algorithms.timing.utils.Snapper import Snapper

        s = Snapper()
        n = len(s.val)
        for _ in range(300):
            k = rng.randrange(n)
            if rng.random() < 0.4:
                b = Fraction(int(s.num[k]), int(s.den[k])) + rng.randrange(-2, 5)
            else:
                b = Fraction(rng.randrange(-3000, 9000), rng.choice([1000, 997, 7, 192, 384]))
            yield dict(self=s, beat=b, j=rng.randrange(n))


@contract("C10", SNAPPER + ".snap", args=dict(self=SnapperT(), beat=Real("fraction")), returns=Real("fraction"))
class snapper_snap_bounds:
    """The index-free part of the Snapper contract, in the form callers use modularly."""

    assumes = ["Snapper table abstract (I1-I4)"]

    def ensures_within_grid_resolution(self, beat, result):
        return abs(result - beat) <= Fraction(1, 192)

    def ensures_same_beat_cell(self, beat, result):
        return floor(beat) <= result and result <= floor(beat) + 1

    def witnesses(rng):
        from reamber.algorithms.timing.utils.Snapper import Snapper

        s = Snapper()
        for _ in range(100):
            yield dict(self=s, beat=Fraction(rng.randrange(-3000, 9000), rng.choice([1000, 997, 7, 192, 384])))


@bounded("C10", note="invariants I1-I4 of the REAL default Snapper table (complete for the one configuration the library uses)")
def snapper_table_invariants(rep):
    from reamber.algorithms.timing.utils.Snapper import Snapper

    s = Snapper()
    n = len(s.val)
    rep.bound = f"the default table, all {n} entries"
    rep.rule = "each table entry is a case; non-trivial: every entry"
    rep.exhaustive = True
    vals = [Fraction(int(a), int(b)) for a, b in zip(s.num, s.den)]
    for k in range(n):
        rep.case(dict(k=k, num=int(s.num[k]), den=int(s.den[k])))
        rep.expect(int(s.den[k]) >= 1 and abs(float(vals[k]) - float(s.val[k])) < 1e-12, "I3_val_is_num_over_den", dict(k=k), f"{s.val[k]} vs {vals[k]}")
        if k:
            rep.expect(vals[k - 1] < vals[k], "I2_strictly_increasing", dict(k=k), f"{vals[k-1]} !< {vals[k]}")
            rep.expect(vals[k] - vals[k - 1] <= Fraction(1, 96), "I4_max_gap", dict(k=k), f"gap {vals[k]-vals[k-1]}")
    rep.expect(vals[0] == 0 and vals[-1] == 1, "I1_ends", dict(first=str(vals[0]), last=str(vals[-1])), "table must start at 0 and end at 1")
    have = set(vals)
    for d in range(1, 97):
        for nn in range(0, d):
            rep.expect(Fraction(nn, d) in have, "grid_contains_every_fraction_up_to_96", dict(n=nn, d=d), "missing grid point")


# ----------------------------------------------------------------------------- TimingMap.offsets

TM = "reamber.algorithms.timing.TimingMap:TimingMap"


def _mk_tm(bpm_changes_offset, snapper=None):
    from reamber.algorithms.timing.TimingMap import TimingMap

    return TimingMap(bpm_changes_offset=bpm_changes_offset)


def TmT(n):
    return Obj(TM, build=_mk_tm, bpm_changes_offset=ListT(BcoT(), n), snapper=SnapperT())


def wf_bco(b):
    return b.bpm > 0 and b.metronome > 0


def snap_ge(a, b):
    return a.measure > b.measure or (a.measure == b.measure and a.beat >= b.beat)


def active_offset(bco, bcs, snap):
    """ms of `snap`: offset of the last change at or before it + beat distance at that change's tempo."""
    res = bco[0].offset + beats_between(bcs[0], snap) * 60000 / bcs[0].bpm
    for i in range(1, len(bcs)):
        res = (bco[i].offset + beats_between(bcs[i], snap) * 60000 / bcs[i].bpm) if snap_ge(snap, bcs[i].snap) else res
    return res


def weak(s):
    """What the re-derived change snaps satisfy: non-negative measure and beat (a change in the middle of a
    measure under a different metronome is not re-normalised by bpm_changes_offset_to_snap)."""
    return s.measure >= 0 and s.beat >= 0 and s.metronome > 0


def wf_bcs_weak(b):
    return b.bpm > 0 and b.metronome > 0 and weak(b.snap) and b.snap.metronome == b.metronome


@contract("C10", SNAP + ".from_offset", args=dict(offset=Real(), bco=BcoT(), bcs=BcsT(), snapper=SnapperT()), returns=SnapT(),
          use=["snapper_snap_bounds", "snap_post_init"])
class snap_from_offset:
    """ms -> position inside one tempo segment: the beat distance from the segment start is the elapsed
    time in beats, moved by at most 1/192 beat (nearest grid fraction); the result is normalised."""

    assumes = ["Snapper table abstract (I1-I4); Snapper.snap executed from its real source"]

    def requires(offset, bco, bcs, snapper):
        return wf_bco(bco) and wf_bcs_weak(bcs) and bcs.metronome == bco.metronome and bcs.bpm == bco.bpm and offset >= bco.offset

    def ensures_position(offset, bco, bcs, snapper, result):
        d = (result.measure - bcs.snap.measure) * bco.metronome + (result.beat - bcs.snap.beat)
        want = (offset - bco.offset) * bco.bpm / 60000
        return abs(d - want) <= Fraction(1, 192)

    def ensures_normal(offset, bco, bcs, snapper, result):
        return normal(result) and result.metronome == bco.metronome and snap_ge(result, bcs.snap)

    def witnesses(rng):
        from reamber.algorithms.timing.utils.Snapper import Snapper

        sn = Snapper()
        for _ in range(200):
            m = Fraction(rng.choice([3, 4, 5]))
            bpm = float(rng.choice([60, 120, 177.5]))
            bco = _mk_bco(bpm, m, float(rng.randrange(-500, 500)))
            bcs = _mk_bcs(bpm, m, _mk_snap(rng.randrange(3), Fraction(rng.randrange(0, int(m) * 4), 4), m))
            yield dict(offset=bco.offset + rng.uniform(0, 9000), bco=bco, bcs=bcs, snapper=sn)


@contract("C10", TM + ".bpm_changes_snap", args=dict(self=Choice([TmT(n) for n in (1, 2, 3)])),
          returns=lambda loc: ListT(BcsT(), len(loc["self"].fields["bpm_changes_offset"])), use=["snap_from_offset"])
class bpm_changes_snap_shape:
    """Interface contract used modularly by offsets/snaps: the snap-form list is parallel to the (sorted)
    offset-form list, well formed, starts at 0.0 and is non-decreasing in position.  Requires the offset list
    sorted (TimingMap's constructors sort it; ties allowed: a zero-length segment) so that positions do not go backwards."""

    assumes = ["shape-bounded: 1..3 tempo changes; Snapper table abstract (I1-I4)"]
    pure = True  # for an already sorted offset list the in-place sort is the identity

    def requires(self):
        b = self.bpm_changes_offset
        return all(wf_bco(x) for x in b) and all(x.offset <= y.offset for x, y in zip(b[:-1], b[1:]))

    def ensures_parallel(self, result):
        b = self.bpm_changes_offset
        return len(result) == len(b) and all(r.bpm == x.bpm and r.metronome == x.metronome for r, x in zip(result, b))

    def ensures_well_formed_and_ordered(self, result):
        return (all(wf_bcs_weak(r) for r in result) and result[0].snap.measure == 0 and result[0].snap.beat == 0
                and all(snap_ge(y.snap, x.snap) for x, y in zip(result[:-1], result[1:])))

    def witnesses(rng):
        for _ in range(100):
            n = rng.randrange(1, 4)
            t = float(rng.randrange(-1000, 1000))
            bco = []
            for _ in range(n):
                m = Fraction(rng.choice([3, 4, 5]))
                bpm = float(rng.choice([60, 120, 200]))
                bco.append(_mk_bco(bpm, m, t))
                t += float(rng.randrange(1, 40)) * 60000 / bpm / 4
            yield dict(self=_mk_tm(bco))


@contract("C10", TM + ".offsets", args=dict(self=Choice([TmT(n) for n in (1, 2)]), snaps=Choice([ListT(SnapT(), m) for m in (1, 2)])),
          use=["bpm_changes_snap_shape"])
class offsets_in_query_order:
    """result[i] is the ms position of the i-th query (any order, duplicates allowed): offset of the active
    change + beat distance at its tempo.  bpm_changes_snap() is used through its contract."""

    max_paths = 30000
    explore_s = 300
    args_thorough = dict(self=Choice([TmT(n) for n in (1, 2, 3)]), snaps=Choice([ListT(SnapT(), m) for m in (1, 2)]))
    explore_s_thorough = 3000
    assumes = ["shape-bounded: 1..2 (thorough: 3) tempo changes x 1..2 queries, all values symbolic; arbitrary query count by offsets_sweep_step + argsort un-permutation (A2)"]

    def requires(self, snaps):
        b = self.bpm_changes_offset
        return (all(wf_bco(x) for x in b) and all(x.offset <= y.offset for x, y in zip(b[:-1], b[1:]))
                and all(normal(s) for s in snaps))

    def requires_domain(self, snaps):
        # a change keeps the metronome or sits on a measure line, i.e. every re-derived change position is
        # normalised (what a mid-measure metronome change means is not defined by the property)
        return all(normal(c.snap) for c in self.bpm_changes_snap())

    def native_call(self, snaps):
        return list(self.offsets(list(snaps)))

    def ensures_each_query_integrated(self, snaps, result):
        bcs = self.bpm_changes_snap()
        return len(result) == len(snaps) and all(eqr(result[i], active_offset(self.bpm_changes_offset, bcs, snaps[i])) for i in range(len(snaps)))

    def witnesses(rng):
        for _ in range(150):
            n = rng.randrange(1, 4)
            cs = _rand_changes(rng, n, metro=4)
            from reamber.algorithms.timing.TimingMap import TimingMap

            tm = TimingMap.from_bpm_changes_snap(float(rng.randrange(-500, 500)), cs, reseat=False)
            qs = [_mk_snap(rng.randrange(0, 8), Fraction(rng.randrange(0, 16), 4), Fraction(4)) for _ in range(rng.randrange(1, 4))]
            yield dict(self=tm, snaps=qs)



def _sweep_args(n):
    return dict(self=TmT(n), bcs_s=ListT(BcsT(), n), snap=SnapT(), bc_i=Int(), offsets=ListT(Real(), 0))


def _sweep_shapes():
    from pyvc.dsl import DictT

    return Choice([1, 2, 3])


@loop_unit("C10", TM + ".offsets", anchor="for snap in reversed(snaps[sorter])",
           args=dict(n=Choice([1, 2, 3]), self=Choice([TmT(n) for n in (1, 2, 3)]), bcs_s=Choice([ListT(BcsT(), n) for n in (1, 2, 3)]),
                     snap=SnapT(), bc_i=Int(), offsets=ListT(Real(), 0)))
class offsets_sweep_step:
    """One iteration of the reverse sweep from ANY state satisfying the sweep invariant (so: any number of
    queries).  Invariant: bc_i is a valid negative index and every change after bc_i lies strictly after the
    current query (queries arrive in non-increasing order).  The step appends the query's ms position and
    re-establishes the invariant for every later (smaller or equal) query."""

    max_paths = 4000
    assumes = ["shape-bounded in the number of tempo changes (1..3), unbounded in the number of queries"]

    def requires(n, self, bcs_s, snap, bc_i, offsets):
        b = self.bpm_changes_offset
        return (len(b) == n and len(bcs_s) == n
                and all(wf_bco(x) for x in b) and all(wf_bcs_weak(c) and normal(c.snap) for c in bcs_s)
                and all(c.bpm == x.bpm and c.metronome == x.metronome for c, x in zip(bcs_s, b))
                and bcs_s[0].snap.measure == 0 and bcs_s[0].snap.beat == 0
                and all(snap_ge(y.snap, x.snap) for x, y in zip(bcs_s[:-1], bcs_s[1:]))
                and normal(snap)
                and -n <= bc_i and bc_i <= -1
                and all(implies(j > n + bc_i, not snap_ge(snap, bcs_s[j].snap)) for j in range(n)))

    def ensures_appends_the_query_position(n, self, bcs_s, snap, bc_i, offsets, result):
        return (result.outcome == "normal" and len(result.offsets) == len(offsets) + 1
                and eqr(result.offsets[-1], active_offset(self.bpm_changes_offset, bcs_s, snap)))

    def ensures_invariant_for_later_queries(n, self, bcs_s, snap, bc_i, offsets, result):
        k = result.bc_i
        return (-n <= k and k <= -1
                and all(implies(j > n + k, not snap_ge(snap, bcs_s[j].snap)) for j in range(n))
                and all(implies(j == n + k, snap_ge(snap, bcs_s[j].snap)) for j in range(n)))

    def witnesses(rng):
        from reamber.algorithms.timing.TimingMap import TimingMap

        for _ in range(150):
            n = rng.randrange(1, 4)
            cs = _rand_changes(rng, n, metro=4, on_measure=rng.random() < 0.5)
            tm = TimingMap.from_bpm_changes_snap(float(rng.randrange(-500, 500)), cs, reseat=False)
            bcs = tm.bpm_changes_snap()
            q = _mk_snap(rng.randrange(0, 8), Fraction(rng.randrange(0, 16), 4), Fraction(4))
            # a state satisfying the invariant: bc_i anywhere at or after the active change
            act = max(j for j in range(n) if snap_ge(q, bcs[j].snap))
            bc_i = rng.randrange(act, n) - n
            yield dict(n=n, self=tm, bcs_s=bcs, snap=q, bc_i=bc_i, offsets=[])


# ----------------------------------------------------------------------------- TimingMap.snaps / beats


def active_index_by_offset(bco, t):
    k = 0
    for i in range(1, len(bco)):
        k = i if bco[i].offset <= t else k
    return k


@contract("C10", TM + ".snaps", args=dict(self=Choice([TmT(n) for n in (1, 2)]), offsets=Choice([ListT(Real(), m) for m in (1, 2)]), snapper=SnapperT()),
          use=["bpm_changes_snap_shape", "snap_from_offset"])
class snaps_in_query_order:
    """result[i] is the position of the i-th queried time (any order, duplicates): within the active segment
    the beat distance from the segment's change equals the elapsed beats, up to 1/192 beat (nearest grid)."""

    max_paths = 6000
    args_thorough = dict(self=Choice([TmT(n) for n in (1, 2, 3)]), offsets=Choice([ListT(Real(), m) for m in (1, 2, 3)]))
    assumes = ["shape-bounded: 1..2 (thorough: 3) tempo changes x 1..2 (thorough: 3) queries; from_offset and bpm_changes_snap through their contracts"]

    def requires(self, offsets, snapper):
        b = self.bpm_changes_offset
        return (all(wf_bco(x) for x in b) and all(x.offset <= y.offset for x, y in zip(b[:-1], b[1:]))
                and all(t >= b[0].offset for t in offsets))

    def native_call(self, offsets, snapper):
        return list(self.snaps(list(offsets), snapper))

    def ensures_each_query_positioned(self, offsets, snapper, result):
        b = self.bpm_changes_offset
        bcs = self.bpm_changes_snap()
        ok = len(result) == len(offsets)
        for i in range(len(offsets)):
            for k in range(len(b)):
                is_active = b[k].offset <= offsets[i] and all(implies(j > k, b[j].offset > offsets[i]) for j in range(len(b)))
                d = (result[i].measure - bcs[k].snap.measure) * b[k].metronome + (result[i].beat - bcs[k].snap.beat)
                ok = ok and implies(is_active, abs(d - (offsets[i] - b[k].offset) * b[k].bpm / 60000) <= Fraction(1, 192))
        return ok

    def witnesses(rng):
        from reamber.algorithms.timing.TimingMap import TimingMap
        from reamber.algorithms.timing.utils.Snapper import Snapper

        for _ in range(120):
            n = rng.randrange(1, 4)
            cs = _rand_changes(rng, n, metro=4)
            tm = TimingMap.from_bpm_changes_snap(float(rng.randrange(-500, 500)), cs, reseat=False)
            t0 = tm.bpm_changes_offset[0].offset
            yield dict(self=tm, offsets=[t0 + rng.uniform(0, 20000) for _ in range(rng.randrange(1, 4))], snapper=Snapper())



# ----------------------------------------------------------------------------- bounded: the whole engine against exact rationals


def _oracle_ms(changes, initial, pos_beats):
    """changes: [(start_beats, bpm)] sorted; exact integration in Fractions."""
    t = Fraction(initial)
    for i, (b0, bpm) in enumerate(changes):
        b1 = changes[i + 1][0] if i + 1 < len(changes) else None
        if b1 is None or pos_beats < b1:
            return t + (pos_beats - b0) * Fraction(60000) / Fraction(bpm)
        t += (b1 - b0) * Fraction(60000) / Fraction(bpm)
    raise AssertionError


@bounded("C10", note="whole timing engine on random tempo lists against exact rational integration (A1 side check, cumulative beats, query order, ms->position->ms)")
def engine_vs_rational_oracle(rep):
    from reamber.algorithms.timing.TimingMap import TimingMap
    from reamber.algorithms.timing.utils.Snapper import Snapper
    from reamber.algorithms.timing.utils.BpmChangeSnap import BpmChangeSnap
    from reamber.algorithms.timing.utils.snap import Snap

    rng = rep.rng
    sn = Snapper()
    N = rep.n(250, 6000)
    rep.bound = f"{N} random tempo lists: 1..5 changes on measure lines, metronome 1..8 (constant per list), bpm from a pool, initial offset in [-5000, 5000], 1..8 shuffled queries with duplicates on the 1/48 grid and off grid"
    rep.rule = "a case is one (tempo list, query multiset); non-trivial when it has >= 2 changes or >= 2 queries"
    for _ in range(N):
        if rep.out_of_time(25, 300):
            break
        metro = rng.randrange(1, 9)
        n = rng.randrange(1, 6)
        measures = sorted(rng.sample(range(1, 30), n - 1))
        bpms = [rng.choice([60, 90, 120, 150, 177.5, 200, 333]) for _ in range(n)]
        init = rng.choice([0, -1234.5, 250, 5000, -5000])
        cs = [BpmChangeSnap(bpms[0], metro, Snap(0, 0, metro))] + [BpmChangeSnap(bpms[i + 1], metro, Snap(m, 0, metro)) for i, m in enumerate(measures)]
        order = list(range(n))
        rng.shuffle(order)
        tm = TimingMap.from_bpm_changes_snap(init, [cs[i] for i in order], reseat=False)
        changes = [(Fraction(0), Fraction(repr(bpms[0])))] + [(Fraction(m * metro), Fraction(repr(bpms[i + 1]))) for i, m in enumerate(measures)]
        q = []
        for _ in range(rng.randrange(1, 9)):
            q.append(Fraction(rng.randrange(0, 35 * metro * 48), 48))
        q += rng.sample(q, min(2, len(q)))
        rng.shuffle(q)
        case = dict(metro=metro, init=init, changes=[(str(a), str(b)) for a, b in changes], queries=[str(x) for x in q])
        rep.case(case, nontrivial=(n >= 2 or len(q) >= 2))
        snaps = [Snap(int(x // metro), x % metro, metro) for x in q]
        got = tm.offsets(snaps)
        want = [_oracle_ms(changes, Fraction(repr(float(init))), x) for x in q]
        for i in range(len(q)):
            if not rep.expect(abs(float(got[i]) - float(want[i])) <= 1e-6, "offsets_equal_integration_in_query_order", case, f"query {i}: got {got[i]} want {float(want[i])}"):
                break
        # ms -> position -> ms on the grid is exact; off the grid within 1/192 beat at the local tempo
        back = tm.snaps([float(w) for w in want], sn)
        for i in range(len(q)):
            pb = back[i].measure * metro + back[i].beat
            if not rep.expect(abs(float(pb - q[i])) <= 1e-7, "grid_time_maps_back_to_its_position", case, f"query {i}: position {pb} want {q[i]}"):
                break
        off = [float(w) + rng.uniform(0, 3) for w in want]
        back2 = tm.offsets(list(tm.snaps(off, sn)))
        for i in range(len(q)):
            slow = min(bpms)
            if not rep.expect(abs(back2[i] - off[i]) <= 60000 / slow / 192 + 1e-6, "offgrid_time_comes_back_within_grid", case, f"{off[i]} -> {back2[i]}"):
                break
        # the snapper handed to snaps() decides the grid: with a coarse one (denominators <= 4) every returned beat
        # fraction is the nearest allowed fraction of THAT grid
        coarse = Snapper(divisions=(1, 2, 3, 4))
        grid = sorted({Fraction(a, d) for d in (1, 2, 3, 4) for a in range(0, d + 1)})
        for i, sp in enumerate(tm.snaps(off, coarse)):
            fr = Fraction(sp.beat) % 1
            if not rep.expect(fr in grid, "snaps_uses_the_given_snapper", case, f"query {i}: beat {sp.beat} is not on the grid of the snapper passed in (denominators <= 4)"):
                break
        # cumulative beats: differences equal beat distance, monotone with time, in query order
        beats = tm.beats([float(w) for w in want], sn)
        for i in range(len(q)):
            for j in range(len(q)):
                if not rep.expect(abs(float(beats[i] - beats[j]) - float(q[i] - q[j])) <= 1e-7, "cumulative_beats_difference", case, f"{i},{j}: {beats[i]-beats[j]} want {q[i]-q[j]}"):
                    break


@bounded("C10", note="timing maps built from OFFSET-form tempo changes in any list order (from_bpm_changes_offset, BpmList.to_timing_map on unsorted rows), Snapper divisions in any order, queries after in-place edits of the tempo list")
def engine_other_constructions(rep):
    from reamber.algorithms.timing.TimingMap import TimingMap
    from reamber.algorithms.timing.utils.BpmChangeOffset import BpmChangeOffset
    from reamber.algorithms.timing.utils.Snapper import Snapper
    from reamber.algorithms.timing.utils.snap import Snap
    from reamber.base.Bpm import Bpm
    from reamber.base.lists.BpmList import BpmList

    rng = rep.rng
    N = rep.n(150, 3000)
    rep.bound = f"{N} random tempo lists (1..5 changes on measure lines, metronome 4, shuffled row order) x 3 constructions; Snapper divisions (1,2,4,8,16) in 4 orders; one in-place bpm edit per list"
    rep.rule = "a case is one tempo list with its queries; non-trivial with >= 2 changes"
    for _ in range(N):
        if rep.out_of_time(25, 300):
            break
        n = rng.randrange(1, 6)
        measures = [0] + sorted(rng.sample(range(1, 30), n - 1))
        bpms = [float(rng.choice([60, 90, 120, 150, 200])) for _ in range(n)]
        init = float(rng.choice([0, -1234.5, 250]))
        changes = [(Fraction(4 * m), Fraction(repr(b))) for m, b in zip(measures, bpms)]
        times = [float(_oracle_ms(changes, Fraction(repr(init)), Fraction(4 * m))) for m in measures]
        order = list(range(n))
        rng.shuffle(order)
        q = [Fraction(rng.randrange(0, 35 * 4 * 48), 48) for _ in range(rng.randrange(1, 6))]
        want = [float(_oracle_ms(changes, Fraction(repr(init)), x)) for x in q]
        snaps = [Snap(int(x // 4), x % 4, 4) for x in q]
        case = dict(init=init, measures=measures, bpms=bpms, order=order, queries=[str(x) for x in q])
        rep.case(case, nontrivial=n >= 2)

        def close(got, what, how):
            for i in range(len(q)):
                if abs(float(got[i]) - want[i]) > 1e-6:
                    rep.fail(what, case, f"{how}: query {i} at beat {q[i]}: got {got[i]} want {want[i]}")
                    return False
            return True

        # (a) offset-form changes handed over in any order
        tm = TimingMap.from_bpm_changes_offset([BpmChangeOffset(bpms[i], 4, times[i]) for i in order])
        close(tm.offsets(snaps), "offset_form_changes_in_any_order", "from_bpm_changes_offset")
        back = tm.snaps(want, Snapper())
        for i in range(len(q)):
            if abs(float(back[i].measure * 4 + back[i].beat - q[i])) > 1e-7:
                rep.fail("offset_form_changes_in_any_order", case, f"snaps(): time {want[i]} -> beat {back[i].measure * 4 + back[i].beat}, want {q[i]}")
                break
        # (b) an unsorted BpmList
        bl = BpmList([Bpm(offset=times[i], bpm=bpms[i], metronome=4) for i in order])
        close(bl.to_timing_map().offsets(snaps), "bpm_list_rows_in_any_order", "BpmList.to_timing_map")
        # (c) queries follow in-place edits of the tempo list (no stale state between queries)
        tm2 = TimingMap.from_bpm_changes_offset([BpmChangeOffset(bpms[i], 4, times[i]) for i in range(n)])
        tm2.offsets(snaps)
        k = rng.randrange(n)
        tm2.bpm_changes_offset[k].bpm = bpms[k] * 2
        fresh = TimingMap.from_bpm_changes_offset([BpmChangeOffset(bpms[i] * (2 if i == k else 1), 4, times[i]) for i in range(n)])
        a, b = tm2.offsets(snaps), fresh.offsets(snaps)
        if any(abs(float(x) - float(y)) > 1e-6 for x, y in zip(a, b)):
            rep.fail("queries_follow_in_place_edits", case, f"after bpm[{k}] *= 2 in place: {list(a)} vs a map built from the edited list {list(b)}")
        # (e) a map made with its own (finer) snapper derives positions with THAT snapper
        if n >= 2:
            fine = Snapper(divisions=(128,))
            pos1 = Fraction(4 * measures[1]) + Fraction(1, 128)
            t1 = float(_oracle_ms([(Fraction(0), Fraction(repr(bpms[0])))], Fraction(repr(init)), pos1))
            tm3 = TimingMap(bpm_changes_offset=[BpmChangeOffset(bpms[0], 4, init), BpmChangeOffset(bpms[1], 4, t1)], snapper=fine)
            sp = tm3.bpm_changes_snap()[1].snap
            if sp.measure * 4 + sp.beat != pos1:
                rep.fail("map_uses_its_own_snapper", case, f"change at beat {pos1} (on the 1/128 grid of the map's snapper) is derived at beat {sp.measure * 4 + sp.beat}")
            else:
                seated = tm3.reseat()
                if not any(abs(b.offset - t1) <= 1e-6 for b in seated.bpm_changes_offset):
                    rep.fail("map_uses_its_own_snapper", case, f"reseat(): the change at {t1} ms is no longer a tempo point: {[b.offset for b in seated.bpm_changes_offset]}")
        # (d) the order in which the allowed divisions are listed does not matter
        x = Fraction(rng.randrange(0, 3 * 160), 160)
        ref = Snapper(divisions=(1, 2, 4, 8, 16)).snap(x)
        for divs in ((16, 8, 4, 2, 1), (4, 16, 1, 8, 2), (2, 1, 16, 4, 8)):
            got = Snapper(divisions=divs).snap(x)
            if got != ref:
                rep.fail("snapper_divisions_in_any_order", dict(case, x=str(x), divisions=list(divs)), f"snap({x}) = {got} with divisions {divs}, {ref} with (1,2,4,8,16)")
                break
        grid16 = sorted({Fraction(a_, d) for d in range(1, 17) for a_ in range(0, d + 1)})
        fr = x % 1
        best = min(abs(g - fr) for g in grid16)
        if abs((ref % 1 if ref % 1 != 0 or fr < Fraction(1, 2) else 1) - fr) > best + Fraction(1, 10**9):
            rep.fail("snapper_nearest_on_its_own_grid", dict(case, x=str(x)), f"snap({x}) = {ref}: not a nearest fraction with denominator <= 16")
