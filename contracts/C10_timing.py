"""C10 - timing engine: Snap arithmetic, integration of beat length, snapping, sweep results in query order."""
from fractions import Fraction

from pyvc.dsl import contract, lemma, bounded, Int, Real, Bool, Obj, Const, Choice, ListT
from pyvc.ghost import eqr, implies, ler

SNAP = "reamber.algorithms.timing.utils.snap:Snap"
BCO = "reamber.algorithms.timing.utils.BpmChangeOffset:BpmChangeOffset"
BCS = "reamber.algorithms.timing.utils.BpmChangeSnap:BpmChangeSnap"


def _mk_snap(measure, beat, metronome):
    from reamber.algorithms.timing.utils.snap import Snap

    s = Snap.__new__(Snap)  # bypass normalisation: the contract's `requires` states the invariant
    s.measure, s.beat, s.metronome = measure, beat, metronome
    return s


def SnapT(**kw):
    return Obj(SNAP, build=_mk_snap, measure=Int(), beat=Real("fraction"), metronome=Real("fraction"))


def normal(s):
    """Data-structure invariant of a Snap produced by its constructor."""
    return s.measure >= 0 and 0 <= s.beat and s.beat < s.metronome and s.metronome > 0


def pos(s):
    """Position in beats of a normalised snap."""
    return s.measure * s.metronome + s.beat


# ----------------------------------------------------------------------------- Snap construction


@contract("C10", SNAP, args=dict(measure=Int(), beat=Real("fraction"), metronome=Real("fraction")))
class snap_post_init:
    """Snap(measure, beat, metronome): value-preserving normalisation for measure >= 0."""

    def requires(measure, beat, metronome):
        return measure >= 0 and metronome > 0

    raises = {ValueError: lambda measure, beat, metronome: measure * metronome + beat < 0}

    def ensures_position_preserved(measure, beat, metronome, result):
        return eqr(result.measure * metronome + result.beat, measure * metronome + beat)

    def ensures_normalised(measure, beat, metronome, result):
        return 0 <= result.beat and result.beat < metronome and result.measure >= 0 and result.metronome == metronome

    def ensures_measure_integral(measure, beat, metronome, result):
        return result.measure == int(result.measure)

    def ensures_returns_only_if_nonnegative(measure, beat, metronome, result):
        return measure * metronome + beat >= 0

    def witnesses(rng):
        for _ in range(300):
            me = Fraction(rng.choice([1, 2, 3, 4, 5, 7, 8]))
            yield dict(measure=rng.randrange(0, 6), beat=Fraction(rng.randrange(-40, 60), rng.choice([1, 2, 3, 4, 8, 48])), metronome=me)


@contract("C10", SNAP + ".__lt__", args=dict(self=SnapT(), other=SnapT()))
class snap_lt:
    def requires(self, other):
        return normal(self) and normal(other) and self.metronome == other.metronome

    def ensures_is_position_order(self, other, result):
        return result == (pos(self) < pos(other))

    def witnesses(rng):
        for _ in range(200):
            m = Fraction(rng.choice([3, 4, 7]))
            yield dict(self=_mk_snap(rng.randrange(3), Fraction(rng.randrange(0, int(m) * 4), 4), m), other=_mk_snap(rng.randrange(3), Fraction(rng.randrange(0, int(m) * 4), 4), m))


@contract("C10", SNAP + ".__eq__", args=dict(self=SnapT(), other=SnapT()))
class snap_eq:
    def requires(self, other):
        return normal(self) and normal(other) and self.metronome == other.metronome

    def ensures_is_position_equality(self, other, result):
        return result == (pos(self) == pos(other))

    def witnesses(rng):
        for _ in range(200):
            m = Fraction(rng.choice([3, 4]))
            yield dict(self=_mk_snap(rng.randrange(2), Fraction(rng.randrange(0, int(m) * 2), 2), m), other=_mk_snap(rng.randrange(2), Fraction(rng.randrange(0, int(m) * 2), 2), m))


@contract("C10", SNAP + ".__sub__", args=dict(self=SnapT(), other=SnapT()))
class snap_sub:
    """a - b for a >= b under one metronome: a normalised snap whose position is the beat distance."""

    def requires(self, other):
        return normal(self) and normal(other) and self.metronome == other.metronome and pos(self) >= pos(other)

    def ensures_distance(self, other, result):
        return eqr(pos(result), pos(self) - pos(other)) and normal(result)

    def witnesses(rng):
        for _ in range(200):
            m = Fraction(rng.choice([3, 4, 5]))
            a = _mk_snap(rng.randrange(4), Fraction(rng.randrange(0, int(m) * 4), 4), m)
            b = _mk_snap(rng.randrange(4), Fraction(rng.randrange(0, int(m) * 4), 4), m)
            if pos(a) < pos(b):
                a, b = b, a
            yield dict(self=a, other=b)


def _mk_bco(bpm, metronome, offset):
    from reamber.algorithms.timing.utils.BpmChangeOffset import BpmChangeOffset

    return BpmChangeOffset(bpm, metronome, offset)


def BcoT():
    return Obj(BCO, build=_mk_bco, bpm=Real(), metronome=Real("fraction"), offset=Real())


@contract("C10", SNAP + ".offset", args=dict(self=SnapT(), bpm_active=BcoT()))
class snap_offset:
    """Duration in ms of a snap-distance under the active tempo: 60000/bpm per beat."""

    def requires(self, bpm_active):
        return bpm_active.bpm > 0 and bpm_active.metronome > 0 and self.metronome == bpm_active.metronome

    def ensures_linear_in_beats(self, bpm_active, result):
        return eqr(result * bpm_active.bpm, 60000 * (self.measure * bpm_active.metronome + self.beat))

    def witnesses(rng):
        for _ in range(200):
            m = Fraction(rng.choice([3, 4, 5]))
            yield dict(self=_mk_snap(rng.randrange(4), Fraction(rng.randrange(0, int(m) * 4), 4), m), bpm_active=_mk_bco(rng.choice([60.0, 120.0, 177.5, 200.0]), m, float(rng.randrange(-500, 500))))
