"""C07 (O2Jam .ojn reading) - bounded stand-in.

Runs the REAL `O2JMapSet.read(bytes)` / `O2JMapSet.read_file(path)` on well-formed OJN byte strings and compares
with an independent exact interpreter `den_ojn` written from the format description (DESIGN appendix B):

  header  300 bytes little-endian, layout `HEADER_FMT`
  body    per difficulty d, package_count[d] packages `int32 measure; int16 channel; int16 count; count x 4 bytes`
          event i of count sits at measure + i/count
          channel 1     float32 bpm (0 = no event)
          channel 2..8  column 0..6: int16 value (0 = none); uint8 volume<<4|pan; uint8 type (0 hit, 2 head, 3 tail)
          channel 0     measure fraction - EXCLUDED by the property's domain;  9..22 ignored
  time    a measure lasts 240000/bpm ms; time 0 is measure 0 at the header bpm; a tempo event applies from its
          position on

Clause ids (`what`).  `<cls>` is `single_tempo` when the difficulty has no tempo event or exactly one event at
measure position 0, `multi_tempo` otherwise (the header tempo plus at least one change after the start, or several
events) - so the part of the reader that handles one tempo stays separately visible:

  read_raises_<cls>        read() raised (cls = multi_tempo when ANY difficulty of the file is multi_tempo)
  three_maps               the map set does not hold exactly three maps
  hit_column_count         per column, number of hits differs from the note channels' hits
  hold_column_count        per column, number of long notes differs from the head/tail pairs
  note_time_<cls>          a hit / long-note head is not at the integrated ms position
  hold_end_<cls>           a long note's end (offset + length) is not at the integrated ms position of ITS tail
  tempo_point_bpm          tempo values (header tempo + channel-1 events) differ
  tempo_point_time         a tempo change is not at the integrated ms position
  header_text / header_bpm / header_level / header_counts / header_other   header fields not decoded as laid out

Not asserted (the property is silent): volume / pan nibbles, the order of rows inside the lists, whether the header
tempo is repeated as a tempo point when an event sits at position 0, text fields that are not plain NUL-padded ASCII.
"""
from __future__ import annotations

import itertools
import struct
import traceback
import warnings
from bisect import bisect_left
from math import gcd
from fractions import Fraction

from pyvc.dsl import bounded
from pyvc.bounded import replayer

# ----------------------------------------------------------------------------------------------- format (A5)

HEADER_FMT = "<i4sfif4h3i3i3i3ihh20sii64s32s32s32si3i3ii"
assert struct.calcsize(HEADER_FMT) == 300
SLOT_COUNTS = [1, 2, 3, 4, 8, 16, 192]
FIXTURES = ["/repo/rsc/maps/o2jam/o2ma178.ojn", "/repo/rsc/maps/o2jam/o2ma120.ojn"]
TEXT_FIELDS = [("title", "title"), ("artist", "artist"), ("noter", "creator"), ("ojm_file", "ojm_file"), ("signature", "signature")]


def _f32(x):
    return struct.unpack("<f", struct.pack("<f", x))[0]


def parse_ojn(b):
    """bytes -> (header dict of raw decoded fields, [3 x [(measure, channel, count, raw event bytes)]], end offset)."""
    u = struct.unpack(HEADER_FMT, b[:300])
    h = dict(
        songid=u[0], signature=u[1], encode_version=u[2], genre=u[3], bpm=u[4], level=list(u[5:9]),
        event_count=list(u[9:12]), note_count=list(u[12:15]), measure_count=list(u[15:18]), package_count=list(u[18:21]),
        old_encode_version=u[21], old_songid=u[22], old_genre=u[23], bmp_size=u[24], old_file_version=u[25],
        title=u[26], artist=u[27], noter=u[28], ojm_file=u[29], cover_size=u[30], time=list(u[31:34]),
        note_offset=list(u[34:37]), cover_offset=u[37],
    )
    pos = 300
    diffs = []
    for d in range(3):
        pk = []
        for _ in range(h["package_count"][d]):
            measure, channel, count = struct.unpack_from("<ihh", b, pos)
            pos += 8
            raw = b[pos:pos + 4 * count]
            if len(raw) != 4 * count:
                raise ValueError("truncated package")
            pos += 4 * count
            pk.append((measure, channel, count, raw))
        diffs.append(pk)
    return h, diffs, pos


def _text(raw):
    """char[n] as text: the bytes before the first NUL, when the field is plain NUL-padded ASCII; else None."""
    i = raw.find(b"\x00")
    head, tail = (raw, b"") if i < 0 else (raw[:i], raw[i:])
    if tail.strip(b"\x00") or any(c >= 128 for c in head):
        return None
    return head.decode("ascii")


def den_ojn(b):
    """The denotation of an OJN file: header fields + per difficulty hits / holds / tempo points in exact ms."""
    h, diffs, end = parse_ojn(b)
    hb = Fraction(h["bpm"])
    maps = []
    for pk in diffs:
        tempo_ev = []  # (position, bpm float)
        cols = {c: [] for c in range(7)}  # column -> [(position, type)] in file order
        flags = set()
        for measure, channel, count, raw in pk:
            for i in range(count):
                pos = Fraction(measure) + Fraction(i, count)
                ev = raw[4 * i:4 * i + 4]
                if channel == 1:
                    v = struct.unpack("<f", ev)[0]
                    if v != 0:
                        tempo_ev.append((pos, v))
                        if not v > 0:
                            flags.add("nonpositive_bpm")
                elif 2 <= channel <= 8:
                    value, _vp, typ = struct.unpack("<hBB", ev)
                    if value != 0:
                        cols[channel - 2].append((pos, typ))
                elif channel == 0:
                    flags.add("measure_fraction")
        if hb <= 0:
            flags.add("nonpositive_bpm")
        tempo_ev.sort(key=lambda e: e[0])  # stable
        # integrate: breakpoints (position, time at position, tempo from there on)
        bp_pos, bp_t, bp_bpm = [Fraction(0)], [Fraction(0)], [hb]
        tempo = []
        if "nonpositive_bpm" not in flags:
            for pos, v in tempo_ev:
                t = bp_t[-1] + (pos - bp_pos[-1]) * 240000 / bp_bpm[-1]
                bp_pos.append(pos), bp_t.append(t), bp_bpm.append(Fraction(v))
                tempo.append((t, v))

        def T(p):
            # all tempo events strictly before p (events AT p give the same value)
            k = bisect_left(bp_pos, p, lo=1) - 1
            return bp_t[k] + (p - bp_pos[k]) * 240000 / bp_bpm[k]

        hits, holds, span = [], [], 0
        last_note = None
        for c in range(7):
            evs = sorted(cols[c], key=lambda e: e[0])  # stable: position order, file order on ties
            open_head = None
            for pos, typ in evs:
                last_note = pos if last_note is None else max(last_note, pos)
                if typ == 0:
                    hits.append((c, T(pos)))
                    if open_head is not None:
                        flags.add("hit_inside_long_note")
                elif typ == 2:
                    if open_head is not None:
                        flags.add("head_while_open")
                    open_head = pos
                elif typ == 3:
                    if open_head is None:
                        flags.add("tail_without_head")
                    else:
                        holds.append((c, T(open_head), T(pos) - T(open_head)))
                        span += int(pos) != int(open_head)
                        open_head = None
                else:
                    flags.add("other_note_type")
            if open_head is not None:
                flags.add("unclosed_head")
        single = len(tempo_ev) == 0 or (len(tempo_ev) == 1 and tempo_ev[0][0] == 0)
        maps.append(dict(
            hits=hits, holds=holds, tempo=tempo, tempo_events=len(tempo_ev), flags=sorted(flags),
            cls="single_tempo" if single else "multi_tempo", holds_across_measures=span,
            tempo_after_last_note=sum(1 for p, _ in tempo_ev if last_note is None or p > last_note),
            tempo_at_zero=any(p == 0 for p, _ in tempo_ev),
        ))
    return dict(header=h, maps=maps, end=end)


# ----------------------------------------------------------------------------------------------- builder

def build_ojn(spec):
    """spec (JSON-able) -> bytes.  spec = {header: {...}, diffs: 3 x [[measure, channel, count, [[slot, ev], ...]], ...]}
    ev = bpm (channel 1) or [value, volume, pan, type] (other channels).  Counts / offsets are derived, consistent."""
    hd = spec["header"]
    bodies, ev_count, note_count, measure_count, pkg_count = [], [], [], [], []
    for pk in spec["diffs"]:
        out = bytearray()
        ne = nn = 0
        for measure, channel, count, evs in pk:
            slots = [b"\x00\x00\x00\x00"] * count
            for slot, ev in evs:
                assert 0 <= slot < count and slots[slot] == b"\x00\x00\x00\x00"
                if channel == 1:
                    slots[slot] = struct.pack("<f", ev)
                else:
                    value, volume, pan, typ = ev
                    slots[slot] = struct.pack("<hBB", value, (volume << 4) | pan, typ)
                    nn += 2 <= channel <= 8
                ne += 1
            out += struct.pack("<ihh", measure, channel, count) + b"".join(slots)
        bodies.append(bytes(out))
        ev_count.append(ne), note_count.append(nn), pkg_count.append(len(pk))
        measure_count.append(max((p[0] for p in pk), default=-1) + 1)
    note_offset = [300, 300 + len(bodies[0]), 300 + len(bodies[0]) + len(bodies[1])]
    cover_offset = note_offset[2] + len(bodies[2])
    cover = bytes.fromhex(hd.get("cover", ""))
    head = struct.pack(
        HEADER_FMT, hd["songid"], hd.get("signature", "ojn").encode("ascii"), hd["encode_version"], hd["genre"], hd["bpm"],
        *hd["level"], *ev_count, *note_count, *measure_count, *pkg_count, hd["old_encode_version"], hd["old_songid"],
        bytes.fromhex(hd["old_genre"]), hd["bmp_size"], hd["old_file_version"], hd["title"].encode("ascii"),
        hd["artist"].encode("ascii"), hd["noter"].encode("ascii"), hd["ojm_file"].encode("ascii"), len(cover),
        *hd["time"], *note_offset, cover_offset,
    )
    assert len(head) == 300
    return head + b"".join(bodies) + cover


def _selfcheck(spec, b):
    """generator <-> interpreter framing agreement (a disagreement is a checker error, not a reamber failure)."""
    h, diffs, end = parse_ojn(b)
    assert h["note_offset"][0] == 300 and h["cover_offset"] == end and len(b) == end + h["cover_size"], "offsets"
    for d in range(3):
        assert len(diffs[d]) == len(spec["diffs"][d])
        for (m, ch, n, raw), (m2, ch2, n2, evs) in zip(diffs[d], spec["diffs"][d]):
            assert (m, ch, n) == (m2, ch2, n2) and sum(raw[4 * i:4 * i + 4] != b"\0\0\0\0" for i in range(n)) == len(evs)
    assert _text(h["title"]) == spec["header"]["title"] and h["bpm"] == spec["header"]["bpm"]


PLAIN_HEADER = dict(
    songid=1, encode_version=_f32(2.9), genre=2, bpm=120.0, level=[1, 2, 3, 0], old_encode_version=29, old_songid=1,
    old_genre="00" * 20, bmp_size=0, old_file_version=0, title="t", artist="a", noter="n", ojm_file="o2ma1.ojm",
    time=[1, 1, 1], cover="",
)


def _pos_pkgs(channel, events):
    """packages of one channel holding `events` = [(rational measure position, ev)]: one package per measure, with the
    smallest slot count that hits every position of that measure."""
    by_measure = {}
    for pos, ev in events:
        pos = Fraction(pos)
        m = pos.numerator // pos.denominator
        by_measure.setdefault(int(m), []).append((pos - m, ev))
    out = []
    for m, evs in sorted(by_measure.items()):
        count = 1
        for fr, _ in evs:
            count = count * fr.denominator // gcd(count, fr.denominator)
        out.append([m, channel, count, sorted([int(fr * count), ev] for fr, ev in evs)])
    return out


# ----------------------------------------------------------------------------------------------- random generator

BPM_POOL = [60.0, 90.0, 120.0, 130.0, 150.0, 177.5, 200.0, 240.0, 333.25, 0.75, 1000.0]


def _rand_text(rng, size):
    n = rng.choice([0, 1, rng.randrange(0, size + 1), rng.randrange(0, size + 1), size])
    return "".join(rng.choice("abcXYZ 019!-_.()'#") for _ in range(n))


def _rand_bpm(rng):
    return rng.choice(BPM_POOL) if rng.random() < 0.7 else _f32(rng.uniform(30, 480))


def _rand_header(rng):
    sid = rng.randrange(1, 30000)
    return dict(
        songid=sid, encode_version=_f32(rng.choice([2.9, 2.5, 1.0])), genre=rng.randrange(0, 11), bpm=_rand_bpm(rng),
        level=[rng.randrange(0, 200) for _ in range(3)] + [rng.choice([0, 0, 7])], old_encode_version=rng.choice([29, 25, 0]),
        old_songid=sid & 0x7FFF, old_genre=bytes(rng.choice([0, 0, 0, 1, 65, 255]) for _ in range(20)).hex(),
        bmp_size=rng.choice([0, 19256, rng.randrange(0, 1 << 20)]), old_file_version=rng.choice([0, 1]),
        title=_rand_text(rng, 64), artist=_rand_text(rng, 32), noter=_rand_text(rng, 32), ojm_file=f"o2ma{sid}.ojm",
        time=[rng.randrange(0, 600) for _ in range(3)], cover=bytes(rng.randrange(256) for _ in range(rng.choice([0, 0, 5, 64]))).hex(),
    )


def _rand_diff(rng, single, max_pkgs=40):
    n_pk = rng.randint(1, max_pkgs)
    s0 = rng.choice([0, 0, 0, 1, 2, 5])  # first measure with notes
    L = rng.randint(1, 12)  # measures with notes: s0 .. s0+L-1
    pk = []
    # tempo events
    if single:
        k = rng.choice([0, 0, 1])
        tm = {0: 1} if k else {}
    else:
        k = rng.randint(1, 6)
        tm = {}
        for _ in range(k):
            m = rng.randrange(s0 + L, s0 + L + 4) if rng.random() < 0.25 else rng.randrange(0, s0 + L + 1)
            tm[m] = tm.get(m, 0) + 1
    for m, ne in sorted(tm.items()):
        count = 1 if single else rng.choice([c for c in SLOT_COUNTS if c >= ne])
        slots = sorted(rng.sample(range(count), ne))
        if not single and rng.random() < 0.5 and ne == 1:
            slots = [0]
        pk.append([m, 1, count, [[s, _rand_bpm(rng)] for s in slots]])
    budget = max(0, n_pk - len(pk))
    # autoplay packages (ignored channels) - part of real files, must not disturb framing
    if budget > 1 and rng.random() < 0.3:
        for _ in range(rng.randint(1, min(3, budget - 1))):
            count = rng.choice(SLOT_COUNTS[:6])
            evs = [[s, [rng.randrange(1, 1000), rng.randrange(16), rng.randrange(16), rng.choice([0, 4])]] for s in range(count) if rng.random() < 0.5]
            pk.append([rng.randrange(0, s0 + L), rng.randrange(9, 23), count, evs])
            budget -= 1
    cand = [(m, ch) for m in range(s0, s0 + L) for ch in range(2, 9)]
    chosen = rng.sample(cand, min(budget, len(cand)))
    for ch in range(2, 9):
        ms = sorted(m for m, c in chosen if c == ch)
        pkgs, seq = [], []
        for m in ms:
            count = rng.choice(SLOT_COUNTS)
            if count == 192:
                slots = sorted(rng.sample(range(192), rng.randint(0, 5)))
            else:
                slots = [s for s in range(count) if rng.random() < 0.6]
            p = [m, ch, count, []]
            pkgs.append(p)
            seq += [(p, s) for s in slots]
        open_head = False
        p_head = rng.choice([0.2, 0.5, 0.8])
        for j, (p, s) in enumerate(seq):
            if open_head:
                typ, open_head = 3, False
            elif j + 1 < len(seq) and rng.random() < p_head:
                typ, open_head = 2, True
            else:
                typ = 0
            value = rng.choice([1, rng.randrange(1, 1000), 32767, -1, -32768, -rng.randrange(1, 1000)])
            p[3].append([s, [value, rng.randrange(16), rng.randrange(16), typ]])
        pk += pkgs
    # file order: non-decreasing measure, channels of one measure in any order
    rng.shuffle(pk)
    pk.sort(key=lambda p: p[0])
    if rng.random() < 0.3:
        # the format does not order packages of different channels: put the tempo-channel packages anywhere in the
        # file (note packages stay in time order: long-note pairing needs that)
        tempo = [p for p in pk if p[1] == 1]
        rest = [p for p in pk if p[1] != 1]
        rng.shuffle(tempo)
        for p in tempo:
            rest.insert(rng.randrange(0, len(rest) + 1), p)
        pk = rest
    return pk


def _rand_spec(rng, max_pkgs=40):
    mode = rng.random()
    if mode < 0.35:
        singles = [True, True, True]
    elif mode < 0.5:
        singles = [rng.random() < 0.5 for _ in range(3)]
    else:
        singles = [False, False, False]
    return dict(header=_rand_header(rng), diffs=[_rand_diff(rng, s, max_pkgs) for s in singles])


# ----------------------------------------------------------------------------------------------- comparison

def _close(got, want):
    want = float(want)
    return abs(got - want) <= 1e-3 + 1e-9 * abs(want)


def _maxerr(bad):
    return f"{max(abs(b[1] - b[2]) for b in bad):.6g}"


def _compare(ms, den, failed):
    h = den["header"]
    # header
    for key, attr in TEXT_FIELDS:
        want = _text(h[key])
        if want is not None and getattr(ms, attr) != want:
            failed.append(("header_text", f"{key}: got {getattr(ms, attr)!r} want {want!r}"))
    if not ms.bpm == h["bpm"]:
        failed.append(("header_bpm", f"got {ms.bpm!r} want {h['bpm']!r}"))
    if list(ms.level) != h["level"]:
        failed.append(("header_level", f"got {ms.level!r} want {h['level']!r}"))
    for key in ("event_count", "note_count", "measure_count", "package_count"):
        if list(getattr(ms, key)) != h[key]:
            failed.append(("header_counts", f"{key}: got {getattr(ms, key)!r} want {h[key]!r}"))
    for key, attr in [("songid", "song_id"), ("genre", "genre"), ("encode_version", "encode_version"), ("old_encode_version", "old_encode_version"),
                      ("old_songid", "old_song_id"), ("old_genre", "old_genre"), ("bmp_size", "bmp_size"), ("old_file_version", "old_file_version"),
                      ("cover_size", "cover_size"), ("time", "duration"), ("note_offset", "note_offset"), ("cover_offset", "cover_offset")]:
        got = getattr(ms, attr)
        got = list(got) if isinstance(h[key], list) else got
        if not got == h[key]:
            failed.append(("header_other", f"{key}: got {got!r} want {h[key]!r}"))
    # maps
    maps = list(ms.maps)
    if len(maps) != 3:
        failed.append(("three_maps", f"{len(maps)} maps"))
        return
    for d, (m, w) in enumerate(zip(maps, den["maps"])):
        cls = w["cls"]
        # hits
        g_off, g_col = [float(x) for x in m.hits.offset], [float(x) for x in m.hits.column]
        got_hits = {c: sorted(o for o, cc in zip(g_off, g_col) if cc == c) for c in set(g_col) | set(range(7))}
        want_hits = {c: sorted(t for cc, t in w["hits"] if cc == c) for c in range(7)}
        cnt_g = {c: len(v) for c, v in got_hits.items() if v}
        cnt_w = {c: len(v) for c, v in want_hits.items() if v}
        if cnt_g != cnt_w:
            failed.append(("hit_column_count", f"difficulty {d}: hits per column got {cnt_g} want {cnt_w}"))
        else:
            bad = [(c, g, float(t)) for c in range(7) for g, t in zip(got_hits[c], want_hits[c]) if not _close(g, t)]
            if bad:
                c, g, t = bad[0]
                failed.append((f"note_time_{cls}", f"difficulty {d}: {len(bad)} of {len(g_off)} hits misplaced (max error {_maxerr(bad)} ms); first: column {c} got {g!r} ms want {t!r} ms"))
        # holds
        h_off, h_col, h_len = [float(x) for x in m.holds.offset], [float(x) for x in m.holds.column], [float(x) for x in m.holds.length]
        got_holds = {c: sorted((o, o + l) for o, cc, l in zip(h_off, h_col, h_len) if cc == c) for c in set(h_col) | set(range(7))}
        want_holds = {c: sorted((t, t + l) for cc, t, l in w["holds"] if cc == c) for c in range(7)}
        cnt_g = {c: len(v) for c, v in got_holds.items() if v}
        cnt_w = {c: len(v) for c, v in want_holds.items() if v}
        if cnt_g != cnt_w:
            failed.append(("hold_column_count", f"difficulty {d}: long notes per column got {cnt_g} want {cnt_w}"))
        else:
            pairs = [(c, g, t) for c in range(7) for g, t in zip(got_holds[c], want_holds[c])]
            bad = [(c, g[0], float(t[0])) for c, g, t in pairs if not _close(g[0], t[0])]
            if bad:
                c, g, t = bad[0]
                failed.append((f"note_time_{cls}", f"difficulty {d}: {len(bad)} of {len(pairs)} long-note heads misplaced (max error {_maxerr(bad)} ms); first: column {c} got {g!r} ms want {t!r} ms"))
            bad = [(c, g[1], float(t[1]), float(t[0])) for c, g, t in pairs if not _close(g[1], t[1])]
            if bad:
                c, g, t, t0 = bad[0]
                failed.append((f"hold_end_{cls}", f"difficulty {d}: {len(bad)} of {len(pairs)} long-note ends misplaced (max error {_maxerr(bad)} ms); first: column {c} (head want {t0!r} ms) end got {g!r} ms want {t!r} ms"))
        # tempo points
        got_t = [(float(o), float(b)) for o, b in zip(m.bpms.offset, m.bpms.bpm)]
        want_t = [(t, v) for t, v in w["tempo"]]
        with_init = [(Fraction(0), h["bpm"])] + want_t
        if sorted(b for _, b in got_t) == sorted(v for _, v in with_init):
            want_t = with_init
        elif not (w["tempo_at_zero"] and sorted(b for _, b in got_t) == sorted(v for _, v in want_t)):
            failed.append(("tempo_point_bpm", f"difficulty {d}: tempo values got {[b for _, b in got_t]} want header {h['bpm']} then {[v for _, v in w['tempo']]}"))
            continue
        bad = []
        for v in sorted(set(b for _, b in got_t)):
            gs, ws = sorted(o for o, b in got_t if b == v), sorted(t for t, b in want_t if b == v)
            bad += [(v, g, float(t)) for g, t in zip(gs, ws) if not _close(g, t)]
        if bad:
            v, g, t = bad[0]
            failed.append(("tempo_point_time", f"difficulty {d} ({cls}): {len(bad)} of {len(want_t)} tempo points misplaced (max error {_maxerr(bad)} ms); first: bpm {v} got {g!r} ms want {t!r} ms"))


def _run_bytes(b, path=None):
    """-> (failed [(what, detail)], den) ; den is None when the file is outside the property's domain."""
    from reamber.o2jam.O2JMapSet import O2JMapSet

    den = den_ojn(b)
    flags = sorted({f for m in den["maps"] for f in m["flags"]})
    if flags:
        return [], None, flags
    failed = []
    multi = any(m["cls"] == "multi_tempo" for m in den["maps"])
    try:
        with warnings.catch_warnings():
            warnings.simplefilter("ignore")
            ms = O2JMapSet.read_file(path) if path else O2JMapSet.read(b)
    except Exception as ex:
        tb = traceback.extract_tb(ex.__traceback__)[-1]
        failed.append((f"read_raises_{'multi_tempo' if multi else 'single_tempo'}",
                       f"{type(ex).__name__}: {ex} at {tb.filename.split('/')[-1]}:{tb.lineno} `{tb.line}`; tempo events per difficulty {[m['tempo_events'] for m in den['maps']]}"))
        return failed, den, flags
    with warnings.catch_warnings():
        warnings.simplefilter("ignore")
        _compare(ms, den, failed)
    return failed, den, flags


def _run_case(case):
    if "file" in case:
        with open(case["file"], "rb") as f:
            b = f.read()
        return _run_bytes(b, path=case["file"])
    b = build_ojn(case)
    _selfcheck(case, b)
    return _run_bytes(b)


def _stats(rep, den, acc):
    for m in den["maps"]:
        acc[m["cls"]] = acc.get(m["cls"], 0) + 1
        acc["hits"] = acc.get("hits", 0) + len(m["hits"])
        acc["holds"] = acc.get("holds", 0) + len(m["holds"])
        acc["holds_across_measures"] = acc.get("holds_across_measures", 0) + m["holds_across_measures"]
        acc["tempo_events"] = acc.get("tempo_events", 0) + m["tempo_events"]
        acc["tempo_events_after_last_note"] = acc.get("tempo_events_after_last_note", 0) + m["tempo_after_last_note"]
    if all(m["cls"] == "single_tempo" for m in den["maps"]):
        acc["files_all_single_tempo"] = acc.get("files_all_single_tempo", 0) + 1


def _drive(rep, cases, quick_s, thorough_s):
    acc = {}
    for case in cases:
        if rep.out_of_time(quick_s, thorough_s):
            acc["stopped_on_time_budget"] = True
            break
        failed, den, flags = _run_case(case)
        if den is None:
            acc["outside_domain"] = acc.get("outside_domain", 0) + 1
            acc.setdefault("outside_domain_flags", []).append(flags)
            continue
        n_notes = sum(len(m["hits"]) + len(m["holds"]) for m in den["maps"])
        rep.case(case, nontrivial=n_notes >= 2)
        _stats(rep, den, acc)
        seen = set()
        for what, d in failed:
            if what not in seen:  # one record per clause and case
                seen.add(what)
                rep.fail(what, case, d)
    rep.extra.update(acc)


# ----------------------------------------------------------------------------------------------- the checks

TAIL_POS = (Fraction(1, 2), Fraction(7, 3), Fraction(9, 2))


def _small_specs():
    """Every file of a small family, simplest first (so the recorded witnesses are minimal).  T = tempo events on a
    subset (size <= 2) of positions {0, 1, 3/2, 4} with values 60 / 240 in both assignments (21 sets), the same in all
    three difficulties; header tempo 120.
    part 1: T x one hit at p in {0, 1/2, 2, 5}; the hit is on column 0 / 3 / 6 in difficulty 0 / 1 / 2.
    part 2: T x that hit x one long note (column 6 / 5 / 4) head in {0, 1, 3} -> tail in {1/2, 7/3, 9/2}; difficulties
            1 and 2 carry the hit one resp. two measures later."""
    tpos = [Fraction(0), Fraction(1), Fraction(3, 2), Fraction(4)]
    tempo_sets = [()]
    for p in tpos:
        tempo_sets += [((p, 60.0),), ((p, 240.0),)]
    for p, q in itertools.combinations(tpos, 2):
        tempo_sets += [((p, 60.0), (q, 240.0)), ((p, 240.0), (q, 60.0))]
    hit_pos = (Fraction(0), Fraction(1, 2), Fraction(2), Fraction(5))
    holds = [(Fraction(a), b) for a in (0, 1, 3) for b in TAIL_POS if b > a]
    hit, head, tail = [1, 0, 0, 0], [1, 0, 0, 2], [1, 0, 0, 3]
    for ts in tempo_sets:
        for p in hit_pos:
            diffs = [sorted(_pos_pkgs(1, list(ts)) + _pos_pkgs(ch, [(p, hit)]), key=lambda x: x[0]) for ch in (2, 5, 8)]
            yield dict(header=PLAIN_HEADER, diffs=diffs)
    for ts in tempo_sets:
        for p in hit_pos:
            for a, b in holds:
                diffs = []
                for d in range(3):
                    pk = _pos_pkgs(1, list(ts)) + _pos_pkgs(2 + d, [(p + d, hit)]) + _pos_pkgs(8 - d, [(a, head), (b, tail)])
                    diffs.append(sorted(pk, key=lambda x: x[0]))
                yield dict(header=PLAIN_HEADER, diffs=diffs)


@bounded("C07", note="every file of a small family (<= 2 tempo events, one hit, at most one long note per difficulty) against the exact OJN interpreter; gives minimal witnesses")
def ojn_small_files_vs_interpreter(rep):
    specs = list(_small_specs())
    rep.bound = (f"all {len(specs)} files: tempo events (same in the 3 difficulties) on a subset (size <= 2) of positions {{0, 1, 3/2, 4}} with values 60/240 "
                 "(both assignments; 21 sets incl. none) x one hit at {0, 1/2, 2, 5} on a different column per difficulty [84 files], then additionally x one long "
                 "note head {0,1,3} -> tail {1/2, 7/3, 9/2} with the hit shifted by one measure per difficulty [504 files]; header tempo 120")
    rep.rule = "a case is one OJN byte string (header + 3 difficulties); non-trivial when it holds at least 2 notes (every case holds >= 3)"
    rep.exhaustive = True
    _drive(rep, specs, 40, 300)
    if rep.extra.get("stopped_on_time_budget"):
        rep.exhaustive = False


@bounded("C07", note="random well-formed OJN files (1-40 packages per difficulty, slot counts {1,2,3,4,8,16,192}, 0-6 tempo events anywhere, 7 columns, long notes across packages/measures, ignored autoplay channels, cover blob) against the exact OJN interpreter")
def ojn_random_files_vs_interpreter(rep):
    rng = rep.rng
    N = rep.n(200, 3000)
    rep.bound = (f"{N} seeded random files: per difficulty 1-40 packages, note packages in non-decreasing measure order (distinct (measure, channel)), tempo-channel packages anywhere in the file in 30% of the difficulties, slot counts from "
                 "{1,2,3,4,8,16,192}, 0-6 tempo events (a quarter of them after the last note measure) with values from a pool incl. 0.75 and 1000 or a random "
                 "float32 in [30,480], notes start at measure 0/1/2/5 and span 1-12 measures, hits / head-tail pairs on columns 0-6, channels 9-22 sometimes present, "
                 "random header fields, NUL-padded ASCII texts of length 0..field size, 0/5/64 cover bytes; 35% of the files have at most one tempo event "
                 "(at measure 0) in every difficulty")
    rep.rule = "a case is one OJN byte string; non-trivial when it holds at least 2 notes"

    def gen():
        for _ in range(N):
            yield _rand_spec(rng)

    _drive(rep, gen(), 40, 420)


@bounded("C07", note="the two bundled .ojn files read with read_file against the exact OJN interpreter")
def ojn_bundled_files_vs_interpreter(rep):
    rep.bound = "the 2 bundled files /repo/rsc/maps/o2jam/o2ma178.ojn and o2ma120.ojn (3 difficulties each)"
    rep.rule = "a case is one bundled file; both hold hundreds of notes (o2ma178: 22-24 tempo-channel events per difficulty, o2ma120: none)"
    rep.exhaustive = True
    _drive(rep, [dict(file=p) for p in FIXTURES], 50, 300)


def _replay(case, what):
    failed, den, flags = _run_case(case)
    if den is None:
        return (False, f"file outside the property's domain: {flags}")
    hit = [d for w, d in failed if w == what]
    return (bool(hit), hit[0] if hit else "passes")


for _name in ("ojn_small_files_vs_interpreter", "ojn_random_files_vs_interpreter", "ojn_bundled_files_vs_interpreter"):
    replayer(_name)(_replay)
